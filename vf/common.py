"""Process setup and small shared helpers (no jumanji import at module import time)."""
from __future__ import annotations

import hashlib
import os
import sys
import warnings

VERIF_ROOT = os.path.dirname(os.path.dirname(os.path.abspath(__file__)))


def setup_process() -> None:
    """Environment for every process that imports jax/jumanji.  Idempotent."""
    os.environ.setdefault("JAX_PLATFORMS", "cpu")
    os.environ.setdefault(
        "XLA_FLAGS",
        "--xla_cpu_multi_thread_eigen=false intra_op_parallelism_threads=1",
    )
    os.environ.setdefault("PYTHONHASHSEED", "0")
    os.environ.setdefault("MPLBACKEND", "Agg")
    os.environ.setdefault("OMP_NUM_THREADS", "1")
    os.environ.setdefault("OPENBLAS_NUM_THREADS", "1")
    os.environ.setdefault("TF_CPP_MIN_LOG_LEVEL", "3")
    os.environ.setdefault("SDL_VIDEODRIVER", "dummy")
    # instrumentation guard reserved in MANIFEST.hooks (no source commits use it)
    os.environ.setdefault("JUMANJI_VERIF", "1")
    repo = os.environ.get("VF_REPO", "/repo")
    if repo not in sys.path[:1]:
        sys.path.insert(0, repo)
    if VERIF_ROOT not in sys.path:
        sys.path.insert(1, VERIF_ROOT)
    warnings.filterwarnings("ignore")


def repo_root() -> str:
    return os.environ.get("VF_REPO", "/repo")


def digest(*objs) -> int:
    """64-bit digest of a nest of arrays / scalars / strings (order sensitive)."""
    import numpy as np

    h = hashlib.blake2b(digest_size=8)

    def feed(o):
        if o is None:
            h.update(b"N")
        elif isinstance(o, (str, bytes)):
            h.update(o.encode() if isinstance(o, str) else o)
            h.update(b"|")
        elif isinstance(o, (bool, int, float)):
            h.update(repr(o).encode())
            h.update(b"|")
        elif isinstance(o, dict):
            for k in sorted(o, key=str):
                feed(str(k))
                feed(o[k])
        elif isinstance(o, (list, tuple)):
            h.update(b"[")
            for x in o:
                feed(x)
            h.update(b"]")
        elif hasattr(o, "__dataclass_fields__"):
            for k in o.__dataclass_fields__:
                feed(k)
                feed(getattr(o, k))
        else:
            a = np.asarray(o)
            h.update(str(a.dtype).encode())
            h.update(str(a.shape).encode())
            h.update(np.ascontiguousarray(a).tobytes())

    for o in objs:
        feed(o)
    return int.from_bytes(h.digest(), "big")


def jsonable(o, maxlen: int = 400):
    """Best-effort conversion of nests with numpy/jax leaves into JSON-able data (for samples and
    replay files)."""
    import numpy as np

    if o is None or isinstance(o, (bool, int, float, str)):
        return o
    if isinstance(o, dict):
        return {str(k): jsonable(v, maxlen) for k, v in o.items()}
    if isinstance(o, (list, tuple)):
        return [jsonable(v, maxlen) for v in o]
    if hasattr(o, "__dataclass_fields__"):
        return {k: jsonable(getattr(o, k), maxlen) for k in o.__dataclass_fields__}
    if hasattr(o, "_asdict"):
        return {k: jsonable(v, maxlen) for k, v in o._asdict().items()}
    try:
        a = np.asarray(o)
    except Exception:
        return repr(o)[:maxlen]
    if a.dtype == object:
        return repr(o)[:maxlen]
    if a.ndim == 0:
        return a.item()
    if a.size > maxlen:
        return {"shape": list(a.shape), "dtype": str(a.dtype), "head": a.ravel()[:16].tolist()}
    return a.tolist()

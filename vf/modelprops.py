"""Generic drivers for the model-based properties C04-C10, C12.  Each `vf/props/Cxx.py` is a thin
wrapper that picks a driver; the per-environment knowledge lives in `vf/models/<env>.py`."""
from __future__ import annotations

import numpy as np

from vf import envs, episodes, histprop, hyp
from vf.common import digest
from vf.hyp import st
from vf.models import base
from vf.runner import Ctx

HEAVY = {"BinPack": 5, "PacMan": 3, "MMST": 3, "Connector": 2, "FlatPack": 3, "Sudoku": 2, "JobShop": 2,
         "RobotWarehouse": 2, "LevelBasedForaging": 2}


def tslice(tree, i):
    import jax

    return jax.tree_util.tree_map(lambda x: x[i], tree)


def state_digest(s):
    import jax

    return digest([np.asarray(x) for x in jax.tree_util.tree_leaves(s)])


# ------------------------------------------------------------------------------ action enumeration
class Enumerator:
    """Builds fixed-size batches of actions for 'every action in this state' queries and runs them
    through one vmapped step."""

    def __init__(self, b: envs.Bundle, cap: int = 1024):
        self.b, self.cap = b, cap
        self.layout = b.layout
        if self.layout in ("flat", "nd"):
            self.total = b.num_flat_actions()
        self.K = None

    def flat_to_action(self, flat, mask_shape):
        if self.layout == "flat":
            return np.asarray(flat, self.b.act_dtype)
        return np.asarray(np.unravel_index(int(flat), mask_shape), self.b.act_dtype)

    def all_or_sample(self, mask, r, want=None):
        """-> list of (index tuple into mask, agent or None, action).  `want` = bool array (mask shape)
        restricting to those entries (e.g. the illegal ones).  Full enumeration when it fits in
        `cap`, otherwise a stride sample balanced between mask-True and mask-False entries."""
        out = []
        b = self.b
        if self.layout in ("flat", "nd"):
            sel = np.ones(mask.shape, bool) if want is None else np.asarray(want, bool)
            idx = np.flatnonzero(sel.reshape(-1))
            if idx.size > self.cap:
                mflat = mask.reshape(-1)
                t_idx, f_idx = idx[mflat[idx]], idx[~mflat[idx]]
                half = self.cap // 2
                nt = min(t_idx.size, max(half, self.cap - f_idx.size))
                nf = min(f_idx.size, self.cap - nt)
                pick = []
                for arr, n in ((t_idx, nt), (f_idx, nf)):
                    if n and arr.size:
                        start = r % arr.size
                        stride = max(1, arr.size // n)
                        pick.extend(arr[(start + stride * np.arange(n)) % arr.size].tolist())
                idx = np.unique(np.asarray(pick, np.int64))
            for f in idx.tolist():
                ix = (f,) if self.layout == "flat" else tuple(int(x) for x in np.unravel_index(f, mask.shape))
                out.append((ix, None, self.flat_to_action(f, mask.shape)))
            return out
        # per-agent masks: every value of one component, the others at a masked-in default
        default = b.legal_action(mask, r).astype(np.int64)
        A, n = mask.shape
        for k in range(A):
            for v in range(n):
                if want is not None and not want[k, v]:
                    continue
                j = default.copy()
                j[k] = v
                out.append(((k, v), k, j.astype(b.act_dtype)))
        if len(out) > self.cap:
            start = r % len(out)
            stride = max(1, len(out) // self.cap)
            out = [out[(start + stride * i) % len(out)] for i in range(self.cap)]
        return out

    def run(self, s, items):
        """Steps state s with every action of `items` (padded to a fixed batch size so that the
        vmapped step compiles once) -> list of (s2_i, ts2_i) host trees."""
        if not items:
            return []
        acts = np.stack([np.asarray(a) for _, _, a in items], 0)
        n = acts.shape[0]
        K = 1
        while K < n:
            K *= 2
        K = min(max(K, 4), max(self.cap, n))
        if K < n:
            K = n
        pad = np.concatenate([acts, np.repeat(acts[:1], K - n, 0)], 0) if K > n else acts
        s2b, ts2b = episodes.host(self.b.step_all(s, pad))
        return [(tslice(s2b, i), tslice(ts2b, i)) for i in range(n)]


def _model_setup(method):
    def setup(ctx, b):
        m = base.get_model(b)
        if not base.supports(m, method):
            ctx.notes.append(f"{b.name}: model has no '{method}'")
            return None
        return m
    return setup


def _report(rec, oracle, problems, prefix=""):
    for sig, msg in problems or []:
        rec.fail(oracle, sig, prefix + msg)


# ---------------------------------------------------------------------------------------------- C04
class C04Mon(episodes.Monitor):
    def __init__(self, b, ctx, model):
        self.b, self.ctx, self.m = b, ctx, model
        self.enum = Enumerator(b, cap=1024)
        self.react = base.supports(model, "reacted_invalid")
        self.tick = 0
        total = b.num_flat_actions() if b.layout != "agents" else 0
        self.every = 1 if total <= 64 else (2 if total <= 400 else 4)

    def judge(self, rec, s, ts):
        if self.m is None or int(ts.step_type) == episodes.LAST:
            return
        mask = self.b.mask(ts)
        legal = np.asarray(self.m.legal(s)).astype(bool)
        self.ctx.evals()
        if legal.shape != mask.shape:
            rec.fail("mask_vs_rules", "shape", f"rules shape {legal.shape} vs mask {mask.shape}")
            return
        guard = self.m.mask_guard(s)
        cmp = np.ones(mask.shape, bool) if guard is None else ~np.asarray(guard, bool)
        if mask.any() and not mask.all():
            self.ctx.nontrivial_digest(state_digest(s))
            self.ctx.count("states_mixed_mask")
        bad_t = np.argwhere(mask & ~legal & cmp)
        bad_f = np.argwhere(~mask & legal & cmp)
        if bad_t.size:
            rec.fail("mask_vs_rules", "mask True but the rules forbid the action",
                     f"mask index {bad_t[0].tolist()} is True, rules say illegal ({len(bad_t)} such entries)")
        if bad_f.size:
            rec.fail("mask_vs_rules", "mask False but the rules allow the action",
                     f"mask index {bad_f[0].tolist()} is False, rules say legal ({len(bad_f)} such entries)")
        self.tick += 1
        if self.react and self.tick % self.every == 0:
            items = self.enum.all_or_sample(mask, r=self.tick * 7919)
            outs = self.enum.run(s, items)
            for (ix, agent, a), (s2, ts2) in zip(items, outs):
                if not cmp[ix]:
                    continue
                inv = self.m.reacted_invalid(s, a, s2, ts2, agent=agent)
                if inv is None:
                    self.ctx.count("reaction_undecided")
                    continue
                self.ctx.evals()
                self.ctx.count("reactions_checked")
                if mask[ix] and inv:
                    rec.fail("mask_vs_reaction", "mask True but the env handled the action as invalid",
                             f"mask index {list(ix)} action {np.asarray(a).tolist()}")
                if not mask[ix] and not inv:
                    rec.fail("mask_vs_reaction", "mask False but the env handled the action as valid",
                             f"mask index {list(ix)} action {np.asarray(a).tolist()}")

    def on_reset(self, rec, s, ts):
        self.judge(rec, s, ts)

    def on_step(self, rec, t, ps, pts, a, s, ts, after_last):
        if not after_last:
            self.joint(rec, ps, pts, a, s, ts)
            self.judge(rec, s, ts)

    def joint(self, rec, ps, pts, a, s, ts):
        """The joint action actually played: in environments whose documentation never lets one agent's move be
        cancelled because of another agent's move (model.JOINT_REACTION), an agent whose action was masked-in must
        not be treated as having played an invalid move, whatever the others did in the same step."""
        if self.m is None or not getattr(self.m, "JOINT_REACTION", False) or self.b.layout != "agents":
            return
        mask = self.b.mask(pts)
        act = np.asarray(a).reshape(-1)
        for k in range(mask.shape[0]):
            if not (0 <= int(act[k]) < mask.shape[1]) or not mask[k, int(act[k])]:
                continue
            inv = self.m.reacted_invalid(ps, a, s, ts, agent=k)
            if inv is None:
                continue
            self.ctx.evals()
            self.ctx.count("joint_reactions_checked")
            if inv:
                rec.fail("mask_vs_reaction.joint", "masked-in action of a joint action was handled as invalid",
                         f"agent {k} action {int(act[k])} of joint action {act.tolist()}")


def legal_fn_factory(b):
    m = base.get_model(b)
    if not base.supports(m, "legal"):
        return None
    return lambda s, ts: m.legal(s)


# ---------------------------------------------------------------------------------------------- C05
class C05Mon(episodes.Monitor):
    def __init__(self, b, ctx, model):
        self.b, self.ctx, self.m = b, ctx, model
        self.enum = Enumerator(b, cap=512)
        self.tick = 0
        total = b.num_flat_actions() if b.layout != "agents" else 0
        self.every = 1 if total <= 64 else (2 if total <= 400 else 4)

    def judge(self, rec, s, ts, depth):
        if self.m is None or int(ts.step_type) == episodes.LAST:
            return
        self.tick += 1
        if self.tick % self.every:
            return
        if self.b.layout is None:
            return self.judge_unmasked(rec, s, ts, depth)
        mask = self.b.mask(ts)
        legal = np.asarray(self.m.legal(s)).astype(bool)
        guard = self.m.mask_guard(s)
        want = ~legal if guard is None else (~legal & ~np.asarray(guard, bool))
        if not want.any():
            self.ctx.count("states_without_illegal_action")
            return
        # for per-agent layouts the *other* agents must play legal (rule-wise) defaults
        items = self.enum.all_or_sample(legal if self.b.layout == "agents" else mask, r=self.tick * 104729, want=want)
        outs = self.enum.run(s, items)
        for (ix, agent, a), (s2, ts2) in zip(items, outs):
            self.ctx.evals()
            if depth >= 1:
                self.ctx.nontrivial_digest(digest(state_digest(s), list(ix)))
            probs = self.m.check_illegal(s, a, s2, ts2, agent=agent)
            _report(rec, "illegal_effect", probs, f"illegal action {np.asarray(a).tolist()} (mask index {list(ix)}): ")

    def judge_unmasked(self, rec, s, ts, depth):
        """Envs without a mask (Sokoban): the model's `illegal_actions(s)` lists them."""
        acts = self.m.illegal_actions(s)
        items = [((int(a),), None, np.asarray(a, self.b.act_dtype)) for a in acts]
        outs = self.enum.run(s, items)
        for (ix, agent, a), (s2, ts2) in zip(items, outs):
            self.ctx.evals()
            if depth >= 1:
                self.ctx.nontrivial_digest(digest(state_digest(s), list(ix)))
            _report(rec, "illegal_effect", self.m.check_illegal(s, a, s2, ts2, agent=None),
                    f"illegal action {np.asarray(a).tolist()}: ")

    def on_reset(self, rec, s, ts):
        self.judge(rec, s, ts, 0)

    def on_step(self, rec, t, ps, pts, a, s, ts, after_last):
        if not after_last:
            self.judge(rec, s, ts, t + 1)


# ---------------------------------------------------------------------------------------------- C06
class C06Mon(episodes.Monitor):
    def __init__(self, b, ctx, model):
        self.b, self.ctx, self.m = b, ctx, model
        self.all_masked_in = True
        self.completed = False

    def on_reset(self, rec, s, ts):
        if self.m is not None:
            self.ctx.evals()
            _report(rec, "constraints", self.m.constraints(s), "reset state: ")

    def on_step(self, rec, t, ps, pts, a, s, ts, after_last):
        if self.m is None or after_last:
            return
        if not episodes.action_is_masked_in(self.b, self.b.mask(pts), a):
            self.all_masked_in = False
        if not self.all_masked_in:
            return
        self.ctx.evals()
        _report(rec, "constraints", self.m.constraints(s), "")
        if t + 1 >= 2:
            self.ctx.nontrivial_digest(state_digest(s))
        if int(ts.step_type) == episodes.LAST and base.supports(self.m, "complete"):
            self.ctx.count("episodes_ended_legally")
            self.completed = True
            _report(rec, "complete", self.m.complete(s, ts), "final state: ")


FILL_ORDERS = ["first", "crowd", "random", "solve", "last", "crowd_only", "random", "solve"]


def fill_steps(order, rs):
    if order == "solve":
        return [("solve", r) for r in rs]
    if order == "crowd":
        return [("crowd" if i % 3 else "legal", r) for i, r in enumerate(rs)]
    if order == "crowd_only":
        return [("crowd", r) for r in rs]
    if order == "first":
        return [("legal", 0) for _ in rs]
    if order == "last":
        return [("legal", -1) for _ in rs]
    return [("legal", r) for r in rs]


@st.composite
def fill_plans(draw, max_len=80):
    """Mask-following fill orders.  The order drawn here is only the default: the driver re-assigns it round-robin
    by case index (`fill_restyle`), because sampled_from is badly skewed over a few dozen cases."""
    order = draw(st.sampled_from(FILL_ORDERS))
    n = draw(st.integers(2, max_len))
    rs = draw(st.lists(st.integers(0, 2**20), min_size=n, max_size=n))
    return {"style": f"fill_{order}", "rs": rs, "steps": fill_steps(order, rs)}


def fill_restyle(plan, index):
    if "rs" not in plan:
        return plan
    order = FILL_ORDERS[index % len(FILL_ORDERS)]
    return dict(plan, style=f"fill_{order}", steps=fill_steps(order, plan["rs"]))


# ---------------------------------------------------------------------------------------------- C07
class C07Mon(episodes.Monitor):
    def __init__(self, b, ctx, model):
        self.b, self.ctx, self.m = b, ctx, model
        self.prev_d = None

    def on_reset(self, rec, s, ts):
        if self.m is not None:
            self.ctx.evals()
            _report(rec, "invariants", self.m.invariants(None, None, s, ts), "reset state: ")
            self.prev_d = state_digest(s)

    def on_step(self, rec, t, ps, pts, a, s, ts, after_last):
        if self.m is None or after_last or int(ts.step_type) == episodes.LAST:
            return
        self.ctx.evals()
        _report(rec, "invariants", self.m.invariants(ps, a, s, ts), "")
        d = state_digest(s)
        if t + 1 >= 2 and d != self.prev_d:
            self.ctx.nontrivial_digest(d)
        self.prev_d = d


# ---------------------------------------------------------------------------------------------- C09
class C09Mon(episodes.Monitor):
    def __init__(self, b, ctx, model):
        self.b, self.ctx, self.m = b, ctx, model

    def on_step(self, rec, t, ps, pts, a, s, ts, after_last):
        if self.m is None or after_last:
            return
        pred = self.m.predict(ps, a)
        if pred is None:
            self.ctx.count("transitions_not_modelled")
            return
        self.ctx.evals()
        tag = f"action {np.asarray(a).tolist()}: "
        for path, want in (pred.get("state") or {}).items():
            got = base.getpath(s, path)
            if not base.arr_eq(got, want, tol=1e-5):
                rec.fail("transition.state", f"field {path} differs from the rule model",
                         tag + f"{path}: env {base.short(got)} model {base.short(want)}")
        if "reward" in pred and not base.arr_eq(ts.reward, np.asarray(pred["reward"], np.asarray(ts.reward).dtype), tol=1e-5):
            rec.fail("transition.reward", "reward differs from the rule model",
                     tag + f"env {base.short(ts.reward)} model {base.short(pred['reward'])}")
        if "reward_check" in pred:
            msg = pred["reward_check"](ts.reward)
            self.ctx.count("reward_predicates")
            if msg:
                rec.fail("transition.reward", "reward violates the documented minimum meaning of the rule", tag + msg)
        if "last" not in pred and hasattr(self.m, "last_given_next"):
            lg = self.m.last_given_next(ps, a, s)
            if lg is not None:
                pred = dict(pred, last=bool(lg))
        if "last" in pred:
            # 'last' may be a callable of the successor state when termination depends on a stochastic part
            want_last = bool(pred["last"](s) if callable(pred["last"]) else pred["last"])
            if want_last != (int(ts.step_type) == episodes.LAST):
                rec.fail("transition.last", "termination flag differs from the rule model",
                         tag + f"env step_type {int(ts.step_type)} model last={want_last}")
        if "discount" in pred and not base.arr_eq(ts.discount, np.asarray(pred["discount"], np.asarray(ts.discount).dtype), tol=1e-6):
            rec.fail("transition.discount", "discount differs from the rule model",
                     tag + f"env {base.short(ts.discount)} model {base.short(pred['discount'])}")
        _report(rec, "transition.stochastic", self.m.stochastic_ok(ps, a, s), tag)
        if state_digest(ps) != state_digest(s):
            self.ctx.nontrivial_digest(digest(state_digest(ps), np.asarray(a)))


# ---------------------------------------------------------------------------------------------- C12
class C12Mon(episodes.Monitor):
    def __init__(self, b, ctx, model):
        self.b, self.ctx, self.m = b, ctx, model
        self.enum = Enumerator(b, cap=24) if b.layout is not None else None
        self.tick = 0

    def judge(self, rec, s, ts, depth):
        if self.m is None:
            return
        self.ctx.evals()
        _report(rec, "observation", self.m.observe_check(s, ts.observation), "")
        if depth >= 1:
            self.ctx.nontrivial_digest(state_digest(s))
        # fan-out: from every fourth non-terminal state a sample of *all* kinds of actions (masked-in and masked-out,
        # for joint spaces every value of one component) is stepped in one vmapped call and each successor's
        # (state, observation) pair is judged too - terminal observations after illegal moves included
        self.tick += 1
        if self.enum is None or int(ts.step_type) == episodes.LAST or self.tick % 4:
            return
        mask = self.b.mask(ts)
        items = self.enum.all_or_sample(mask, r=self.tick * 7919)
        for (ix, agent, a), (s2, ts2) in zip(items, self.enum.run(s, items)):
            self.ctx.evals()
            self.ctx.count("fanout_pairs")
            _report(rec, "observation.fanout", self.m.observe_check(s2, ts2.observation),
                    f"after action {np.asarray(a).tolist()} from this state: ")

    def on_reset(self, rec, s, ts):
        self.judge(rec, s, ts, 0)

    def on_step(self, rec, t, ps, pts, a, s, ts, after_last):
        if not after_last:
            self.judge(rec, s, ts, t + 1)


# ------------------------------------------------------------------------------- generic prop module
class HistoryProp:
    """Builds work_items / run_item / replay / shrink for a monitor-based model property."""

    def __init__(self, prop, method, mon_cls, n_quick, n_thorough, max_len=60, styles=None,
                 use_model_legality=False, plan_strategy=None, stop_at_last=True, extra_envs=(), deep=True):
        self.prop, self.method, self.mon_cls = prop, method, mon_cls
        self.deep = deep
        self.n_quick, self.n_thorough, self.max_len, self.styles = n_quick, n_thorough, max_len, styles
        self.use_model_legality = use_model_legality
        self.plan_strategy = plan_strategy
        self.stop_at_last = stop_at_last
        self.extra_envs = tuple(extra_envs)

    def env_names(self):
        names = base.envs_supporting(self.method)
        return [n for n in envs.ENV_NAMES if n in names]

    def work_items(self, tier, flt):
        items = histprop.work_items(self.env_names(), tier, flt, self.n_quick, self.n_thorough, cost=HEAVY)
        # rare-episode items (vf/bulk.py): thousands of scripted-policy episodes of a small entry are summarised on the
        # device, grouped by what happened in them, and one episode of each of the rarest groups is replayed under the
        # monitor
        from vf import bulk

        names = set(self.env_names())
        for it in bulk.sweep_items(tier, flt):
            if it["env"] in names:
                items.append(dict(it, kind="rare", take=10 if tier == "quick" else 40,
                                  episodes=min(it["episodes"], 4096), cost=2.0))
        return items

    def make_monitor(self, b, ctx, shared):
        return self.mon_cls(b, ctx, shared)

    def _run_rare(self, item, seed):
        from vf import bulk
        from vf.hyp import st

        ctx = Ctx(self.prop, item)
        with ctx.guard(item["env"], {"env": item["env"], "entry": item["entry"], "stage": "construct"}):
            b = envs.bundle(item["env"], item["entry"])
            model = _model_setup(self.method)(ctx, b)
            chaos = self.plan_strategy is None      # the fill-order properties quantify over mask-respecting play only

            def one(key, salt, pick):
                with ctx.guard(b.name, {"env": b.name, "entry": b.entry, "key": list(key), "actions": [], "stage": "sweep"}):
                    chosen, n_groups = bulk.rare_episodes(b, key, salt, item["episodes"], item["steps"], item["take"], pick,
                                                          item.get("policy", "legal_hash"), chaos)
                ctx.count("rare_batches")
                ctx.count("rare_episodes_screened", item["episodes"])
                ctx.count("rare_groups", n_groups)
                for sig, size, kw, acts in chosen:
                    rec = episodes.Recorder(ctx, b, kw)
                    mon = self.mon_cls(b, ctx, model)
                    with ctx.guard(b.name, rec.case(), size=10**6):
                        try:
                            episodes.run_actions(b, rec, [a.tolist() for a in acts], mon)
                        except Exception:
                            histprop._reraise_with_case(ctx, b.name, rec)
                            continue
                    ctx.count("rare_episodes_replayed")
                    ctx.nontrivial(b.name, b.entry, "rare", sig)
                    if len(ctx.samples) < 3:
                        ctx.sample({"env": b.name, "entry": b.entry, "key": kw, "rare_signature": list(map(str, sig)),
                                    "group_size": size, "of": item["episodes"], "actions": [a.tolist() for a in acts[:12]]})

            hyp.drive({"key": episodes.keys(), "salt": st.integers(0, 2**20), "pick": st.integers(0, 2**16)}, one, seed,
                      item["batches"])
        return ctx.result()

    def run_item(self, item, seed, tier):
        if item.get("kind") == "rare":
            return self._run_rare(item, seed)
        if self.plan_strategy is None:
            return histprop.run_item(
                self.prop, item, seed, self.make_monitor, max_len=self.max_len, styles=self.styles,
                legal_fn_factory=legal_fn_factory if self.use_model_legality else None,
                setup=_model_setup(self.method), stop_at_last=self.stop_at_last, deep=self.deep)
        return self._run_custom(item, seed)

    def _run_custom(self, item, seed):
        ctx = Ctx(self.prop, item)
        with ctx.guard(item["env"], {"env": item["env"], "entry": item["entry"], "stage": "construct"}):
            b = envs.bundle(item["env"], item["entry"])
            model = _model_setup(self.method)(ctx, b)

            counter = {"i": 0}

            def one(key, plan):
                plan = fill_restyle(plan, counter["i"])
                counter["i"] += 1
                rec = episodes.Recorder(ctx, b, key)
                mon = self.mon_cls(b, ctx, model)
                try:
                    summ = episodes.run_plan(b, rec, plan, mon, stop_at_last=self.stop_at_last,
                                             solve_fn=getattr(model, "solve_action", None))
                except Exception:
                    histprop._reraise_with_case(ctx, item["env"], rec)
                    return
                ctx.count("episodes")
                ctx.count(f"style_{plan['style']}")
                ctx.count(f"end_{summ['cause'] or 'none'}")
                if len(ctx.samples) < 3:
                    ctx.sample({"env": b.name, "entry": b.entry, "key": rec.key_words, "style": plan["style"],
                                "actions": [a.tolist() for a in rec.actions[:12]], "end": summ["cause"]})

            hyp.drive({"key": episodes.keys(), "plan": self.plan_strategy}, one, seed, item["n"])
        return ctx.result()

    def replay(self, case):
        if case.get("stage") == "construct":
            ctx = Ctx(self.prop, {})
            with ctx.guard(case["env"], case):
                envs.bundle(case["env"], case["entry"])
            return list(ctx.failures.values())
        return histprop.replay(self.prop, case, self.make_monitor, setup=_model_setup(self.method))

    def shrink(self, fl):
        return episodes.shrink_actions(fl, self.replay)

    def export(self, g):
        g["work_items"] = self.work_items
        g["run_item"] = self.run_item
        g["replay"] = self.replay
        g["shrink"] = self.shrink


# ---------------------------------------------------------------------------------------------- C08
class Ep:
    def __init__(self, s0, ts0):
        self.s0, self.ts0 = s0, ts0
        self.actions, self.states, self.timesteps = [], [], []

    @property
    def rewards(self):
        return np.asarray([np.asarray(t.reward, np.float64) for t in self.timesteps])


def play_to_end(b, key_words, plan=None, actions=None, legal_fn=None, cap=400, solve_fn=None):
    """Play a (cycled) plan with legal actions until LAST or `cap` steps -> (Ep, ended, all_legal)."""
    st_, ts = b.reset(envs.make_key(key_words))
    hs, hts = episodes.host((st_, ts))
    ep = Ep(hs, hts)
    ended, i = False, 0
    while i < cap:
        if actions is not None:
            if i >= len(actions):
                break
            a = b.to_action(actions[i])
        else:
            mode, r = plan["steps"][i % len(plan["steps"])]
            mask = np.asarray(legal_fn(hs, hts)).astype(bool) if legal_fn is not None else None
            rr = r + 7919 * (i // len(plan["steps"]))
            a = episodes.solved_action(b, solve_fn, hs, rr) if mode == "solve" else None
            if a is None:
                a = b.pick_action(st_, ts, mode, rr, mask=mask)
        st_, ts = b.step(st_, a)
        hs, hts = episodes.host((st_, ts))
        ep.actions.append(np.asarray(a))
        ep.states.append(hs)
        ep.timesteps.append(hts)
        i += 1
        if int(hts.step_type) == episodes.LAST:
            ended = True
            break
    return ep, ended


def reward_twins(model):
    """REWARD_TWINS may be declared on the model class or at module level of the model file."""
    import sys

    t = getattr(model, "REWARD_TWINS", None)
    if t is None:
        t = getattr(sys.modules.get(type(model).__module__), "REWARD_TWINS", None)
    return dict(t or {})


def c08_judge(ctx, b, model, ep, case, twin_b=None):
    ret = ep.rewards.sum(axis=0) if len(ep.timesteps) else 0.0
    obj = model.objective(ep)
    ctx.evals()
    if obj is None:
        ctx.count("objective_undefined_for_this_ending")
    else:
        val, tol = obj
        if not np.allclose(np.asarray(ret, np.float64), np.asarray(val, np.float64), rtol=1e-4, atol=tol):
            ctx.fail("return_vs_objective", b.name, "return differs from the documented objective",
                     f"sum of rewards {np.asarray(ret).tolist()} vs objective {np.asarray(val).tolist()} "
                     f"(steps={len(ep.actions)}) [entry={b.entry} key={case['key']}]", case, size=len(ep.actions))
    if twin_b is not None and hasattr(model, "twin_applicable") and not model.twin_applicable(ep):
        # documented as a different signal for this ending: the difference is recorded, not asserted
        ep2, _ = play_to_end(twin_b, case["key"], actions=[a.tolist() for a in ep.actions], cap=len(ep.actions))
        r1 = np.asarray(ret, np.float64)
        r2 = np.asarray(ep2.rewards.sum(axis=0) if len(ep2.timesteps) else 0.0, np.float64)
        ctx.count("twin_not_asserted_episodes")
        if not np.allclose(r1, r2, rtol=1e-4, atol=1e-3):
            ctx.count("twin_not_asserted_and_returns_differ")
    if twin_b is not None and (not hasattr(model, "twin_applicable") or model.twin_applicable(ep)):
        ep2, ended2 = play_to_end(twin_b, case["key"], actions=[a.tolist() for a in ep.actions], cap=len(ep.actions))
        ret2 = ep2.rewards.sum(axis=0) if len(ep2.timesteps) else 0.0
        ctx.evals()
        ctx.count("dense_sparse_pairs")
        tol = 1e-4 * max(1, len(ep.actions))
        if not np.allclose(np.asarray(ret, np.float64), np.asarray(ret2, np.float64), rtol=1e-4, atol=tol):
            ctx.fail("dense_vs_sparse", b.name, "dense and sparse returns differ on the same legal trajectory",
                     f"{b.entry}: {np.asarray(ret).tolist()} vs {twin_b.entry}: {np.asarray(ret2).tolist()} "
                     f"(steps={len(ep.actions)}) [key={case['key']}]", dict(case, twin=twin_b.entry), size=len(ep.actions))


def c08_work_items(tier, flt):
    names = [n for n in envs.ENV_NAMES if n in base.envs_supporting("objective")]
    return histprop.work_items(names, tier, flt, 30, 300, cost=HEAVY)


def c08_run_item(prop, item, seed, tier):
    ctx = Ctx(prop, item)
    env, entry = item["env"], item["entry"]
    with ctx.guard(env, {"env": env, "entry": entry, "stage": "construct"}):
        b = envs.bundle(env, entry)
        model = base.get_model(b)
        twins = reward_twins(model)
        twin_b = envs.bundle(env, twins[entry]) if entry in twins else None
        legal_fn = (lambda s, ts: model.legal(s)) if base.supports(model, "legal") else None
        cap = getattr(model, "EPISODE_CAP", 400)

        counter = {"i": 0}

        def one(key, plan):
            plan = episodes.restyle(plan, counter["i"], None)
            counter["i"] += 1
            case = {"env": env, "entry": entry, "key": list(key), "actions": []}
            with ctx.guard(env, case, size=10**6):
                ep, ended = play_to_end(b, key, plan=plan, legal_fn=legal_fn, cap=cap,
                                        solve_fn=getattr(model, "solve_action", None))
                case["actions"] = [a.tolist() for a in ep.actions]
                ctx.count("episodes")
                if not ended:
                    ctx.count("episodes_not_finished_within_cap")
                    return
                ctx.count(f"finished_{env}")
                if len(ep.actions) >= 3:
                    ctx.nontrivial(env, entry, list(key), plan["style"])
                if len(ctx.samples) < 3:
                    ctx.sample({"env": env, "entry": entry, "key": list(key), "steps": len(ep.actions),
                                "return": np.asarray(ep.rewards.sum(axis=0)).tolist()})
                c08_judge(ctx, b, model, ep, case, twin_b)

        hyp.drive({"key": episodes.keys(),
                   "plan": episodes.plans(max_len=40, styles=("legal", "survive_only", "solve", "legal"), min_len=3)},
                  one, seed, item["n"])
    return ctx.result()


def c08_replay(prop, case):
    ctx = Ctx(prop, {})
    env, entry = case["env"], case["entry"]
    with ctx.guard(env, case):
        b = envs.bundle(env, entry)
        if case.get("stage") == "construct":
            return []
        model = base.get_model(b)
        ep, ended = play_to_end(b, case["key"], actions=case["actions"], cap=len(case["actions"]))
        twins = reward_twins(model)
        twin_b = envs.bundle(env, twins[entry]) if entry in twins else None
        if ended:
            c08_judge(ctx, b, model, ep, case, twin_b)
    return list(ctx.failures.values())


# ---------------------------------------------------------------------------------------------- C10
def instance_digest(s0):
    import jax

    if hasattr(s0, "__dataclass_fields__"):
        parts = [getattr(s0, k) for k in s0.__dataclass_fields__ if k != "key"]
    else:
        parts = [s0]
    return digest([np.asarray(x) for x in jax.tree_util.tree_leaves(parts)])


def c10_configs(env):
    """menu entries + the model module's extra generator configurations."""
    import importlib

    # harness-side boundary-instance generators are not shipped generators: C10 has nothing to say about them
    out = {e: None for e in envs.entries(env) if not envs.meta(env, e).get("harness_gen")}
    try:
        mod = importlib.import_module(f"vf.models.{base._MODULES[env]}")
        out.update(getattr(mod, "EXTRA_INSTANCE_CONFIGS", {}))
    except ModuleNotFoundError:
        pass
    return out


def c10_bundle(env, label):
    cfgs = c10_configs(env)
    if cfgs.get(label) is None:
        return envs.bundle(env, label)
    key = (env, label, "c10")
    if key not in envs._BUNDLES:
        envs._BUNDLES[key] = envs.Bundle(env, label, env=cfgs[label]())
    return envs._BUNDLES[key]


def c10_work_items(tier, flt):
    names = [n for n in envs.ENV_NAMES if n in base.envs_supporting("validate_instance")]
    scale = (flt or {}).get("scale", 1.0)
    items = []
    for env in envs.select_envs(names, flt):
        labels = list(c10_configs(env))
        if tier == "quick":
            extras = [l for l in labels if l not in envs.entries(env)]
            labels = [l for l in envs.quick_entries(env) if l in labels] + extras
        if flt and flt.get("entry"):
            labels = [l for l in labels if l in flt["entry"]]
        try:
            import importlib

            xb = getattr(importlib.import_module(f"vf.models.{base._MODULES[env]}"), "EXTRA_BATCH", {})
        except ModuleNotFoundError:
            xb = {}
        for label in labels:
            # n >= 2: Hypothesis' first example is always the minimal base key (0, 0)
            items.append({"env": env, "entry": label, "batch": (64 if tier == "quick" else 256) * xb.get(label, 1),
                          "n": max(2, int((2 if tier == "quick" else 8) * scale)), "cost": HEAVY.get(env, 1)})
    return items


def c10_validate_batch(ctx, b, model, base_key, batch):
    import jax

    keys = jax.random.split(envs.make_key(base_key), batch)
    if not hasattr(b, "_reset_batch"):
        b._reset_batch = jax.jit(jax.vmap(b.env.reset))
    sb, tsb = episodes.host(b._reset_batch(keys))
    keys_h = np.asarray(keys)
    seen = set()
    for i in range(batch):
        s0 = tslice(sb, i)
        ctx.evals()
        d = instance_digest(s0)
        if d not in seen:
            seen.add(d)
            ctx.nontrivial_digest(d)
        probs = model.validate_instance(s0)
        for sig, msg in probs or []:
            ctx.fail("instance", b.name, sig, f"{msg} [config={b.entry} reset key={keys_h[i].tolist()}]",
                     {"env": b.name, "entry": b.entry, "key": keys_h[i].tolist(), "single": True}, size=0)
    return len(seen)


def _fixed_instance_generator(env) -> bool:
    """Generators documented as fixed instances (Toy / Dummy / SimpleSolve / CSV / Ascii): the key-dependence clause
    of C10 is about *random* generators only, whatever the menu entry is called."""
    g = getattr(env, "generator", None) or getattr(env, "_generator", None)
    name = type(g).__name__ if g is not None else ""
    return any(t in name for t in ("Toy", "Dummy", "SimpleSolve", "CSV", "Ascii"))


def c10_run_item(prop, item, seed, tier):
    ctx = Ctx(prop, item)
    env, label = item["env"], item["entry"]
    with ctx.guard(env, {"env": env, "entry": label, "stage": "construct"}):
        b = c10_bundle(env, label)
        model = base.get_model(b)
        deterministic = label in getattr(model, "DETERMINISTIC_CONFIGS", ()) or _fixed_instance_generator(b.env)

        def one(key):
            case = {"env": env, "entry": label, "key": list(key), "batch": item["batch"]}
            with ctx.guard(env, case):
                distinct = c10_validate_batch(ctx, b, model, key, item["batch"])
                ctx.count("batches")
                if len(ctx.samples) < 2:
                    ctx.sample({"env": env, "config": label, "base_key": list(key), "batch": item["batch"],
                                "distinct_instances": distinct})
                if not deterministic and distinct < 2:
                    ctx.fail("generator.constant", env, "random generator returned the same instance for every key",
                             f"{item['batch']} keys -> {distinct} distinct instance(s) [config={label}]", case)

        hyp.drive({"key": episodes.keys()}, one, seed, item["n"])
        if hasattr(model, "c10_extra"):
            # complete enumerations owned by the model (e.g. the shipped Sudoku databases); may set ctx.exhaustive[...]
            for sig, msg in model.c10_extra(ctx) or []:
                ctx.fail("instance", env, sig, f"{msg} [config={label}]", {"env": env, "entry": label, "extra": True}, size=0)
    return ctx.result()


def c10_replay(prop, case):
    ctx = Ctx(prop, {})
    env, label = case["env"], case["entry"]
    with ctx.guard(env, case):
        b = c10_bundle(env, label)
        if case.get("stage") == "construct":
            return []
        model = base.get_model(b)
        if case.get("extra"):
            for sig, msg in model.c10_extra(ctx) or []:
                ctx.fail("instance", env, sig, msg, case)
        elif case.get("single"):
            import jax.numpy as jnp

            s0, _ = b.reset(jnp.asarray(case["key"], jnp.uint32))
            for sig, msg in model.validate_instance(episodes.host(s0)) or []:
                ctx.fail("instance", env, sig, msg, case)
        else:
            distinct = c10_validate_batch(ctx, b, model, case["key"], case["batch"])
            if label not in getattr(model, "DETERMINISTIC_CONFIGS", ()) and not _fixed_instance_generator(b.env) and distinct < 2:
                ctx.fail("generator.constant", env, "random generator returned the same instance for every key", "", case)
    return list(ctx.failures.values())


# ------------------------------------------------------------------------- bounded exhaustive exploration (BFS)
# Small deterministic environments: every state reachable within `depth` steps of a reset is visited (all actions
# of the action space from every state, one vmapped step per state) and the property's monitor is evaluated on every
# transition.  States are identified up to the PRNG key and the step counter.
BFS_ENVS = {
    "Sokoban": {"quick": [("simplet120", 9), ("toyt120", 7)], "thorough": [("simplet120", 12), ("toyt120", 10), ("randomt120", 8)]},
    "Maze": {"quick": [("toy", 8), ("r5c5t7", 6)], "thorough": [("toy", 14), ("r4c7tNone", 12), ("r5c5t7", 7)]},
    "Cleaner": {"quick": [("r5c5a1tNone", 8)], "thorough": [("r5c5a1tNone", 12), ("r3c7a1t7", 7)]},
}


def _bfs_state_key(s):
    import jax

    parts = []
    if hasattr(s, "__dataclass_fields__"):
        parts = [getattr(s, k) for k in s.__dataclass_fields__ if k not in ("key", "step_count")]
    else:
        parts = [s]
    return digest([np.asarray(x) for x in jax.tree_util.tree_leaves(parts)])


def bfs_work_items(prop, method, tier, flt):
    items = []
    supported = set(base.envs_supporting(method))
    for env, cfg in BFS_ENVS.items():
        if env not in supported or (flt and flt.get("env") and env not in flt["env"]):
            continue
        for entry, depth in cfg[tier]:
            if flt and flt.get("entry") and entry not in flt["entry"]:
                continue
            items.append({"kind": "bfs", "env": env, "entry": entry, "depth": depth, "cost": 3})
    return items


def bfs_run_item(prop, item, seed, mon_cls, method, state_cap=6000):
    ctx = Ctx(prop, item)
    env, entry, depth = item["env"], item["entry"], item["depth"]
    with ctx.guard(env, {"env": env, "entry": entry, "stage": "construct"}):
        b = envs.bundle(env, entry)
        model = base.get_model(b)
        mon = mon_cls(b, ctx, model)
        if hasattr(mon, "every"):
            mon.every = 1
        n_act = b.num_flat_actions()
        all_actions = np.stack([b.action_from_flat(i) for i in range(n_act)], 0)
        for kw in ((seed % 1000, 17), (0, 0)):
            key = envs.make_key(kw)
            s0, ts0 = episodes.host(b.reset(key))
            rec0 = episodes.Recorder(ctx, b, kw)
            mon.on_reset(rec0, s0, ts0)
            seen = {_bfs_state_key(s0)}
            frontier = [(s0, ts0, [])]
            for d in range(depth):
                nxt = []
                for s, ts, path in frontier:
                    s2b, ts2b = episodes.host(b.step_all(s, all_actions))
                    for i in range(n_act):
                        s2, ts2 = tslice(s2b, i), tslice(ts2b, i)
                        rec = episodes.Recorder(ctx, b, kw)
                        rec.actions = [np.asarray(x) for x in path] + [all_actions[i]]
                        k2 = _bfs_state_key(s2)
                        new = k2 not in seen
                        ctx.count("bfs_transitions")
                        if isinstance(mon, C05Mon):
                            if new and int(ts2.step_type) != episodes.LAST:
                                mon.tick = 0
                                mon.judge(rec, s2, ts2, d + 1)
                        else:
                            mon.on_step(rec, d, s, ts, all_actions[i], s2, ts2, False)
                        if new:
                            seen.add(k2)
                            ctx.count("bfs_states")
                            if int(ts2.step_type) != episodes.LAST and len(seen) < state_cap:
                                nxt.append((s2, ts2, path + [all_actions[i]]))
                frontier = nxt
                if not frontier:
                    break
            ctx.exhaustive[f"bfs_{env}_{entry}_depth{depth}_key{kw[0]}_{kw[1]}"] = len(seen) < state_cap
            if len(ctx.samples) < 2:
                ctx.sample({"env": env, "entry": entry, "bfs_depth": depth, "key": list(kw), "states": len(seen)})
    return ctx.result()

"""Runner: tiers, seeds, sharding over worker processes, evidence, replay, known findings.

A property module `vf.props.Cxx` provides
    PROPERTY, RULE, ASSUMPTIONS (list[str]), TECHNIQUE (str, informational)
    work_items(tier, flt) -> list[dict]      JSON-able shards; key 'cost' (relative) optional
    run_item(item, seed, tier) -> dict       built with `Ctx(...).result()`
    replay(case) -> list[dict]               re-evaluates one concrete case without Hypothesis
    shrink(failure) -> failure               optional minimiser of a collected failing case
Exit codes: 0 held / 1 violation(s) not listed as known / 2 harness error or inconclusive.
"""
from __future__ import annotations

import argparse
import contextlib
import importlib
import json
import zlib
import multiprocessing as mp
import os
import sys
import time
import traceback

from vf.common import VERIF_ROOT, digest, jsonable, repo_root, setup_process

MAX_SAMPLES = 4
MAX_DIGESTS_PER_ITEM = 400_000


class Ctx:
    """Collector handed to the property code inside a worker."""

    def __init__(self, prop: str, item: dict):
        self.prop = prop
        self.item = item
        self.evaluations = 0
        self.digests: set = set()
        self.samples: list = []
        self.counters: dict = {}
        self.failures: dict = {}
        self.exhaustive: dict = {}
        self.notes: list = []

    def evals(self, n: int = 1) -> None:
        self.evaluations += int(n)

    def nontrivial(self, *objs) -> None:
        if len(self.digests) < MAX_DIGESTS_PER_ITEM:
            self.digests.add(digest(*objs))

    def nontrivial_digest(self, d: int) -> None:
        if len(self.digests) < MAX_DIGESTS_PER_ITEM:
            self.digests.add(int(d))

    def sample(self, obj) -> None:
        if len(self.samples) < MAX_SAMPLES:
            self.samples.append(jsonable(obj))

    def count(self, name: str, n: int = 1) -> None:
        self.counters[name] = self.counters.get(name, 0) + int(n)

    def fail(self, oracle: str, env: str, sig: str, msg: str, case: dict, size: int = 0) -> None:
        """Record a failing oracle evaluation.  Bucket = (env, oracle, sig); the smallest case
        (by `size`) is kept per bucket, the rest are only counted."""
        key = (env, oracle, sig)
        cur = self.failures.get(key)
        if cur is None:
            self.failures[key] = {
                "env": env, "oracle": oracle, "sig": sig, "msg": str(msg)[:1500],
                "case": jsonable(case, maxlen=100000), "size": int(size), "hits": 1,
            }
        else:
            cur["hits"] += 1
            if size < cur["size"]:
                cur.update(msg=str(msg)[:1500], case=jsonable(case, maxlen=100000), size=int(size))

    @contextlib.contextmanager
    def guard(self, env: str, case: dict, size: int = 0):
        """Exceptions raised from inside the code under test become failures of oracle
        'exception' (every property presupposes that valid calls do not crash); exceptions from
        harness code propagate and end the work item as a harness error (exit 2)."""
        try:
            yield
        except Exception as exc:  # noqa: BLE001
            if classify_exception(exc) != "repo":
                raise
            self.fail("exception", env, exc_sig(exc),
                      "".join(traceback.format_exception(exc))[-1500:], case, size)

    def seen(self, oracle: str, env: str, sig: str) -> bool:
        return (env, oracle, sig) in self.failures

    def result(self) -> dict:
        return {
            "item": self.item, "evaluations": self.evaluations, "digests": list(self.digests),
            "samples": self.samples, "counters": self.counters,
            "failures": list(self.failures.values()), "exhaustive": self.exhaustive,
            "notes": self.notes,
        }


def classify_exception(exc: BaseException) -> str:
    """'repo' if the innermost non-library frame of the traceback lies in the code under test,
    'harness' if it lies in /verif.  Used to tell a crash of jumanji from a bug of ours."""
    tb = traceback.extract_tb(exc.__traceback__)
    repo = os.path.realpath(repo_root())
    for fr in reversed(tb):
        f = os.path.realpath(fr.filename)
        if f.startswith(repo + os.sep):
            return "repo"
        if f.startswith(VERIF_ROOT + os.sep):
            return "harness"
    return "harness"


def exc_sig(exc: BaseException) -> str:
    tb = traceback.extract_tb(exc.__traceback__)
    repo = os.path.realpath(repo_root())
    where = ""
    for fr in reversed(tb):
        f = os.path.realpath(fr.filename)
        if f.startswith(repo + os.sep):
            where = f"{os.path.relpath(f, repo)}:{fr.name}"
            break
    return f"{type(exc).__name__}@{where}"


def _worker(args):
    prop, item, seed, tier = args
    setup_process()
    t0 = time.time()
    try:
        mod = importlib.import_module(f"vf.props.{prop}")
        res = mod.run_item(item, seed, tier)
        res["wall_s"] = time.time() - t0
        return res
    except BaseException as exc:  # noqa: BLE001 - reported as harness error / repo crash
        kind = classify_exception(exc)
        return {
            "item": item, "evaluations": 0, "digests": [], "samples": [], "counters": {},
            "failures": [], "exhaustive": {}, "notes": [], "wall_s": time.time() - t0,
            "error": {"kind": kind, "sig": exc_sig(exc),
                      "trace": "".join(traceback.format_exception(exc))[-4000:]},
        }


def load_known() -> list:
    p = os.path.join(VERIF_ROOT, "known_findings.json")
    if not os.path.exists(p):
        return []
    with open(p) as f:
        return json.load(f)["findings"]


def match_known(known: list, prop: str, fl: dict):
    for k in known:
        if k.get("status") != "known":
            continue
        if k["property"] == prop and k["env"] == fl["env"] and k["oracle"] == fl["oracle"] \
                and k["sig"] == fl["sig"]:
            return k
    return None


def _slug(s: str) -> str:
    return "".join(c if c.isalnum() or c in "-_." else "_" for c in s)[:80]


def write_replay(prop: str, fl: dict) -> str:
    d = os.path.join(VERIF_ROOT, "replays", prop)
    os.makedirs(d, exist_ok=True)
    name = f"{_slug(fl['env'])}-{_slug(fl['oracle'])}-{digest(fl['sig']) % 10**8:08d}.json"
    path = os.path.join(d, name)
    with open(path, "w") as f:
        json.dump({"property": prop, "env": fl["env"], "oracle": fl["oracle"], "sig": fl["sig"],
                   "msg": fl["msg"], "case": fl["case"]}, f, indent=1, default=str)
    return os.path.relpath(path, VERIF_ROOT)


def write_evidence(prop, tier, seed, mod, merged, wall, violations, known_hits, inconclusive):
    cov = {
        "evaluations": merged["evaluations"],
        "distinct_nontrivial": len(merged["digests"]),
        "rule": mod.RULE,
        "samples": merged["samples"][:8] or [{"note": "no case was generated (filter without work items: inconclusive run)"}],
        "counters": dict(sorted(merged["counters"].items())),
        "per_item": merged["per_item"],
        "exhaustive": bool(merged["exhaustive"]) and all(merged["exhaustive"].values())
        and getattr(mod, "ALL_EXHAUSTIVE", False),
        "exhaustive_subchecks": merged["exhaustive"],
        "known_finding_hits": known_hits,
        "violation_buckets": violations,
        "harness_errors": merged["errors"],
        "notes": merged["notes"][:20],
        "technique": getattr(mod, "TECHNIQUE", ""),
    }
    ev = {
        "property_id": prop, "tier": tier, "seed": seed, "level": "exploration",
        "coverage": cov, "assumptions": list(getattr(mod, "ASSUMPTIONS", [])),
        "wall_s": round(wall, 2), "violations": len(violations),
    }
    if inconclusive:
        ev["coverage"]["inconclusive"] = inconclusive
    d = os.path.join(VERIF_ROOT, "evidence")
    os.makedirs(d, exist_ok=True)
    with open(os.path.join(d, f"{prop}.json"), "w") as f:
        json.dump(ev, f, indent=1, default=str)


def run_regressions(prop, mod):
    """Replay the committed regression cases (examples of known / fixed findings)."""
    out = []
    for k in load_known_all():
        if k["property"] != prop or "example" not in k or not hasattr(mod, "replay"):
            continue
        try:
            fls = mod.replay(k["example"])
        except BaseException as exc:  # noqa: BLE001
            fls = [{"env": k["env"], "oracle": "exception", "sig": exc_sig(exc),
                    "msg": "".join(traceback.format_exception(exc))[-1500:], "case": k["example"]}]
        out.append((k, fls))
    return out


def load_known_all() -> list:
    return load_known()


def main(argv=None) -> int:
    ap = argparse.ArgumentParser(prog="check")
    ap.add_argument("prop")
    ap.add_argument("--tier", default=os.environ.get("VERIF_TIER", "quick"),
                    choices=["quick", "thorough"])
    ap.add_argument("--replay")
    ap.add_argument("--env", action="append", help="restrict to these environments / groups")
    ap.add_argument("--entry", action="append")
    ap.add_argument("--workers", type=int, default=int(os.environ.get("VF_WORKERS", "16")))
    ap.add_argument("--scale", type=float, default=float(os.environ.get("VF_SCALE", "1")),
                    help="multiplies case counts (debugging / deeper campaigns)")
    ap.add_argument("--no-regress", action="store_true")
    a = ap.parse_args(argv)
    setup_process()
    prop = a.prop
    try:
        seed = int(os.environ.get("VERIF_SEED", "1") or "1")
    except ValueError:
        seed = 1
    t0 = time.time()
    try:
        mod = importlib.import_module(f"vf.props.{prop}")
    except Exception:
        traceback.print_exc()
        print(f"HARNESS-ERROR property={prop} cannot import property module")
        return 2

    if a.replay:
        with open(a.replay) as f:
            rec = json.load(f)
        case = rec.get("case", rec)
        try:
            fls = mod.replay(case)
        except BaseException as exc:  # noqa: BLE001
            if classify_exception(exc) == "repo":
                fls = [{"env": rec.get("env", "?"), "oracle": "exception", "sig": exc_sig(exc),
                        "msg": "".join(traceback.format_exception(exc))[-1500:]}]
            else:
                traceback.print_exc()
                return 2
        for fl in fls:
            print(f"  FAIL env={fl['env']} oracle={fl['oracle']} sig={fl['sig']}\n    {fl['msg']}")
        if fls:
            print(f"VIOLATION property={prop} replay={a.replay}")
            return 1
        print(f"replay of {a.replay}: property held")
        return 0

    flt = {"env": a.env, "entry": a.entry, "scale": a.scale}
    items = mod.work_items(a.tier, flt)
    items = sorted(items, key=lambda it: -float(it.get("cost", 1.0)))
    nw = max(1, min(a.workers, len(items)))
    # the per-item Hypothesis seed depends on VERIF_SEED and on the item's identity (not on its position in the work
    # list), so that a filtered run (--env / --entry) replays exactly the campaign the full run gives that item
    def _item_seed(it):
        ident = json.dumps({k: v for k, v in it.items() if k not in ("n", "cost")}, sort_keys=True, default=str)
        return seed * 100003 + zlib.crc32(ident.encode()) % 99991

    jobs = [(prop, it, _item_seed(it), a.tier) for it in items]
    results = []
    if nw == 1 or os.environ.get("VF_INPROC") == "1":
        for j in jobs:
            results.append(_worker(j))
    else:
        # watchdog: a work item that makes no progress for this long (e.g. a generator whose while_loop never
        # terminates under a defect) ends the run as inconclusive (exit 2) instead of hanging forever
        stall = float(os.environ.get("VF_STALL_S", "1500" if a.tier == "quick" else "5400"))
        ctx = mp.get_context("spawn")
        pool = ctx.Pool(nw, maxtasksperchild=getattr(mod, "MAX_TASKS_PER_CHILD", None))
        try:
            it = pool.imap_unordered(_worker, jobs, chunksize=1)
            for _ in range(len(jobs)):
                try:
                    results.append(it.next(timeout=stall))
                except mp.TimeoutError:
                    done = {json.dumps(r["item"], sort_keys=True, default=str) for r in results}
                    for j in jobs:
                        if json.dumps(j[1], sort_keys=True, default=str) not in done:
                            results.append({"item": j[1], "evaluations": 0, "digests": [], "samples": [], "counters": {},
                                            "failures": [], "exhaustive": {}, "notes": [], "wall_s": stall,
                                            "error": {"kind": "harness", "sig": "timeout",
                                                      "trace": f"no result within {stall:.0f} s (stalled or unfinished work item)"}})
                    break
        finally:
            pool.terminate()
            pool.join()
    results.sort(key=lambda r: json.dumps(r["item"], sort_keys=True, default=str))

    merged = {"evaluations": 0, "digests": set(), "samples": [], "counters": {}, "per_item": [],
              "exhaustive": {}, "errors": [], "notes": []}
    buckets: dict = {}
    for r in results:
        merged["evaluations"] += r["evaluations"]
        merged["digests"].update(r["digests"])
        for s in r["samples"][:2]:
            if len(merged["samples"]) < 12:
                merged["samples"].append(s)
        for k, v in r["counters"].items():
            merged["counters"][k] = merged["counters"].get(k, 0) + v
        merged["exhaustive"].update(r.get("exhaustive", {}))
        merged["notes"].extend(r.get("notes", []))
        merged["per_item"].append({
            "item": {k: v for k, v in r["item"].items() if k != "cost"},
            "evaluations": r["evaluations"], "distinct_nontrivial": len(r["digests"]),
            "wall_s": round(r.get("wall_s", 0.0), 1)})
        if "error" in r:
            e = r["error"]
            if e["kind"] == "repo":
                fl = {"env": str(r["item"].get("env", "?")), "oracle": "exception",
                      "sig": e["sig"], "msg": e["trace"][-1500:],
                      "case": {"item": r["item"]}, "size": 0, "hits": 1}
                buckets.setdefault((fl["env"], fl["oracle"], fl["sig"]), fl)
            else:
                merged["errors"].append({"item": r["item"], "trace": e["trace"]})
        for fl in r["failures"]:
            key = (fl["env"], fl["oracle"], fl["sig"])
            cur = buckets.get(key)
            if cur is None:
                buckets[key] = dict(fl)
            else:
                cur["hits"] += fl["hits"]
                if fl["size"] < cur["size"]:
                    hits = cur["hits"]
                    cur.update(fl)
                    cur["hits"] = hits

    known = load_known()
    known_hits, violations, lines = [], [], []
    # regression replays of committed examples
    if not a.no_regress and not a.env and not a.entry:
        for k, fls in run_regressions(prop, mod):
            merged["counters"]["regression_cases_replayed"] = \
                merged["counters"].get("regression_cases_replayed", 0) + 1
            if k["status"] == "fixed":
                for fl in fls:
                    fl = dict(fl)
                    fl.setdefault("case", k["example"])
                    fl.setdefault("size", 0)
                    fl.setdefault("hits", 1)
                    buckets.setdefault((fl["env"], fl["oracle"], fl["sig"]), fl)
            elif k["status"] == "known":
                if any(fl["oracle"] == k["oracle"] and fl["sig"] == k["sig"] for fl in fls):
                    fl = next(fl for fl in fls if fl["oracle"] == k["oracle"] and fl["sig"] == k["sig"])
                    fl = dict(fl)
                    fl.setdefault("case", k["example"])
                    fl.setdefault("size", 0)
                    fl.setdefault("hits", 1)
                    buckets.setdefault((fl["env"], fl["oracle"], fl["sig"]), fl)
                for fl in fls:
                    if not (fl["oracle"] == k["oracle"] and fl["sig"] == k["sig"]):
                        fl = dict(fl)
                        fl.setdefault("case", k["example"])
                        fl.setdefault("size", 0)
                        fl.setdefault("hits", 1)
                        buckets.setdefault((fl["env"], fl["oracle"], fl["sig"]), fl)

    for key in sorted(buckets):
        fl = buckets[key]
        k = match_known(known, prop, fl)
        if k is not None:
            known_hits.append({"env": fl["env"], "oracle": fl["oracle"], "sig": fl["sig"],
                               "hits": fl["hits"]})
            lines.append(f"KNOWN-FINDING: property={prop} env={fl['env']} oracle={fl['oracle']} "
                         f"sig={fl['sig']} hits={fl['hits']} :: {k.get('what', '')}")
            continue
        if hasattr(mod, "shrink"):
            try:
                fl = mod.shrink(fl)
            except BaseException:  # noqa: BLE001 - keep the unshrunk case
                traceback.print_exc()
        path = write_replay(prop, fl)
        violations.append({"env": fl["env"], "oracle": fl["oracle"], "sig": fl["sig"],
                           "hits": fl["hits"], "msg": fl["msg"][:600], "replay": path})
        lines.append(f"  FAIL env={fl['env']} oracle={fl['oracle']} sig={fl['sig']} "
                     f"hits={fl['hits']}\n    {fl['msg'][:600]}")
        lines.append(f"VIOLATION property={prop} replay={path}")

    wall = time.time() - t0
    inconclusive = None
    if merged["errors"]:
        inconclusive = f"{len(merged['errors'])} work item(s) failed with a harness error"
    write_evidence(prop, a.tier, seed, mod, merged, wall, violations, known_hits, inconclusive)
    for ln in lines:
        print(ln)
    print(f"[{prop}] tier={a.tier} seed={seed} items={len(items)} evaluations={merged['evaluations']} "
          f"distinct_nontrivial={len(merged['digests'])} violations={len(violations)} "
          f"known={len(known_hits)} harness_errors={len(merged['errors'])} wall={wall:.1f}s")
    if violations:
        return 1
    if merged["errors"]:
        for e in merged["errors"][:3]:
            print("HARNESS-ERROR", json.dumps(e["item"], default=str))
            print(e["trace"])
        return 2
    if merged["evaluations"] == 0 or len(merged["digests"]) < 2:
        print("HARNESS-ERROR no non-trivial case was generated")
        return 2
    return 0


if __name__ == "__main__":
    sys.exit(main())

"""A second module exporting a class with the *same name* as vf.dummy.Recorder (C18): an entry point is
`module:Class`, so `make` must resolve the module as well as the class name."""
from __future__ import annotations


class Recorder:
    def __init__(self, *args, **kwargs):
        self.args = args
        self.kwargs = kwargs

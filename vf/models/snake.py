"""Snake reference model (from docs/environments/snake.md and the class docstring).

Rules: actions 0..3 = up, right, down, left.  The head moves one cell; the move is illegal if it
leaves the grid or lands on a body cell other than the tail cell that is vacated by this very move.
Eating the fruit grows the snake by one (the tail then stays) and a new fruit appears on a free
cell; reward 1 per fruit.  Episode ends on an illegal move, when the snake fills the grid or at the
time limit.
"""
from __future__ import annotations

import numpy as np

from vf.models.base import Model

MOVES = [(-1, 0), (0, 1), (1, 0), (0, -1)]


class M(Model):
    ENV = "Snake"

    def __init__(self, b):
        super().__init__(b)
        self.R, self.C, self.T = b.env.num_rows, b.env.num_cols, b.env.time_limit

    # helpers
    def _head(self, s):
        return int(s.head_position.row), int(s.head_position.col)

    def _target(self, s, a):
        r, c = self._head(s)
        dr, dc = MOVES[int(a)]
        return r + dr, c + dc

    def _is_legal(self, s, a):
        r, c = self._target(s, a)
        if not (0 <= r < self.R and 0 <= c < self.C):
            return False
        bs = np.asarray(s.body_state)
        return bs[r, c] <= 1  # empty, or the tail cell that moves away

    def legal(self, s):
        return np.array([self._is_legal(s, a) for a in range(4)])

    # ---- constructive moves for the 'solve' plan mode: follow a Hamiltonian cycle of the board (exists when a
    # side is even); the snake then never dies and eventually fills the board (the documented winning end)
    def solve_action(self, s, r=0):
        R, C = self.R, self.C
        hr, hc = self._head(s)
        if R % 2 == 0:
            rr, cc, RR, CC, tr = hr, hc, R, C, False
        elif C % 2 == 0:
            rr, cc, RR, CC, tr = hc, hr, C, R, True      # transpose: walk the cycle of the transposed board
        else:
            return None
        if CC == 1:
            return None
        if cc == 0:
            mv = (0, 1) if rr == 0 else (-1, 0)
        elif rr % 2 == 0:
            mv = (0, 1) if cc < CC - 1 else (1, 0)
        elif rr == RR - 1:
            mv = (0, -1)
        else:
            mv = (0, -1) if cc > 1 else (1, 0)
        if tr:
            mv = (mv[1], mv[0])
        a = MOVES.index(mv)
        return a if self._is_legal(s, a) else None

    def reacted_invalid(self, s, a, s2, ts2, agent=None):
        if int(ts2.step_type) != 2:
            return False
        if int(s2.step_count) >= self.T or np.asarray(s2.body).all():
            return None  # the step may be LAST for another documented reason
        return True

    def check_illegal(self, s, a, s2, ts2, agent=None):
        out = []
        if int(ts2.step_type) != 2:
            out.append(("illegal move does not end the episode", f"step_type={int(ts2.step_type)}"))
        if float(ts2.reward) != 0.0:
            out.append(("illegal move rewarded", f"reward={float(ts2.reward)}"))
        return out

    def invariants(self, prev, a, s, ts):
        out = []
        bs = np.asarray(s.body_state)
        body, tail = np.asarray(s.body), np.asarray(s.tail)
        L = int(s.length)
        hr, hc = self._head(s)
        if not (0 <= hr < self.R and 0 <= hc < self.C):
            return [("head outside the grid", f"head=({hr},{hc})")]
        if not np.array_equal(body, bs > 0):
            out.append(("body != (body_state > 0)", ""))
        if not np.array_equal(tail, bs == 1):
            out.append(("tail != (body_state == 1)", ""))
        vals = np.sort(bs[bs > 0])
        if not np.array_equal(vals, np.arange(1, L + 1)):
            out.append(("body_state is not a numbering 1..length", f"length={L} values={vals.tolist()[:12]}"))
            return out
        if bs[hr, hc] != L:
            out.append(("head is not the cell numbered length", f"body_state[head]={bs[hr, hc]} length={L}"))
        pos = {int(bs[r, c]): (r, c) for r, c in np.argwhere(bs > 0)}
        for k in range(1, L):
            (r1, c1), (r2, c2) = pos[k], pos[k + 1]
            if abs(r1 - r2) + abs(c1 - c2) != 1:
                out.append(("body is not a chain of adjacent cells", f"cells {k}->{k+1}: {pos[k]} {pos[k+1]}"))
                break
        fr, fc = int(s.fruit_position.row), int(s.fruit_position.col)
        if not (0 <= fr < self.R and 0 <= fc < self.C):
            out.append(("fruit outside the grid", f"fruit=({fr},{fc})"))
        elif body[fr, fc] and not body.all():
            out.append(("fruit on the snake", f"fruit=({fr},{fc})"))
        # (step_count is a transition rule - C09/C11 -, not physical consistency: not asserted under C07)
        return out

    def objective(self, ep):
        # fruits eaten = growth of the snake (the initial length is not documented, so it is read from the
        # reset state rather than assumed to be 1)
        return float(int(ep.states[-1].length) - int(ep.s0.length)), 1e-6

    def predict(self, s, a):
        if not self._is_legal(s, a):
            return {"last": True, "reward": 0.0}
        r, c = self._target(s, a)
        bs = np.asarray(s.body_state).copy()
        eaten = (r, c) == (int(s.fruit_position.row), int(s.fruit_position.col))
        L = int(s.length) + int(eaten)
        if not eaten:
            bs = np.clip(bs - 1, 0, None)
        bs[r, c] = L
        st = {"body_state": bs, "body": bs > 0, "tail": bs == 1, "length": L,
              "head_position.row": r, "head_position.col": c, "step_count": int(s.step_count) + 1}
        if not eaten:
            st["fruit_position.row"] = int(s.fruit_position.row)
            st["fruit_position.col"] = int(s.fruit_position.col)
        out = {"state": st, "reward": 1.0 if eaten else 0.0}
        if bool((bs > 0).all()) or int(s.step_count) + 1 >= self.T:
            out["last"] = True
        else:
            # "episode termination: if no action can be performed, i.e. the snake is surrounded": when the head
            # has no legal move left although the grid is not full, the docs allow LAST now and the code ends the
            # episode on the (necessarily invalid) next move - the flag is not predicted for such a state
            free = any(0 <= r + dr < self.R and 0 <= c + dc < self.C and bs[r + dr, c + dc] <= 1 for dr, dc in MOVES)
            if free:
                out["last"] = False
        return out

    def stochastic_ok(self, s, a, s2):
        if not self._is_legal(s, a):
            return []
        r, c = self._target(s, a)
        if (r, c) != (int(s.fruit_position.row), int(s.fruit_position.col)):
            return []
        body2 = np.asarray(s2.body)
        fr, fc = int(s2.fruit_position.row), int(s2.fruit_position.col)
        if body2.all():
            return []
        if not (0 <= fr < self.R and 0 <= fc < self.C) or body2[fr, fc]:
            return [("new fruit not on a free cell", f"fruit=({fr},{fc})")]
        return []

    def validate_instance(self, s0):
        # entities on distinct free cells, body numbering consistent (the initial length and step_count are not
        # advertised instance invariants: not asserted under C10)
        return self.invariants(None, None, s0, None)

    def observe_check(self, s, obs):
        out = []
        bs = np.asarray(s.body_state).astype(np.float64)
        g = np.asarray(obs.grid).astype(np.float64)
        if g.shape != (self.R, self.C, 5):
            return [("grid shape", str(g.shape))]
        head = np.zeros((self.R, self.C))
        hr, hc = self._head(s)
        if not (0 <= hr < self.R and 0 <= hc < self.C):
            return out  # terminal state after leaving the grid: the planes are not defined by the docs
        head[hr, hc] = 1
        fruit = np.zeros((self.R, self.C))
        fr, fc = int(s.fruit_position.row), int(s.fruit_position.col)
        if 0 <= fr < self.R and 0 <= fc < self.C:
            fruit[fr, fc] = 1
        want = [bs > 0, head, bs == 1, fruit, bs / max(1.0, bs.max())]
        full = bool((bs > 0).all())   # no free cell left: where "the fruit" is, is not defined any more
        for i, (name, w) in enumerate(zip(["body", "head", "tail", "fruit", "norm_body_state"], want)):
            if name == "fruit" and full:
                continue
            if not np.allclose(g[..., i], np.asarray(w, np.float64), atol=1e-6):
                out.append((f"grid plane {name} differs from the state", ""))
        if int(obs.step_count) != int(s.step_count):
            out.append(("step_count differs from the state", f"{int(obs.step_count)} vs {int(s.step_count)}"))
        if not np.array_equal(np.asarray(obs.action_mask), np.asarray(s.action_mask)):
            out.append(("action_mask differs from the state", ""))
        return out

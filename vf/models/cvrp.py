"""CVRP reference model (from docs/environments/cvrp.md and the CVRP / reward / generator docstrings).

Rules: node 0 is the depot, nodes 1..N are customers with integer demands in 1..max_demand; one vehicle
of capacity `max_capacity` starts at the depot.  An action is the next node to visit.  A customer is
legal iff it has not been visited and its demand fits into the remaining capacity; the depot is legal
iff the vehicle is not currently at the depot; visiting the depot refills the vehicle.  `trajectory`
(length 2N, padded with the depot index) lists the visited nodes starting with the initial depot,
`num_total_visits` counts its filled entries.  The episode ends when no action can be performed (all
customers served and the vehicle back at the depot) or on an invalid action: then the step is LAST, the
reward is -2*N*sqrt(2) and (C05) the problem state is untouched.
Reward: dense = minus the distance driven in the step (+ the way back to the depot when the tour is
finished); sparse = 0 until the end, then minus the whole route length.  Both sum to minus the total
route length including the final return to the depot.

The model recomputes the visited set and the remaining capacity from `trajectory[:num_total_visits]`
and `demands` (int64/float64); the env's `visited_mask` / `capacity` fields are only compared with it.
The worst-case route depot,c1,depot,...,cN,depot has 2N+1 entries, one more than `trajectory` holds;
the dropped last entry is then the current `position` (always the depot), which the model appends.
"""
from __future__ import annotations

import numpy as np

from vf.models.base import Model, short

REWARD_TWINS = {"n5s": "n5d", "n5d": "n5s", "n20d": "n20s", "n20s": "n20d", "zb6d": "zb6s", "zb6s": "zb6d"}
DEPOT = 0


def _make(n, cap, dm, dense=True):
    def f():
        from jumanji.environments import CVRP
        from jumanji.environments.routing.cvrp.generator import UniformGenerator
        from jumanji.environments.routing.cvrp.reward import DenseReward, SparseReward

        return CVRP(generator=UniformGenerator(num_nodes=n, max_capacity=cap, max_demand=dm),
                    reward_fn=DenseReward() if dense else SparseReward())
    return f


# corners the constructor accepts (max_capacity >= max_demand): capacity == max_demand, one customer, many nodes
EXTRA_INSTANCE_CONFIGS = {"x_n4c3m3": _make(4, 3, 3), "x_n1c2m2": _make(1, 2, 2), "x_n50c40m9s": _make(50, 40, 9, False)}


class M(Model):
    ENV = "CVRP"
    DETERMINISTIC_CONFIGS = ()
    REWARD_TWINS = REWARD_TWINS  # the C08 driver reads it from the model instance

    def __init__(self, b):
        super().__init__(b)
        e = b.env
        self.N = int(e.num_nodes)
        self.C = int(e.max_capacity)
        self.D = int(e.max_demand)
        self.dense = type(e.reward_fn).__name__.lower().startswith("dense")
        self.penalty = -2.0 * self.N * np.sqrt(2.0)

    # ------------------------------------------------------------------ helpers
    def _hist(self, s):
        L = 2 * self.N
        k = int(s.num_total_visits)
        traj = np.asarray(s.trajectory).astype(np.int64).reshape(-1)
        h = [int(x) for x in traj[:int(np.clip(k, 0, min(L, traj.size)))]]
        if k == L + 1:
            h.append(int(s.position))  # entry that did not fit into the trajectory array
        return h

    def _demands(self, s):
        return np.asarray(s.demands).astype(np.int64).reshape(-1)

    def _visited_customers(self, h):
        v = np.zeros(self.N + 1, bool)
        for c in h:
            if 1 <= c <= self.N:
                v[c] = True
        return v

    def _load(self, s, h):
        """demand collected since the last depot visit of the route h"""
        d = self._demands(s)
        load = 0
        for c in h:
            if c == DEPOT:
                load = 0
            elif 1 <= c <= self.N:
                load += int(d[c])
        return load

    def _legal_from(self, s, h, pos):
        d = self._demands(s)
        rem = self.C - self._load(s, h)
        leg = ~self._visited_customers(h) & (d <= rem)
        leg[DEPOT] = pos != DEPOT
        return leg

    def _xy(self, s):
        return np.asarray(s.coordinates, np.float64)

    def _route_length(self, xy, h):
        """length of the route h closed by the return to the depot"""
        if not h:
            return 0.0
        p = xy[np.clip(np.asarray(list(h) + [DEPOT], np.int64), 0, self.N)]
        return float(np.linalg.norm(p[1:] - p[:-1], axis=1).sum())

    def _is_penalty(self, r):
        return abs(float(r) - self.penalty) <= 1e-5 * max(1.0, abs(self.penalty))

    # ------------------------------------------------------------------ plan bias ('solve' mode of the drivers)
    def solve_action(self, s, r=0):
        """Constructive tours that always end with the final return to the depot.  The variant is a function of the
        instance (so a whole episode follows one of them): 0 = shuttle, back to the depot after every customer (the
        longest possible legal episode, 2N steps: the trajectory array fills up completely); 1 = nearest fitting
        customer, depot only when nothing fits; 2 = largest fitting demand first.  r picks among the two best."""
        h, pos = self._hist(s), int(s.position)
        leg = self._legal_from(s, h, pos)
        cust = np.flatnonzero(leg[1:]) + 1
        variant = int(self._demands(s).sum()) % 3
        if cust.size == 0 or (variant == 0 and pos != DEPOT and leg[DEPOT]):
            return np.asarray(DEPOT, np.int32) if leg[DEPOT] else None
        xy = self._xy(s)
        if variant == 2:
            order = cust[np.argsort(-self._demands(s)[cust], kind="stable")]
        else:
            order = cust[np.argsort(np.linalg.norm(xy[cust] - xy[np.clip(pos, 0, self.N)], axis=1), kind="stable")]
        return np.asarray(order[int(r) % min(2, order.size)], np.int32)

    # ------------------------------------------------------------------ C04 / C05
    def legal(self, s):
        return self._legal_from(s, self._hist(s), int(s.position))

    def reacted_invalid(self, s, a, s2, ts2, agent=None):
        # documented reaction: LAST with the penalty reward (the legal final return to the depot is
        # LAST too, but its reward is minus a route/edge length > -2N*sqrt(2))
        return bool(int(ts2.step_type) == 2 and self._is_penalty(ts2.reward))

    PROBLEM_FIELDS = ("coordinates", "demands", "position", "capacity", "visited_mask", "trajectory",
                      "num_total_visits")

    def check_illegal(self, s, a, s2, ts2, agent=None):
        out = []
        if int(ts2.step_type) != 2:
            out.append(("illegal move does not end the episode", f"step_type={int(ts2.step_type)}"))
        if not self._is_penalty(ts2.reward):
            out.append(("illegal move reward is not -2*num_nodes*sqrt(2)",
                        f"reward={float(ts2.reward)!r} documented={self.penalty!r}"))
        for f in self.PROBLEM_FIELDS:
            x, y = np.asarray(getattr(s, f)), np.asarray(getattr(s2, f))
            if x.shape != y.shape or not np.array_equal(x, y):  # "untouched" = same values (dtype is C01's business)
                out.append((f"illegal move changed state field {f}", f"{short(x)} -> {short(y)}"))
        return out

    # ------------------------------------------------------------------ C06
    def constraints(self, s):
        out = []
        N, L = self.N, 2 * self.N
        traj = np.asarray(s.trajectory).astype(np.int64).reshape(-1)
        vm = np.asarray(s.visited_mask).astype(bool).reshape(-1)
        d = self._demands(s)
        k = int(s.num_total_visits)
        if traj.shape != (L,) or vm.shape != (N + 1,) or d.shape != (N + 1,):
            return [("trajectory / visited_mask / demands shape", f"{traj.shape} {vm.shape} {d.shape}")]
        if not 0 <= k <= L + 1:
            return [("num_total_visits outside 0..2*num_nodes+1", f"num_total_visits={k}")]
        h = self._hist(s)
        if any(c < 0 or c > N for c in h):
            return [("trajectory holds an index outside 0..num_nodes", f"route={h}")]
        # (whether the stored route lists the initial depot is a representation detail, not a hard constraint)
        cust = [c for c in h if c != DEPOT]
        if len(set(cust)) != len(cust):
            out.append(("a customer occurs twice in the trajectory", f"route={h}"))
        load, worst = 0, 0
        for c in h:
            load = 0 if c == DEPOT else load + int(d[c])
            worst = max(worst, load)
        if worst > self.C:
            out.append(("demand served between two depot visits exceeds the vehicle capacity",
                        f"route={h} demands={d.tolist()} load={worst} capacity={self.C}"))
        if int(s.capacity) != self.C - load:
            out.append(("capacity field differs from the recomputed remaining capacity",
                        f"capacity={int(s.capacity)} recomputed={self.C - load} route={h} demands={d.tolist()}"))
        if int(s.capacity) < 0:
            out.append(("negative remaining capacity", f"capacity={int(s.capacity)}"))
        want = self._visited_customers(h)
        if not np.array_equal(want[1:], vm[1:]):
            out.append(("visited_mask disagrees with the customers in the trajectory",
                        f"route={h} visited={np.flatnonzero(vm).tolist()}"))
        # (the padding of the unfilled trajectory entries is not a hard constraint of the problem: not asserted)
        return out

    def complete(self, s, ts):
        # all-legal CVRP episodes can only end by completion
        h = self._hist(s)
        cust = sorted(c for c in h if c != DEPOT)
        if cust != list(range(1, self.N + 1)):
            return [("episode ended legally but not every customer was visited exactly once",
                     f"route={h} visited_mask={np.asarray(s.visited_mask).astype(int).tolist()}")]
        return []

    # ------------------------------------------------------------------ C08
    def objective(self, ep):
        s = ep.states[-1]
        h = self._hist(s)
        # completed = every customer served and the vehicle back at the depot (then no action is possible, so
        # the last step was the legal return); anything else ended by an invalid move: no documented objective
        if sorted(c for c in h if c != DEPOT) != list(range(1, self.N + 1)) or h[-1] != DEPOT:
            return None
        return -self._route_length(self._xy(s), h), 1e-5 * 2 * self.N

    def twin_applicable(self, ep):
        # "same return on the same trajectory of legal actions": plans may contain raw (possibly invalid)
        # actions; an episode cut short by an invalid move is not an all-legal trajectory
        return self.objective(ep) is not None

    # ------------------------------------------------------------------ C09
    def predict(self, s, a):
        a = int(a)
        N, L = self.N, 2 * self.N
        h = self._hist(s)
        pos = int(s.position)
        leg = self._legal_from(s, h, pos)
        if not (0 <= a <= N) or not leg[a]:
            unchanged = {f: np.asarray(getattr(s, f)) for f in self.PROBLEM_FIELDS}
            return {"state": unchanged, "reward": self.penalty, "last": True}
        d = self._demands(s)
        k = int(s.num_total_visits)
        traj = np.asarray(s.trajectory).copy()
        if 0 <= k < L:
            traj[k] = a
        h2 = h + [a]
        cap = self.C if a == DEPOT else self.C - self._load(s, h) - int(d[a])
        # the episode ends when no action can be performed in the successor state
        last = not self._legal_from(s, h2, a).any()
        xy = self._xy(s)
        if self.dense:
            r = -float(np.linalg.norm(xy[int(np.clip(pos, 0, N))] - xy[a]))
            if last:
                r -= float(np.linalg.norm(xy[a] - xy[DEPOT]))
        else:
            r = -self._route_length(xy, h2) if last else 0.0
        st = {"coordinates": np.asarray(s.coordinates), "demands": np.asarray(s.demands), "position": a,
              "capacity": cap, "trajectory": traj, "num_total_visits": k + 1}
        return {"state": st, "reward": r, "last": last}

    def stochastic_ok(self, s, a, s2):
        # (not stochastic) customers' visited flags after a legal move; the depot flag is an
        # implementation detail of "the depot may be re-entered" and is not asserted
        a = int(a)
        h = self._hist(s)
        if not (0 <= a <= self.N) or not self._legal_from(s, h, int(s.position))[a]:
            return []
        want = self._visited_customers(h + [a])
        got = np.asarray(s2.visited_mask).astype(bool).reshape(-1)
        if got.shape != want.shape or not np.array_equal(got[1:], want[1:]):
            return [("field visited_mask (customers) differs from the rule model",
                     f"env {got.astype(int).tolist()} model {want.astype(int).tolist()}")]
        return []

    # ------------------------------------------------------------------ C10
    def validate_instance(self, s0):
        out = []
        N = self.N
        xy = np.asarray(s0.coordinates)
        if xy.shape != (N + 1, 2):
            return [("coordinates shape", str(xy.shape))]
        xy = np.asarray(xy, np.float64)  # (dtype conformance is C01's business)
        if not np.isfinite(xy).all():
            out.append(("coordinates not finite", short(xy)))
        elif (xy < 0).any() or (xy > 1).any():
            out.append(("coordinates outside the unit square", f"min={xy.min()} max={xy.max()}"))
        d = np.asarray(s0.demands)
        if d.shape != (N + 1,):  # (dtype conformance is C01's business)
            return out + [("demands shape", f"{d.shape}")]
        if int(d[DEPOT]) != 0:
            out.append(("depot demand is not 0", str(int(d[DEPOT]))))
        c = np.asarray(d[1:], np.float64)
        if (c != np.round(c)).any() or (c < 1).any() or (c > self.D).any():
            out.append(("customer demand outside 1..max_demand", f"demands={c.tolist()} max_demand={self.D}"))
        if (c > self.C).any():
            out.append(("customer demand exceeds the vehicle capacity", f"demands={c.tolist()} capacity={self.C}"))
        if int(s0.position) != DEPOT:
            out.append(("vehicle does not start at the depot", str(int(s0.position))))
        if int(s0.capacity) != self.C:
            out.append(("initial capacity != max_capacity", f"{int(s0.capacity)} vs {self.C}"))
        vm = np.asarray(s0.visited_mask)
        if vm.shape != (N + 1,) or vm[1:].any():
            out.append(("a customer is marked visited at reset", short(vm)))
        tr = np.asarray(s0.trajectory)
        if tr.shape != (2 * N,) or (tr != DEPOT).any():
            out.append(("initial trajectory is not all DEPOT_IDX", short(tr)))
        # (whether the visit counter starts at 1 - counting the initial depot - is bookkeeping, not advertised)
        return out

    # ------------------------------------------------------------------ C12
    def observe_check(self, s, obs):
        out = []
        for f in ("coordinates", "position", "trajectory"):
            x, y = np.asarray(getattr(obs, f)), np.asarray(getattr(s, f))
            if x.shape != y.shape or not np.array_equal(x, y):
                out.append((f"{f} differs from the state", f"obs {short(x)} state {short(y)}"))
        d = self._demands(s).astype(np.float64) / self.C
        od = np.asarray(obs.demands, np.float64)
        if od.shape != d.shape or not np.allclose(od, d, rtol=1e-6, atol=1e-7):
            out.append(("demands are not state demands / max_capacity", f"obs {short(od)} want {short(d)}"))
        oc, wc = float(obs.capacity), float(int(s.capacity)) / self.C
        if not np.isclose(oc, wc, rtol=1e-6, atol=1e-7):
            out.append(("capacity is not state capacity / max_capacity", f"obs {oc} want {wc}"))
        vm = np.asarray(s.visited_mask).astype(bool)
        un = np.asarray(obs.unvisited_nodes)
        if un.shape != vm.shape or not np.array_equal(un.astype(bool), ~vm):
            out.append(("unvisited_nodes is not the complement of visited_mask", f"obs {short(un)} visited {short(vm)}"))
        # documented mask: customer unvisited and demand <= capacity; depot iff not at the depot
        want = ~vm & (self._demands(s) <= int(s.capacity))
        want[DEPOT] = int(s.position) != DEPOT
        m = np.asarray(obs.action_mask)
        if m.shape != want.shape or not np.array_equal(m.astype(bool), want):
            out.append(("action_mask is not the documented function of the state", f"obs {short(m)} want {short(want)}"))
        return out

"""TSP reference model (from docs/environments/tsp.md and the TSP / reward class docstrings).

Rules: N cities with coordinates in the unit square.  An action is the index of the next city; it is
legal iff that city has not been visited yet.  `trajectory` lists the visited cities in order (-1 =
not filled yet), `position` is the last visited city (-1 before the first choice), `visited_mask`
marks visited cities, `num_visited` counts them.  The episode ends when every city has been visited,
or on an invalid action (revisit): then the step is LAST, the reward is -N*sqrt(2) and (C05) the
problem state is left untouched.
Reward: dense = minus the distance from the current city to the chosen one, 0 for the first city,
and for the last city also minus the distance back to the first city; sparse = 0 until the tour is
complete, then minus the closed tour length.  Both sum to minus the closed tour length.

Everything is recomputed from `trajectory[:num_visited]` and `coordinates` in int64/float64; the
env's own `visited_mask` is only ever *compared* with that recomputation.
"""
from __future__ import annotations

import numpy as np

from vf.models.base import Model, short

REWARD_TWINS = {"n5d": "n5s", "n5s": "n5d", "n20d": "n20s", "n20s": "n20d", "lat6d": "lat6s", "lat6s": "lat6d"}


def _make(n, dense=True):
    def f():
        from jumanji.environments import TSP
        from jumanji.environments.routing.tsp.generator import UniformGenerator
        from jumanji.environments.routing.tsp.reward import DenseReward, SparseReward

        return TSP(generator=UniformGenerator(num_cities=n), reward_fn=DenseReward() if dense else SparseReward())
    return f


# minimum size, an odd medium size and a large one (the constructor accepts any num_cities >= 1)
EXTRA_INSTANCE_CONFIGS = {"x_n1": _make(1), "x_n7s": _make(7, False), "x_n100": _make(100)}


class M(Model):
    ENV = "TSP"
    DETERMINISTIC_CONFIGS = ()
    REWARD_TWINS = REWARD_TWINS  # the C08 driver reads it from the model instance

    def __init__(self, b):
        super().__init__(b)
        self.N = int(b.env.num_cities)
        self.dense = type(b.env.reward_fn).__name__.lower().startswith("dense")
        self.penalty = -self.N * np.sqrt(2.0)

    # ------------------------------------------------------------------ helpers
    def _hist(self, s):
        """visited cities in order, read from the trajectory (defensive against odd counters)."""
        n = int(np.clip(int(s.num_visited), 0, self.N))
        return [int(x) for x in np.asarray(s.trajectory).reshape(-1)[:n]]

    def _visited(self, s):
        v = np.zeros(self.N, bool)
        for c in self._hist(s):
            if 0 <= c < self.N:
                v[c] = True
        return v

    def _xy(self, s):
        return np.asarray(s.coordinates, np.float64)

    def _closed_length(self, xy, tour):
        if len(tour) < 2:
            return 0.0
        p = xy[np.asarray(tour, np.int64)]
        return float(np.linalg.norm(p - np.roll(p, -1, axis=0), axis=1).sum())

    def _is_penalty(self, r):
        return abs(float(r) - self.penalty) <= 1e-5 * max(1.0, abs(self.penalty))

    # ------------------------------------------------------------------ C04 / C05
    def legal(self, s):
        return ~self._visited(s)

    def reacted_invalid(self, s, a, s2, ts2, agent=None):
        # documented reaction to an invalid move: episode ends with the penalty reward.  (A legal
        # final move is LAST as well, but its reward is minus a tour/edge length > -N*sqrt(2).)
        return bool(int(ts2.step_type) == 2 and self._is_penalty(ts2.reward))

    PROBLEM_FIELDS = ("coordinates", "position", "visited_mask", "trajectory", "num_visited")

    def check_illegal(self, s, a, s2, ts2, agent=None):
        out = []
        if int(ts2.step_type) != 2:
            out.append(("illegal move does not end the episode", f"step_type={int(ts2.step_type)}"))
        if not self._is_penalty(ts2.reward):
            out.append(("illegal move reward is not -num_cities*sqrt(2)",
                        f"reward={float(ts2.reward)!r} documented={self.penalty!r}"))
        for f in self.PROBLEM_FIELDS:
            x, y = np.asarray(getattr(s, f)), np.asarray(getattr(s2, f))
            if x.shape != y.shape or not np.array_equal(x, y):  # "untouched" = same values (dtype is C01's business)
                out.append((f"illegal move changed state field {f}", f"{short(x)} -> {short(y)}"))
        return out

    # ------------------------------------------------------------------ C06
    def constraints(self, s):
        out = []
        N = self.N
        n = int(s.num_visited)
        traj = np.asarray(s.trajectory).astype(np.int64).reshape(-1)
        vm = np.asarray(s.visited_mask).astype(bool).reshape(-1)
        if traj.shape != (N,) or vm.shape != (N,):
            return [("trajectory / visited_mask shape", f"{traj.shape} {vm.shape}")]
        if not 0 <= n <= N:
            return [("num_visited outside 0..num_cities", f"num_visited={n}")]
        h = traj[:n]
        if ((h < 0) | (h >= N)).any():
            out.append(("trajectory holds an index outside 0..num_cities-1", f"trajectory[:{n}]={h.tolist()}"))
            return out
        if len(set(h.tolist())) != n:
            out.append(("a city occurs twice in the trajectory", f"trajectory[:{n}]={h.tolist()}"))
        want = np.zeros(N, bool)
        want[h] = True
        if not np.array_equal(want, vm):
            out.append(("visited_mask disagrees with trajectory[:num_visited]",
                        f"trajectory[:{n}]={h.tolist()} visited={np.flatnonzero(vm).tolist()}"))
        if int(vm.sum()) != n:
            out.append(("num_visited != number of visited cities", f"num_visited={n} visited={int(vm.sum())}"))
        # (the padding of the unfilled trajectory entries is not a hard constraint of the problem: not asserted)
        return out

    def complete(self, s, ts):
        # all-legal TSP episodes can only end by completion
        out = []
        h = self._hist(s)
        if int(s.num_visited) != self.N or sorted(h) != list(range(self.N)):
            out.append(("episode ended legally but the tour is not a permutation of all cities",
                        f"num_visited={int(s.num_visited)} trajectory={np.asarray(s.trajectory).tolist()}"))
        if not np.asarray(s.visited_mask).all():
            out.append(("episode ended legally with unvisited cities", short(s.visited_mask)))
        return out

    # ------------------------------------------------------------------ C08
    def objective(self, ep):
        s = ep.states[-1]
        h = self._hist(s)
        if sorted(h) != list(range(self.N)):
            return None  # not a complete tour: the documented objective is the closed tour length
        return -self._closed_length(self._xy(s), h), 1e-5 * self.N

    def twin_applicable(self, ep):
        # "same return on the same trajectory of legal actions": plans may contain raw (possibly invalid)
        # actions; an episode cut short by an invalid move is not an all-legal trajectory
        return self.objective(ep) is not None

    # ------------------------------------------------------------------ C09
    def predict(self, s, a):
        a = int(a)
        N = self.N
        h = self._hist(s)
        unchanged = {f: np.asarray(getattr(s, f)) for f in self.PROBLEM_FIELDS}
        if not (0 <= a < N) or a in h:
            return {"state": unchanged, "reward": self.penalty, "last": True}
        n = len(h)
        xy = self._xy(s)
        traj = np.asarray(s.trajectory).copy()
        traj[n] = a
        vm = self._visited(s)
        vm[a] = True
        last = n + 1 == N
        if self.dense:
            r = 0.0 if n == 0 else -float(np.linalg.norm(xy[h[-1]] - xy[a]))
            if last:
                r -= float(np.linalg.norm(xy[a] - xy[(h + [a])[0]]))
        else:
            r = -self._closed_length(xy, h + [a]) if last else 0.0
        st = {"coordinates": np.asarray(s.coordinates), "position": a, "visited_mask": vm,
              "trajectory": traj, "num_visited": n + 1}
        return {"state": st, "reward": r, "last": last}

    # ------------------------------------------------------------------ C10
    def validate_instance(self, s0):
        out = []
        N = self.N
        xy = np.asarray(s0.coordinates)
        if xy.shape != (N, 2):
            return [("coordinates shape", str(xy.shape))]
        xy = np.asarray(xy, np.float64)  # (dtype conformance is C01's business)
        if not np.isfinite(xy).all():
            out.append(("coordinates not finite", short(xy)))
        elif (xy < 0).any() or (xy > 1).any():
            out.append(("coordinates outside the unit square", f"min={xy.min()} max={xy.max()}"))
        # (how "no city chosen yet" is encoded in `position` is not documented: not asserted; dtypes are C01's)
        vm = np.asarray(s0.visited_mask)
        if vm.shape != (N,) or vm.astype(bool).any():
            out.append(("initial visited_mask is not all False", short(vm)))
        tr = np.asarray(s0.trajectory)
        if tr.shape != (N,) or (tr != -1).any():
            out.append(("initial trajectory is not all -1", short(tr)))
        if int(s0.num_visited) != 0:
            out.append(("initial num_visited != 0", str(int(s0.num_visited))))
        return out

    # ------------------------------------------------------------------ C12
    def observe_check(self, s, obs):
        out = []
        for f in ("coordinates", "position", "trajectory"):
            x, y = np.asarray(getattr(obs, f)), np.asarray(getattr(s, f))
            if x.shape != y.shape or not np.array_equal(x, y):
                out.append((f"{f} differs from the state", f"obs {short(x)} state {short(y)}"))
        m = np.asarray(obs.action_mask)
        if m.shape != (self.N,) or not np.array_equal(m.astype(bool), ~np.asarray(s.visited_mask).astype(bool)):
            out.append(("action_mask is not the set of unvisited cities", f"mask {short(m)} visited {short(s.visited_mask)}"))
        return out

"""Geometric reference model of the N x N x N Rubik's cube (pure Python / NumPy, integer exact).

Built only from the documented conventions (docs/environments/rubiks_cube.md and the docstrings of
`unflatten_action` / `flatten_action`), not from the index tables of the implementation:

* faces in the order UP, FRONT, RIGHT, BACK, LEFT, DOWN (ids 0..5); a solved cube has colour f on
  face f;
* every face is stored "in reading order when looking directly at the face", and the documentation
  says, per face, which neighbouring face is on the viewer's left and which one points up;
* an action is (face, depth, amount): depth 0 is the outer layer, amount 0 = clockwise,
  1 = anticlockwise, 2 = half turn, all "when looking directly at the face";
* flat action index = position in the sequence (face major, then depth, then amount).

Geometry.  The cube is the solid [-N, N]^3 in *doubled* integer units (so that all cell centres are
integers): +x points to the RIGHT face, +y to the UP face, +z to the FRONT face, which is a
right-handed frame for somebody holding the cube with FRONT towards them.  A sticker is a pair
(position of the centre of its cell on the surface, outward normal).  The cubie carrying a sticker
has its centre one unit below the sticker.  A move of (face, depth) rotates every sticker whose
cubie lies in the slab number `depth` counted from that face; "clockwise as seen by somebody looking
at the face from outside" is the rotation by -90 degrees about the outward normal of the face
(right-hand rule), anticlockwise +90 degrees, half turn 180 degrees.

`move_perm(n, face, depth, amount)` returns the gather table `src` with
`new.reshape(-1) == old.reshape(-1)[src]`.
"""
from __future__ import annotations

import functools
import itertools

import numpy as np

UP, FRONT, RIGHT, BACK, LEFT, DOWN = range(6)
FACE_NAMES = ["UP", "FRONT", "RIGHT", "BACK", "LEFT", "DOWN"]
AMOUNT_NAMES = ["cw", "ccw", "half"]

# outward normals in the (x = RIGHT, y = UP, z = FRONT) frame
NORMAL = {
    UP: (0, 1, 0), DOWN: (0, -1, 0), FRONT: (0, 0, 1), BACK: (0, 0, -1),
    RIGHT: (1, 0, 0), LEFT: (-1, 0, 0),
}

# documentation table: face -> (face on the viewer's left, face pointing up) when looking at it
VIEW = {
    UP: (LEFT, BACK),
    FRONT: (LEFT, UP),
    RIGHT: (FRONT, UP),
    BACK: (RIGHT, UP),
    LEFT: (BACK, UP),
    DOWN: (LEFT, FRONT),
}

# number of quarter turns in the mathematically positive sense about the outward normal
# amount index 0 = clockwise (-90 deg), 1 = anticlockwise (+90 deg), 2 = half turn
QUARTERS = {0: -1, 1: +1, 2: 2}


def _cross(a, b):
    return (a[1] * b[2] - a[2] * b[1], a[2] * b[0] - a[0] * b[2], a[0] * b[1] - a[1] * b[0])


def _dot(a, b):
    return a[0] * b[0] + a[1] * b[1] + a[2] * b[2]


def _neg(a):
    return (-a[0], -a[1], -a[2])


def face_frame(face: int):
    """(normal, up, right) of the viewer looking directly at `face` from outside the cube."""
    left_face, up_face = VIEW[face]
    normal = NORMAL[face]
    up = NORMAL[up_face]
    right = _neg(NORMAL[left_face])
    # a viewer outside the cube sees right x up pointing towards himself, i.e. along the outward
    # normal; this asserts that the documented table is geometrically consistent with the frame
    assert _cross(right, up) == normal, (FACE_NAMES[face], right, up, normal)
    return normal, up, right


def sticker(n: int, face: int, i: int, j: int):
    """(position, normal) of the sticker stored at cube[face, i, j] (row i from the top, column j
    from the left, reading order), in doubled units."""
    normal, up, right = face_frame(face)
    a = (n - 1) - 2 * i          # coordinate along `up`
    b = 2 * j - (n - 1)          # coordinate along `right`
    pos = tuple(n * normal[k] + a * up[k] + b * right[k] for k in range(3))
    return pos, normal


@functools.lru_cache(maxsize=None)
def _tables(n: int):
    fwd = []
    inv = {}
    for f, i, j in itertools.product(range(6), range(n), range(n)):
        s = sticker(n, f, i, j)
        assert s not in inv
        inv[s] = len(fwd)
        fwd.append(s)
    return fwd, inv


def _rot_quarter(axis, v):
    """v rotated by +90 degrees about the unit axis `axis` (Rodrigues, cos = 0, sin = 1)."""
    d = _dot(axis, v)
    c = _cross(axis, v)
    return tuple(axis[k] * d + c[k] for k in range(3))


def _rot(axis, v, quarters: int):
    for _ in range(quarters % 4):
        v = _rot_quarter(axis, v)
    return v


def in_layer(n: int, face: int, depth: int, pos, normal) -> bool:
    """Does the sticker (pos, normal) belong to a cubie of slab `depth` below `face`?"""
    m = NORMAL[face]
    cubie = tuple(pos[k] - normal[k] for k in range(3))
    return _dot(cubie, m) == (n - 1) - 2 * depth


@functools.lru_cache(maxsize=None)
def move_perm(n: int, face: int, depth: int, amount: int) -> np.ndarray:
    """Gather table of the move: new_flat = old_flat[src]."""
    if not (0 <= face < 6 and 0 <= depth < n // 2 and 0 <= amount < 3):
        raise ValueError(f"not an action of the {n}-cube: {(face, depth, amount)}")
    fwd, inv = _tables(n)
    m = NORMAL[face]
    q = QUARTERS[amount]
    src = np.arange(6 * n * n, dtype=np.int64)
    for idx, (pos, normal) in enumerate(fwd):
        if in_layer(n, face, depth, pos, normal):
            dest = inv[(_rot(m, pos, q), _rot(m, normal, q))]
            src[dest] = idx
    src.setflags(write=False)
    return src


def num_actions(n: int) -> int:
    return 6 * (n // 2) * 3


def all_actions(n: int):
    """All (face, depth, amount) triples in the documented flat order."""
    return [(f, d, a) for f in range(6) for d in range(n // 2) for a in range(3)]


def flatten(n: int, action) -> int:
    return all_actions(n).index(tuple(int(x) for x in action))


def unflatten(n: int, flat: int):
    return all_actions(n)[int(flat)]


@functools.lru_cache(maxsize=None)
def perm_table(n: int) -> np.ndarray:
    """(num_actions, 6 n^2) gather tables in flat-action order."""
    t = np.stack([move_perm(n, *a) for a in all_actions(n)], 0)
    t.setflags(write=False)
    return t


def inverse_action(action):
    f, d, a = (int(x) for x in action)
    return (f, d, {0: 1, 1: 0, 2: 2}[a])


def solved(n: int) -> np.ndarray:
    return np.repeat(np.arange(6, dtype=np.int64), n * n).reshape(6, n, n)


def labelled(n: int) -> np.ndarray:
    return np.arange(6 * n * n, dtype=np.int64).reshape(6, n, n)


def apply(cube: np.ndarray, action) -> np.ndarray:
    cube = np.asarray(cube)
    n = cube.shape[-1]
    return cube.reshape(-1)[move_perm(n, *(int(x) for x in action))].reshape(cube.shape)


def apply_seq(cube: np.ndarray, actions) -> np.ndarray:
    for a in actions:
        cube = apply(cube, a)
    return cube


def is_face_uniform(cube: np.ndarray) -> bool:
    """Solved = every face shows one colour only (written without min/max)."""
    cube = np.asarray(cube)
    return all(len(set(cube[f].reshape(-1).tolist())) == 1 for f in range(cube.shape[0]))


def colour_multiset_ok(cube: np.ndarray) -> bool:
    cube = np.asarray(cube)
    n = cube.shape[-1]
    return sorted(cube.reshape(-1).tolist()) == sorted(list(range(6)) * (n * n))


def distance_to_solved(cube: np.ndarray, max_depth: int):
    """Smallest k <= max_depth such that k model moves turn `cube` into a face-uniform cube whose
    face f shows colour f, or None (breadth-first, vectorised over the frontier)."""
    cube = np.asarray(cube).astype(np.int64)
    n = cube.shape[-1]
    goal = solved(n).reshape(-1)
    table = perm_table(n)
    frontier = cube.reshape(1, -1)
    for k in range(max_depth + 1):
        if (frontier == goal).all(axis=1).any():
            return k
        if k == max_depth:
            break
        frontier = frontier[:, table].reshape(-1, goal.size)
        frontier = np.unique(frontier, axis=0)
    return None

"""JobShop reference model (from docs/environments/job_shop.md and the class docstring).

Rules.  Time advances by one unit per step; `step_count` is the clock.  A joint action gives every
machine a job id or the no-op (= num_jobs).  Scheduling job j on machine m at time t is legal iff
the machine is available (not processing), the next unscheduled operation of j must run on m, no
operation of j is being processed at t, and j still has unscheduled operations; the no-op is
always legal.  A legal action starts the next operation of the chosen jobs at time t: an operation
started at t with duration d occupies its machine during [t, t+d).  Reward -1 per time step.  The
episode ends when (i) every operation has been processed, (ii) some machine is given an illegal
job: reward -num_jobs*max_num_ops*max_op_duration, (iii) all machines are idle simultaneously (no
machine processes anything during the time unit of the step): same penalty.

The model never trusts the incremental fields (`machines_remaining_times`, `machines_job_ids`,
`ops_mask`): what runs where is recomputed from `scheduled_times`, `ops_durations`,
`ops_machine_ids` and the clock.
"""
from __future__ import annotations

import numpy as np

from vf.models.base import Model

LAST = 2



def _js(j, m, o, d):
    def f():
        from jumanji.environments import JobShop
        from jumanji.environments.packing.job_shop.generator import RandomGenerator

        return JobShop(generator=RandomGenerator(j, m, o, d))
    return f


# extra generator configurations for C10: minimum sizes, one machine, many ops / long durations
EXTRA_INSTANCE_CONFIGS = {"x_j2m2o2d1": _js(2, 2, 2, 1), "x_j3m1o1d3": _js(3, 1, 1, 3), "x_j2m7o9d9": _js(2, 7, 9, 9)}

class M(Model):
    ENV = "JobShop"
    DETERMINISTIC_CONFIGS = {"toy"}
    EPISODE_CAP = 600

    def __init__(self, b):
        super().__init__(b)
        e = b.env
        self.J, self.Mc = int(e.num_jobs), int(e.num_machines)
        self.O, self.D = int(e.max_num_ops), int(e.max_op_duration)
        self.penalty = -float(self.J * self.O * self.D)
        self.noop = self.J

    # ------------------------------------------------------------------------------- helpers
    def _inst(self, s):
        mid = np.asarray(s.ops_machine_ids).astype(np.int64)
        dur = np.asarray(s.ops_durations).astype(np.int64)
        return mid, dur, mid >= 0  # real (non padding) ops

    def _view(self, s):
        """Everything derived from the raw schedule at the current clock."""
        mid, dur, real = self._inst(s)
        st = np.asarray(s.scheduled_times).astype(np.int64)
        t = int(s.step_count)
        sched = real & (st >= 0)
        running = sched & (st <= t) & (t < st + dur)
        # per machine: remaining time of whatever is running on it
        rem = np.zeros(self.Mc, np.int64)
        job_on = np.full(self.Mc, -1, np.int64)
        for j, k in np.argwhere(running):
            m = int(mid[j, k])
            if 0 <= m < self.Mc:
                r = int(st[j, k] + dur[j, k] - t)
                if r > rem[m]:
                    rem[m] = r
                    job_on[m] = j
        job_running = running.any(axis=1)
        todo = real & ~sched
        has_next = todo.any(axis=1)
        next_op = np.where(has_next, np.argmax(todo, axis=1), 0)
        return dict(mid=mid, dur=dur, real=real, st=st, t=t, sched=sched, running=running, rem=rem,
                    job_on=job_on, job_running=job_running, todo=todo, has_next=has_next, next_op=next_op)

    def _legal_from_view(self, v):
        L = np.zeros((self.Mc, self.J + 1), bool)
        L[:, self.noop] = True
        for j in range(self.J):
            if not v["has_next"][j] or v["job_running"][j]:
                continue
            m = int(v["mid"][j, v["next_op"][j]])
            if 0 <= m < self.Mc and v["rem"][m] == 0:
                L[m, j] = True
        return L

    # ------------------------------------------------------- plan bias ('solve' mode of the drivers)
    def solve_action(self, s, r=0):
        """Greedy dispatch: every available machine starts one of the jobs it may legally take (r picks
        which); now and then one machine waits, but never so that all machines idle.  Reaches a finished
        schedule instead of the 'simultaneously idle' ending of random legal play."""
        v = self._view(s)
        L = self._legal_from_view(v)
        r = int(r)
        a = np.full(self.Mc, self.noop, np.int64)
        for m in range(self.Mc):
            jobs = np.flatnonzero(L[m, : self.J])
            if jobs.size:
                a[m] = jobs[(r // (m + 1) + m) % jobs.size]
        started = np.flatnonzero(a != self.noop)
        if r % 5 == 0 and started.size and ((v["rem"] > 1).any() or started.size > 1):
            a[started[(r // 5) % started.size]] = self.noop  # deliberate wait
        return a.astype(np.int32)

    # --------------------------------------------------------------------------- C04 / C05
    def legal(self, s):
        return self._legal_from_view(self._view(s))

    def reacted_invalid(self, s, a, s2, ts2, agent=None):
        a = np.asarray(a).astype(np.int64)
        if agent is None:
            return None
        if int(a[agent]) == self.noop:
            return None  # an all-no-op step is penalised by the idle rule: not an invalid-move signal
        if self.penalty == -1.0:
            return None  # penalty indistinguishable from the per-step reward
        r = float(ts2.reward)
        last = int(ts2.step_type) == LAST
        # machine `agent` is given a job, so the machines cannot be "simultaneously idle" after
        # this step: the penalty can only be the invalid-action penalty
        if last and r == self.penalty:
            return True
        if r == -1.0:
            return False
        return None

    def check_illegal(self, s, a, s2, ts2, agent=None):
        out = []
        if int(ts2.step_type) != LAST:
            out.append(("illegal move does not end the episode", f"step_type={int(ts2.step_type)}"))
        if float(ts2.reward) != self.penalty:
            out.append(("illegal move: reward is not the documented penalty",
                        f"reward={float(ts2.reward)} documented={self.penalty}"))
        return out

    # --------------------------------------------------------------------------------- C06
    def constraints(self, s):
        out = []
        v = self._view(s)
        mid, dur, real, st, sched = v["mid"], v["dur"], v["real"], v["st"], v["sched"]
        t = v["t"]
        # audit: C06 = hard constraints only (job order, no overlap on a machine or within a job).  The value held by
        # padding slots of scheduled_times, "start < clock" and the agreement of the bookkeeping fields ops_mask /
        # machines_remaining_times / machines_job_ids with the schedule are not among them (C09 predicts those fields)
        # - removed from the C06 oracle
        for j in range(self.J):
            ks = np.flatnonzero(real[j])
            # ops of a job are scheduled in order: scheduled ones form a prefix
            flags = sched[j, ks]
            if flags.size and (~flags[:-1] & flags[1:]).any():
                out.append(("operation scheduled before its predecessor in the job", f"job {j} scheduled={flags.tolist()}"))
                continue
            done = ks[flags]
            for k1, k2 in zip(done[:-1], done[1:]):
                if st[j, k2] < st[j, k1] + dur[j, k1]:
                    out.append(("precedence violated: operation starts before the previous one of its job ends",
                                f"job {j}: op {k1} start {st[j, k1]} dur {dur[j, k1]}, op {k2} start {st[j, k2]}"))
                    break
        for m in range(self.Mc):
            idx = np.argwhere(sched & (mid == m))
            iv = sorted((int(st[j, k]), int(st[j, k] + dur[j, k]), int(j), int(k)) for j, k in idx)
            for x, y in zip(iv[:-1], iv[1:]):
                if y[0] < x[1]:
                    out.append(("two operations overlap on one machine",
                                f"machine {m}: job {x[2]} op {x[3]} [{x[0]},{x[1]}) and job {y[2]} op {y[3]} [{y[0]},{y[1]})"))
                    break
        bad_m = sched & ((mid < 0) | (mid >= self.Mc))
        if bad_m.any():
            out.append(("scheduled operation has no valid machine", str(np.argwhere(bad_m)[0].tolist())))
        return out

    def _finished(self, v, clock=None):
        clock = v["t"] if clock is None else clock
        if v["todo"].any():
            return False
        end = (v["st"] + v["dur"])[v["sched"]]
        return bool(end.size == 0 or end.max() <= clock)

    def complete(self, s, ts):
        v = self._view(s)
        if float(ts.reward) == self.penalty and self.penalty != -1.0:
            return []  # ended by the documented idle rule, not by completion
        out = []
        if v["todo"].any():
            j, k = np.argwhere(v["todo"])[0].tolist()
            out.append(("episode ended without penalty although operations are unscheduled", f"job {j} op {k}"))
        # audit: a fully scheduled feasible state *is* a complete solution; ending before the last operation has been
        # processed is a termination-timing matter (C09 'last', C08 makespan) - removed from the C06 oracle
        return out

    # --------------------------------------------------------------------------------- C08
    def objective(self, ep):
        if not ep.states:
            return None
        s = ep.states[-1]
        v = self._view(s)
        prev = ep.states[-2] if len(ep.states) >= 2 else ep.s0
        a = np.asarray(ep.actions[-1]).astype(np.int64).reshape(-1)
        pv = self._view(prev)
        if a.shape != (self.Mc,) or (a < 0).any() or (a > self.J).any():
            return None
        if not self._legal_from_view(pv)[np.arange(self.Mc), a].all():
            # audit: C08 quantifies over legal action sequences - an episode ended by an illegal action is not judged
            return None
        if self._finished(v):
            # finished schedule: minus makespan
            return -float((v["st"] + v["dur"])[v["sched"]].max()), 1e-6
        if (a == self.noop).all() and not (pv["rem"] > 0).any():
            # "simultaneously idle" ending: no makespan; the documented return is -1 per elapsed
            # time step before the last one plus the penalty
            return -(float(v["t"]) - 1.0) + self.penalty, 1e-6
        # audit: an ending that is none of the documented ones has no documented objective (C09 reports the 'last')
        return None

    # --------------------------------------------------------------------------------- C09
    def predict(self, s, a):
        a = np.asarray(a).astype(np.int64).reshape(-1)
        if a.shape != (self.Mc,) or (a < 0).any() or (a > self.J).any():
            return None
        v = self._view(s)
        L = self._legal_from_view(v)
        if not L[np.arange(self.Mc), a].all():
            return {"last": True, "reward": self.penalty}  # audit: discount is C03's, not part of C09 - not predicted
        t = v["t"]
        st2 = v["st"].copy()
        for m in range(self.Mc):
            j = int(a[m])
            if j != self.noop:
                st2[j, v["next_op"][j]] = t
        real, dur, mid = v["real"], v["dur"], v["mid"]
        sched2 = real & (st2 >= 0)
        todo2 = real & ~sched2
        clock = t + 1
        rem2 = np.zeros(self.Mc, np.int64)
        for j, k in np.argwhere(sched2):
            m = int(mid[j, k])
            r = int(st2[j, k] + dur[j, k] - clock)
            if 0 <= m < self.Mc and r > rem2[m]:
                rem2[m] = r
        worked = (v["rem"] > 0).any() or (a != self.noop).any()  # did any machine process during [t, t+1)?
        end = (st2 + dur)[sched2]
        finished = (not todo2.any()) and (end.size == 0 or end.max() <= clock)
        idle = not worked
        state = {
            "step_count": clock,
            "scheduled_times": st2.astype(np.asarray(s.scheduled_times).dtype),
            "ops_mask": todo2,
            "machines_remaining_times": rem2.astype(np.asarray(s.machines_remaining_times).dtype),
            "ops_machine_ids": np.asarray(s.ops_machine_ids),
            "ops_durations": np.asarray(s.ops_durations),
        }
        last = bool(finished or idle)
        return {"state": state, "reward": self.penalty if idle else -1.0, "last": last}

    def stochastic_ok(self, s, a, s2):
        """Not stochastic: consistency of `machines_job_ids` (defined by the docs only for machines
        that are processing) and of the new mask-independent bookkeeping after a legal step."""
        a = np.asarray(a).astype(np.int64).reshape(-1)
        if a.shape != (self.Mc,) or (a < 0).any() or (a > self.J).any():
            return []
        v = self._view(s)
        if not self._legal_from_view(v)[np.arange(self.Mc), a].all():
            return []
        out = []
        v2 = self._view(s2)
        mj = np.asarray(s2.machines_job_ids).astype(np.int64)
        busy = v2["rem"] > 0
        if mj.shape == (self.Mc,) and (mj[busy] != v2["job_on"][busy]).any():
            out.append(("busy machine does not show the job it is processing",
                        f"machines_job_ids {mj.tolist()} expected on busy machines {v2['job_on'].tolist()}"))
        return out

    # --------------------------------------------------------------------------------- C10
    def validate_instance(self, s0):
        out = []
        mid = np.asarray(s0.ops_machine_ids).astype(np.int64)
        dur = np.asarray(s0.ops_durations).astype(np.int64)
        if mid.shape != (self.J, self.O) or dur.shape != (self.J, self.O):
            return [("instance shape", f"{mid.shape} {dur.shape}")]
        real = mid >= 0
        nops = real.sum(axis=1)
        if (nops < 1).any():
            out.append(("job without operations", f"job {int(np.flatnonzero(nops < 1)[0])}"))
        # real ops form a prefix, padding is -1 in both arrays
        for j in range(self.J):
            if not np.array_equal(real[j], np.arange(self.O) < nops[j]):
                out.append(("padding inside a job's operation list", f"job {j}: {mid[j].tolist()}"))
                break
        if (mid[real] >= self.Mc).any() or (mid[~real] != -1).any():
            out.append(("machine id out of range / padding not -1", str(mid.tolist())[:200]))
        if (dur[real] < 1).any() or (dur[real] > self.D).any():
            out.append(("operation duration outside 1..max_op_duration", f"min {dur[real].min()} max {dur[real].max()} D={self.D}"))
        if (dur[~real] != -1).any():
            out.append(("duration padding not -1", str(dur.tolist())[:200]))
        if not np.array_equal(np.asarray(s0.ops_mask).astype(bool), real):
            out.append(("initial ops_mask != real operations", ""))
        # audit: the marker stored in scheduled_times for unscheduled ops (-1 only in a private docstring) and the value of
        # machines_job_ids on idle machines (docs: "-1 means no-op" vs spec / generator: num_jobs) are not advertised
        # instance invariants - removed
        if (np.asarray(s0.machines_remaining_times) != 0).any():
            out.append(("machine busy at reset", ""))
        if int(s0.step_count) != 0:
            out.append(("clock not 0 at reset", str(int(s0.step_count))))
        return out

    # --------------------------------------------------------------------------------- C12
    def observe_check(self, s, obs):
        out = []
        for f in ("ops_machine_ids", "ops_durations", "ops_mask", "machines_job_ids",
                  "machines_remaining_times", "action_mask"):
            x, y = np.asarray(getattr(obs, f)), np.asarray(getattr(s, f))
            if x.shape != y.shape or not np.array_equal(x, y):
                out.append((f"{f} differs from the state", f"obs {x.tolist()} state {y.tolist()}"[:300]))
        return out

"""Interface of the per-environment reference models (pure NumPy, written from the docs).

All `s`, `s2`, `prev` arguments are jumanji State dataclasses whose leaves were pulled to host
(`jax.device_get`), `ts` / `ts2` are TimeSteps likewise, `a` is a numpy action.  Methods return a list
of problems `[(sig, msg), ...]` (empty = fine) unless stated otherwise; `sig` is a short, stable
class name of the problem (it identifies the failure bucket), `msg` carries the concrete values.
A model implements only the methods that make sense for its environment; the drivers skip the rest
and list what was covered in the evidence.
"""
from __future__ import annotations

import importlib

import numpy as np


class Model:
    ENV = None

    def __init__(self, b):
        self.b = b
        self.env = b.env
        self.meta = b.meta

    # ---- C04 / C05 -------------------------------------------------------------------------
    def legal(self, s):
        """bool array shaped like observation.action_mask: what the *rules* allow in state s."""
        raise NotImplementedError

    def mask_guard(self, s):
        """bool array (mask shape) of entries for which 'legal' is not defined by the docs and
        which are therefore not asserted; None = assert everything."""
        return None

    def reacted_invalid(self, s, a, s2, ts2, agent=None):
        """True/False: did the environment treat action `a` (of agent `agent` for per-agent masks)
        as an invalid move, judged from its observable reaction?  None = cannot tell."""
        raise NotImplementedError

    def check_illegal(self, s, a, s2, ts2, agent=None):
        """`a` is illegal by the rules (for agent `agent`): has the step exactly the documented
        effect (C05)?"""
        raise NotImplementedError

    # ---- C06 ------------------------------------------------------------------------------
    def constraints(self, s):
        raise NotImplementedError

    def complete(self, s, ts):
        """Called on the LAST state of an all-legal episode: if the episode ended by completion the
        state must encode a complete feasible solution (return [] when it ended for another
        documented reason)."""
        raise NotImplementedError

    # ---- C07 ------------------------------------------------------------------------------
    def invariants(self, prev, a, s, ts):
        """Physical consistency of state s (prev/a = None on reset)."""
        raise NotImplementedError

    # ---- C08 ------------------------------------------------------------------------------
    def objective(self, ep):
        """Expected return of a finished all-legal episode recomputed from raw arrays, as
        (value, abs_tolerance) - or None when the docs define no objective for this ending.
        ep: .s0 .ts0 .actions .states .timesteps .rewards(float64, shape (T,) or (T, agents))"""
        raise NotImplementedError

    # ---- C09 ------------------------------------------------------------------------------
    def predict(self, s, a):
        """Deterministic part of the transition: dict with optional keys
        'state': {dotted.field.path: expected array}, 'reward', 'last' (bool, or a callable of the
        successor state when termination depends on a stochastic part), 'discount'."""
        raise NotImplementedError

    def stochastic_ok(self, s, a, s2):
        return []

    # ---- C10 ------------------------------------------------------------------------------
    def validate_instance(self, s0):
        raise NotImplementedError

    # ---- C11 ------------------------------------------------------------------------------
    def early_end_explained(self, states, actions):
        """The episode returned LAST on its k-th step, before the time limit.  states = [s0 .. sk] (host
        states, sk returned together with LAST), actions = [a1 .. ak].  True: a documented reason other than
        the time limit holds (solved / all agents finished / collision / ...); False: certainly none holds;
        None: cannot tell."""
        raise NotImplementedError

    # ---- C12 ------------------------------------------------------------------------------
    def observe_check(self, s, obs):
        raise NotImplementedError


def supports(model, method: str) -> bool:
    return model is not None and getattr(type(model), method) is not getattr(Model, method)


_MODULES = {
    "Game2048": "game2048", "GraphColoring": "graph_coloring", "Minesweeper": "minesweeper",
    "RubiksCube": "rubiks", "SlidingTilePuzzle": "sliding_env", "Sudoku": "sudoku", "BinPack": "bin_pack",
    "FlatPack": "flat_pack", "JobShop": "job_shop", "Knapsack": "knapsack", "Tetris": "tetris",
    "Cleaner": "cleaner", "Connector": "connector", "CVRP": "cvrp", "LevelBasedForaging": "lbf",
    "Maze": "maze", "MMST": "mmst", "MultiCVRP": "multi_cvrp", "PacMan": "pac_man",
    "RobotWarehouse": "robot_warehouse", "Snake": "snake", "Sokoban": "sokoban", "TSP": "tsp",
}


def get_model(b):
    """Model instance for a bundle, or None when no model module exists (yet)."""
    try:
        mod = importlib.import_module(f"vf.models.{_MODULES[b.name]}")
    except ModuleNotFoundError as e:
        if f"vf.models.{_MODULES[b.name]}" in str(e):
            return None
        raise
    return mod.M(b)


def envs_supporting(method: str) -> list:
    """Environment names whose model class overrides `method` (no env construction needed)."""
    out = []
    for env, modname in _MODULES.items():
        try:
            mod = importlib.import_module(f"vf.models.{modname}")
        except ModuleNotFoundError as e:
            if f"vf.models.{modname}" in str(e):
                continue
            raise
        if getattr(mod.M, method) is not getattr(Model, method):
            out.append(env)
    return out


def getpath(obj, path: str):
    for p in path.split("."):
        if isinstance(obj, dict):
            obj = obj[p]
        elif p.isdigit() and isinstance(obj, (list, tuple)):
            obj = obj[int(p)]
        else:
            obj = getattr(obj, p)
    return obj


def arr_eq(a, b, tol=None) -> bool:
    a, b = np.asarray(a), np.asarray(b)
    if a.shape != b.shape:
        return False
    if tol is None or not (np.issubdtype(a.dtype, np.floating) or np.issubdtype(b.dtype, np.floating)):
        return bool(np.array_equal(a, b))
    return bool(np.allclose(a.astype(np.float64), b.astype(np.float64), rtol=tol, atol=tol))


def short(x, n=120):
    s = np.array2string(np.asarray(x), threshold=40, separator=",").replace("\n", "")
    return s[:n]

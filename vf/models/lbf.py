"""Level-Based Foraging reference model (class docstrings of LevelBasedForaging, RandomGenerator,
VectorObserver, GridObserver, utils; docs/environments/lbf.md where it agrees with them).

Rules as documented.  Square grid; positions are (row, col).  Actions per agent: 0 no-op, 1 up (row-1),
2 down (row+1), 3 left (col-1), 4 right (col+1), 5 load.  A move is allowed iff the destination is inside the
grid and holds neither another agent nor an uneaten food; loading is allowed iff an uneaten food is 4-adjacent;
the no-op is always allowed.  Invalid actions are ignored (the agent stays).  Agents move simultaneously; if
several agents would end up in the same cell all of them keep their previous position.  A food is eaten iff the
levels of the adjacent agents that load in this step add up to at least the food's level.  Reward: the food's
level goes to the loading agents weighted by their levels (agent level * food level, and with
`normalize_reward` divided by (sum of the loaders' levels * total food level), so that the rewards of all
agents add up to 1 once all food is collected).  The episode terminates when all food is eaten and is truncated
when step_count reaches the time limit.

The `penalty` argument is only documented as "the penalty value" (the code subtracts it from *every* agent's
reward for each food that is loaded by agents of insufficient total level, and divides it like the reward when
normalising).  Who pays and how it is normalised is not documented, so rewards/returns are predicted only for
steps/episodes without an under-levelled load attempt when penalty != 0.
"""
from __future__ import annotations

import numpy as np

from vf.models.base import Model
from vf.models.connector import bfs_first_step

MOVES = np.array([[0, 0], [-1, 0], [1, 0], [0, -1], [0, 1], [0, 0]], np.int64)  # noop up down left right load
LOAD = 5
LAST = 2
_CODE = {(-1, 0): 1, (1, 0): 2, (0, -1): 3, (0, 1): 4}


class M(Model):
    ENV = "LevelBasedForaging"

    def __init__(self, b):
        super().__init__(b)
        env = b.env
        self.G, self.A, self.F = int(env.grid_size), int(env.num_agents), int(env.num_food)
        self.fov = int(env.fov)
        self.T = int(env.time_limit)
        self.norm = bool(env.normalize_reward)
        self.pen = float(env.penalty)
        gen = getattr(env, "_generator", None)
        self.max_level = int(b.meta.get("max_level", getattr(gen, "max_agent_level", 2)))
        self.coop = bool(b.meta.get("coop", getattr(gen, "force_coop", False)))
        self.grid_obs = bool(b.meta["grid_obs"]) if "grid_obs" in b.meta else type(getattr(env, "_observer", None)).__name__ == "GridObserver"

    # ------------------------------------------------------------------------------------ helpers
    def _tab(self, s):
        ag, fd = s.agents, s.food_items
        return (np.asarray(ag.position, np.int64).reshape(self.A, 2), np.asarray(ag.level, np.int64).reshape(self.A),
                np.asarray(fd.position, np.int64).reshape(self.F, 2), np.asarray(fd.level, np.int64).reshape(self.F),
                np.asarray(fd.eaten).astype(bool).reshape(self.F))

    def _inside(self, p):
        return 0 <= int(p[0]) < self.G and 0 <= int(p[1]) < self.G

    def _legal(self, apos, fpos, eaten):
        out = np.zeros((self.A, 6), bool)
        out[:, 0] = True
        live = [tuple(fpos[f].tolist()) for f in range(self.F) if not eaten[f]]
        cells = [tuple(p) for p in apos.tolist()]
        for k in range(self.A):
            for a in range(1, 5):
                d = tuple((apos[k] + MOVES[a]).tolist())
                if not self._inside(d):
                    continue
                if d in live or any(j != k and cells[j] == d for j in range(self.A)):
                    continue
                out[k, a] = True
            out[k, LOAD] = any(abs(f[0] - cells[k][0]) + abs(f[1] - cells[k][1]) == 1 for f in live)
        return out

    def legal(self, s):
        apos, _, fpos, _, eaten = self._tab(s)
        return self._legal(apos, fpos, eaten)

    def _step(self, s, a):
        """Rule model of one step -> (new positions, newly eaten flags, loaders per food (A,F) levels, attempts)."""
        apos, alev, fpos, flev, eaten = self._tab(s)
        a = np.asarray(a).reshape(-1).astype(np.int64)
        lg = self._legal(apos, fpos, eaten)
        want = apos.copy()
        for k in range(self.A):
            ak = int(a[k])
            if 1 <= ak <= 4 and lg[k, ak]:
                want[k] = apos[k] + MOVES[ak]
        cells = [tuple(p) for p in want.tolist()]
        npos = apos.copy()
        for k in range(self.A):
            if cells.count(cells[k]) == 1:
                npos[k] = want[k]
        contrib = np.zeros((self.A, self.F), np.int64)
        for f in range(self.F):
            if eaten[f]:
                continue
            for k in range(self.A):
                if int(a[k]) == LOAD and int(np.abs(npos[k] - fpos[f]).sum()) == 1:
                    contrib[k, f] = alev[k]
        tot = contrib.sum(axis=0)
        new = (~eaten) & (tot >= flev) & (tot > 0)
        attempts = (~eaten) & (tot > 0) & (tot < flev)
        return npos, new, contrib, attempts

    def _rewards(self, s, new, contrib):
        _, _, _, flev, _ = self._tab(s)
        total = float(flev.sum())
        r = np.zeros(self.A)
        for f in np.flatnonzero(new):
            share = contrib[:, f].astype(np.float64) * float(flev[f])
            if self.norm:
                share = share / (float(contrib[:, f].sum()) * total)
            r += share
        return r

    # ------------------------------------------------------------------------------------ C04 / C05
    def reacted_invalid(self, s, a, s2, ts2, agent=None):
        k = int(agent)
        a = np.asarray(a).reshape(-1)
        ak = int(a[k])
        apos, _, fpos, _, eaten = self._tab(s)
        apos2, _, _, _, eaten2 = self._tab(s2)
        if ak == 0:
            return None
        if ak == LOAD:
            # a load that achieves nothing looks the same whether it was valid (too weak) or invalid
            rew = np.asarray(ts2.reward, np.float64).reshape(-1)
            new = eaten2 & ~eaten
            near = [f for f in np.flatnonzero(new) if int(np.abs(apos2[k] - fpos[f]).sum()) == 1]
            if near and rew[k] > 0:
                return False
            return None
        if not (apos2[k] == apos[k]).all():
            return False
        d = apos[k] + MOVES[ak]
        for j in range(self.A):
            if j != k and 1 <= int(a[j]) <= 4 and (apos[j] + MOVES[int(a[j])] == d).all():
                return None  # kept in place by the collision rule
        return True

    def check_illegal(self, s, a, s2, ts2, agent=None):
        out = []
        k = int(agent)
        a = np.asarray(a).reshape(-1).copy()
        apos, _, _, _, eaten = self._tab(s)
        apos2, _, _, _, eaten2 = self._tab(s2)
        if not (apos2[k] == apos[k]).all():
            out.append(("illegal action changed the agent's position", f"agent {k}: {apos[k].tolist()} -> {apos2[k].tolist()}"))
        # nothing is eaten on its behalf: the food eaten is what the rules give when the agent does nothing
        b_ = a.copy()
        b_[k] = 0
        _, new, contrib, attempts = self._step(s, b_)
        # one direction only: food that disappears must be explained by the *other* agents' loads (food the
        # others should have eaten but did not is the loading rule of C09, not an effect of the ignored action)
        extra = eaten2 & ~(eaten | new)
        if extra.any():
            out.append(("food was eaten that the other agents' actions do not explain",
                        f"eaten {eaten2.astype(int).tolist()} explained {(eaten | new).astype(int).tolist()}"))
        rew = np.asarray(ts2.reward, np.float64).reshape(-1)
        if rew.shape[0] == self.A and (self.pen == 0 or not attempts.any()):
            if abs(rew[k]) > 1e-6:
                out.append(("ignored illegal action was rewarded", f"agent {k}: reward {rew[k]}"))
        # "the episode continues": LAST is only acceptable when all food is gone or the time limit is reached
        # (the converse - MID although the rules say LAST - is C09/C11's business)
        exp_last = bool(eaten2.all()) or int(s.step_count) + 1 >= self.T
        if int(ts2.step_type) == LAST and not exp_last:
            out.append(("ignored illegal action ended the episode",
                        f"step_type={int(ts2.step_type)} although food is left and the time limit is not reached"))
        return out

    # ------------------------------------------------------------------------------------ C07
    def invariants(self, prev, a, s, ts):
        out = []
        apos, alev, fpos, flev, eaten = self._tab(s)
        for k in range(self.A):
            if not self._inside(apos[k]):
                out.append(("agent outside the grid", f"agent {k}: {apos[k].tolist()}"))
        for f in range(self.F):
            if not self._inside(fpos[f]):
                out.append(("food outside the grid", f"food {f}: {fpos[f].tolist()}"))
        cells = [tuple(p) for p in apos.tolist()]
        if len(set(cells)) != self.A:
            out.append(("two agents on the same cell", str(apos.tolist())))
        live = {tuple(fpos[f].tolist()): f for f in range(self.F) if not eaten[f]}
        for k, c in enumerate(cells):
            if c in live:
                out.append(("agent stands on an uneaten food", f"agent {k} at {list(c)} food {live[c]}"))
        # (the docs only say that an id identifies an entity: uniqueness, not the numbering, is asserted)
        if len(set(np.asarray(s.agents.id).reshape(-1).tolist())) != self.A:
            out.append(("agent ids are not unique", ""))
        if len(set(np.asarray(s.food_items.id).reshape(-1).tolist())) != self.F:
            out.append(("food ids are not unique", ""))
        if prev is not None:
            papos, palev, pfpos, pflev, peaten = self._tab(prev)
            if not np.array_equal(pfpos, fpos) or not np.array_equal(pflev, flev):
                out.append(("food position/level changed during the episode", ""))
            if not np.array_equal(palev, alev):
                out.append(("agent level changed during the episode", f"{palev.tolist()} -> {alev.tolist()}"))
            if (peaten & ~eaten).any():
                out.append(("an eaten food came back", f"{peaten.astype(int).tolist()} -> {eaten.astype(int).tolist()}"))
            # (step_count and "one cell per step" are transition rules - C09 -, not physical consistency)
        return out

    # ------------------------------------------------------------------------------------ C08
    def objective(self, ep):
        """Per-agent return: for every food eaten, level_agent * level_food for the agents that loaded it
        (normalised: divided by the loaders' total level and the total food level, so that the returns of all
        agents add up to eaten level / total level, = 1 when everything was collected)."""
        val = np.zeros(self.A)
        befores = [ep.s0] + list(ep.states[:-1])
        any_attempt = False
        eaten_level = 0.0
        for sb, act, sa in zip(befores, ep.actions, ep.states):
            apos2, alev, fpos, flev, eaten2 = self._tab(sa)
            _, _, _, _, eaten = self._tab(sb)
            act = np.asarray(act).reshape(-1)
            contrib = np.zeros((self.A, self.F), np.int64)
            for f in range(self.F):
                if eaten[f]:
                    continue
                for k in range(self.A):
                    if int(act[k]) == LOAD and int(np.abs(apos2[k] - fpos[f]).sum()) == 1:
                        contrib[k, f] = alev[k]
            tot = contrib.sum(axis=0)
            any_attempt |= bool(((~eaten) & (tot > 0) & (tot < flev)).any())
            new = eaten2 & ~eaten
            for f in np.flatnonzero(new):
                eaten_level += float(flev[f])
                if tot[f] == 0:
                    val += np.nan  # food eaten although nobody loaded it: no documented reward
                    continue
                share = contrib[:, f].astype(np.float64) * float(flev[f])
                if self.norm:
                    share = share / (float(tot[f]) * float(flev.sum()))
                val += share
        if self.pen != 0 and any_attempt:
            return None
        if self.norm and not np.isnan(val).any():
            _, _, _, flev, eaten_end = self._tab(ep.states[-1]) if ep.states else self._tab(ep.s0)
            share = float(flev[eaten_end].sum()) / float(flev.sum())
            assert abs(val.sum() - share) < 1e-9, "model inconsistency: per-agent shares do not add up"
        return val, 1e-5 * max(1, len(ep.actions))

    # ------------------------------------------------------------------------------------ C09
    def predict(self, s, a):
        apos, alev, fpos, flev, eaten = self._tab(s)
        a_ = np.asarray(a).reshape(-1).astype(np.int64)
        npos, new, contrib, attempts = self._step(s, a_)
        eaten2 = eaten | new
        # `agents.loading` is a helper flag the docs do not define (e.g. for a load with no food nearby): not
        # predicted; ids are only documented as identifiers: predicted unchanged, whatever their numbering
        st = {"agents.position": npos, "agents.level": alev,
              "agents.id": np.asarray(s.agents.id), "food_items.position": fpos, "food_items.level": flev,
              "food_items.eaten": eaten2, "food_items.id": np.asarray(s.food_items.id),
              "step_count": int(s.step_count) + 1}
        out = {"state": st, "last": bool(eaten2.all()) or int(s.step_count) + 1 >= self.T}
        if self.pen == 0 or not attempts.any():
            out["reward"] = self._rewards(s, new, contrib)
        elif self.pen > 0 and not new.any():
            # the least a "penalty value" can mean (source comment: "penalize agents for not being able to cooperate
            # and eat food"): a step whose only load attempts fall short of the food's level, under a positive
            # penalty, pays somebody a negative reward - whatever the normalisation
            pen = self.pen
            out["reward_check"] = lambda r: None if (np.asarray(r, np.float64) < 0).any() else \
                f"under-levelled load attempt with penalty={pen}, nothing eaten, yet no agent is penalised: reward {np.asarray(r).tolist()}"
        return out


    # ------------------------------------------------------------------------------------ plan bias
    def solve_action(self, s, r=0, eager=False, pick=None):
        """Joint action of a greedy forager (used by the 'solve' plan mode / synthetic C09 episodes): the agents
        walk to distinct free cells next to one uneaten food and load it together once the levels of the agents
        standing next to it suffice (eager=True: load as soon as adjacent, which also produces under-levelled
        attempts).  The food is the one closest to the agents (stable from step to step; the plan's per-step
        `r` is deliberately not used for it) unless `pick` selects the pick-th uneaten food."""
        apos, alev, fpos, flev, eaten = self._tab(s)
        act = np.zeros(self.A, np.int64)
        todo = np.flatnonzero(~eaten)
        if todo.size == 0:
            return act
        if pick is not None:
            f = int(todo[int(pick) % todo.size])
        else:
            f = int(min(todo, key=lambda i: (int(np.abs(apos - fpos[i]).sum()), int(i))))
        food = tuple(fpos[f].tolist())
        cells = [tuple(p) for p in apos.tolist()]
        live = {tuple(fpos[i].tolist()) for i in todo}
        near = [k for k in range(self.A) if abs(cells[k][0] - food[0]) + abs(cells[k][1] - food[1]) == 1]
        ready = sum(int(alev[k]) for k in near) >= int(flev[f])
        ring = {q for q in ((food[0] - 1, food[1]), (food[0] + 1, food[1]), (food[0], food[1] - 1), (food[0], food[1] + 1))
                if self._inside(q) and q not in live and q not in cells}
        # patient variant (foods on even cells): nobody loads before every side of the food that can be occupied is
        # occupied - up to four agents load the same food in the same step
        if (food[0] + food[1]) % 2 == 0 and not eager and ring and len(near) < self.A:
            reachable = any(bfs_first_step(lambda q: self._inside(q) and q not in live and q not in cells,
                                           cells[k], ring) is not None for k in range(self.A) if k not in near)
            if reachable:
                ready = False
        claimed = set()
        for k in range(self.A):
            if k in near:
                act[k] = LOAD if (ready or eager) else 0
                continue
            if ready:
                continue
            nxt = bfs_first_step(lambda q: self._inside(q) and q not in live and q not in cells and q not in claimed,
                                 cells[k], ring - claimed)
            if nxt is None or nxt in claimed:
                continue
            claimed.add(nxt)
            act[k] = _CODE[(nxt[0] - cells[k][0], nxt[1] - cells[k][1])]
        return act

    def crowd_step(self, s, episode_seed, r=0):
        """Driver hook for the 'crowd' plan mode: one hub cell per episode (derived from the reset key)."""
        hub = ((int(episode_seed[0]) + 3) % self.G, (int(episode_seed[1]) + 5) % self.G)
        if r % 3 == 1:
            # jostling: every agent steps towards the nearest other agent, legal or not - clusters of three produce the
            # chains "A into B's cell while B's own move is contested / blocked"
            apos = self._tab(s)[0]
            act = np.zeros(self.A, np.int64)
            for k in range(self.A):
                others = [j for j in range(self.A) if j != k]
                if not others:
                    continue
                j = min(others, key=lambda j: (abs(int(apos[j][0] - apos[k][0])) + abs(int(apos[j][1] - apos[k][1])), (j + r) % self.A))
                dr, dc = int(apos[j][0] - apos[k][0]), int(apos[j][1] - apos[k][1])
                if abs(dr) >= abs(dc) and dr != 0:
                    act[k] = _CODE[(1 if dr > 0 else -1, 0)]
                elif dc != 0:
                    act[k] = _CODE[(0, 1 if dc > 0 else -1)]
            return act
        act = np.asarray(self.crowd_action(s, hub), np.int64).copy()
        if r % 2 == 0:
            # tailgating: one agent that stands next to another agent steps into that agent's cell (a masked-out
            # move) while the others keep crowding - the chain "A into B's cell while B's own move is contested"
            apos = self._tab(s)[0]
            order = [(k + r // 2) % self.A for k in range(self.A)]
            for k in order:
                for j in range(self.A):
                    d = (int(apos[j][0] - apos[k][0]), int(apos[j][1] - apos[k][1]))
                    if j != k and d in _CODE:
                        act[k] = _CODE[d]
                        return act
        return act

    def crowd_action(self, s, hub):
        """Adversarial policy: agents gather around a free cell `hub` and enter it in the same step (collision
        of up to four agents, all of which must keep their positions)."""
        apos, alev, fpos, flev, eaten = self._tab(s)
        act = np.zeros(self.A, np.int64)
        cells = [tuple(p) for p in apos.tolist()]
        live = {tuple(fpos[i].tolist()) for i in np.flatnonzero(~eaten)}
        hub = (int(hub[0]) % self.G, int(hub[1]) % self.G)
        if hub in live or hub in cells:
            return self.solve_action(s)
        near = [k for k in range(self.A) if abs(cells[k][0] - hub[0]) + abs(cells[k][1] - hub[1]) == 1]
        if len(near) >= min(3, self.A):
            for k in near:
                act[k] = _CODE[(hub[0] - cells[k][0], hub[1] - cells[k][1])]
            return act
        ring = {q for q in ((hub[0] - 1, hub[1]), (hub[0] + 1, hub[1]), (hub[0], hub[1] - 1), (hub[0], hub[1] + 1))
                if self._inside(q) and q not in live and q not in cells}
        claimed = set()
        for k in range(self.A):
            if k in near:
                continue
            nxt = bfs_first_step(lambda q: self._inside(q) and q not in live and q not in cells and q != hub and q not in claimed,
                                 cells[k], ring - claimed)
            if nxt is None or nxt in claimed:
                continue
            claimed.add(nxt)
            act[k] = _CODE[(nxt[0] - cells[k][0], nxt[1] - cells[k][1])]
        return act

    # ------------------------------------------------------------------------------------ C10
    def validate_instance(self, s0):
        out = []
        apos, alev, fpos, flev, eaten = self._tab(s0)
        for k in range(self.A):
            if not self._inside(apos[k]):
                out.append(("agent outside the grid", f"agent {k}: {apos[k].tolist()}"))
        acells = [tuple(p) for p in apos.tolist()]
        fcells = [tuple(p) for p in fpos.tolist()]
        if len(set(acells)) != self.A:
            dup = sorted({c for c in acells if acells.count(c) > 1})
            out.append(("two agents start on the same cell", f"cells {dup}"))
        if len(set(fcells)) != self.F:
            out.append(("two food items on the same cell", str(fpos.tolist())))
        both = sorted(set(acells) & set(fcells))
        if both:
            out.append(("an agent starts on a food cell", f"cells {both}; food {fpos.tolist()}"))
        for f in range(self.F):
            if not (1 <= fpos[f][0] <= self.G - 2 and 1 <= fpos[f][1] <= self.G - 2):
                out.append(("food on the edge of the grid (or outside)", f"food {f}: {fpos[f].tolist()}"))
        for f in range(self.F):
            for g in range(f + 1, self.F):
                if int(np.abs(fpos[f] - fpos[g]).sum()) == 1:
                    out.append(("two food items are adjacent", f"{fpos[f].tolist()} {fpos[g].tolist()}"))
        if alev.min() < 1 or alev.max() > self.max_level:
            out.append(("agent level outside 1..max_agent_level", str(alev.tolist())))
        # How food levels are derived from the agents' levels ("sum of the three lowest", force_coop) is only a
        # source comment, not an advertised invariant: only "a level is a positive number" is asserted.
        if flev.min() < 1:
            out.append(("food level below 1", f"food {flev.tolist()}"))
        # every food must be loadable at all (the instance admits the documented complete ending "all food items have
        # been eaten"): a food has four sides, so at most the four strongest agents can load it together
        best4 = int(np.sort(alev)[::-1][:4].sum())
        if flev.max() > best4:
            out.append(("a food item can never be loaded (level above the four strongest agents together)",
                        f"agent levels {alev.tolist()} food levels {flev.tolist()}"))
        if eaten.any():
            out.append(("food eaten at reset", ""))
        # (agents.loading, step_count and the numbering of ids are not instance invariants: not asserted)
        if len(set(np.asarray(s0.agents.id).reshape(-1).tolist())) != self.A or \
                len(set(np.asarray(s0.food_items.id).reshape(-1).tolist())) != self.F:
            out.append(("entity ids are not unique", ""))
        return out

    # ------------------------------------------------------------------------------------ C12
    def _vector_view(self, k, apos, alev, fpos, flev, eaten):
        origin = np.maximum(apos[k] - self.fov, 0)  # top-left corner of the (grid-clipped) view window

        def triple(p, lvl, visible):
            if not visible:
                return [-1, -1, 0]
            return [int(p[0] - origin[0]), int(p[1] - origin[1]), int(lvl)]

        def sees(p):
            return bool((np.abs(p - apos[k]) <= self.fov).all())

        v = []
        for f in range(self.F):
            v += triple(fpos[f], flev[f], sees(fpos[f]) and not eaten[f])
        v += triple(apos[k], alev[k], True)
        for j in range(self.A):
            if j != k:
                v += triple(apos[j], alev[j], sees(apos[j]))
        return np.asarray(v, np.int64)

    def _grid_view(self, k, apos, alev, fpos, flev, eaten):
        n = 2 * self.fov + 1
        agents = np.zeros((self.G, self.G), np.int64)
        food = np.zeros((self.G, self.G), np.int64)
        for j in range(self.A):
            agents[apos[j][0], apos[j][1]] += alev[j]
        for f in range(self.F):
            if not eaten[f]:
                food[fpos[f][0], fpos[f][1]] += flev[f]
        view = np.zeros((3, n, n), np.int64)
        for i in range(n):
            for j in range(n):
                r, c = apos[k][0] - self.fov + i, apos[k][1] - self.fov + j
                if 0 <= r < self.G and 0 <= c < self.G:
                    view[0, i, j] = agents[r, c]
                    view[1, i, j] = food[r, c]
                    view[2, i, j] = int(agents[r, c] == 0 and food[r, c] == 0)
        return view

    def observe_check(self, s, obs):
        out = []
        apos, alev, fpos, flev, eaten = self._tab(s)
        if int(obs.step_count) != int(s.step_count):
            out.append(("step_count differs from the state", f"{int(obs.step_count)} vs {int(s.step_count)}"))
        if not all(self._inside(p) for p in apos) or not all(self._inside(p) for p in fpos):
            return out
        got_m = np.asarray(obs.action_mask).astype(bool)
        want_m = self._legal(apos, fpos, eaten)
        if got_m.shape != want_m.shape or not np.array_equal(got_m, want_m):
            out.append(("action_mask is not the legal set of the state shown", f"obs {got_m.astype(int).tolist()} rules {want_m.astype(int).tolist()}"))
        view = np.asarray(obs.agents_view).astype(np.int64)
        for k in range(self.A):
            if self.grid_obs:
                want = self._grid_view(k, apos, alev, fpos, flev, eaten)
                if view.shape != (self.A, 3, 2 * self.fov + 1, 2 * self.fov + 1):
                    return out + [("agents_view shape", str(view.shape))]
                for layer, name in enumerate(("agent", "food", "access")):
                    if not np.array_equal(view[k, layer], want[layer]):
                        out.append((f"grid observer: {name} layer differs from the state",
                                    f"agent {k} at {apos[k].tolist()}: obs {view[k, layer].tolist()} expected {want[layer].tolist()}"))
            else:
                want = self._vector_view(k, apos, alev, fpos, flev, eaten)
                if view.shape != (self.A, 3 * (self.A + self.F)):
                    return out + [("agents_view shape", str(view.shape))]
                if not np.array_equal(view[k], want):
                    part = "food" if not np.array_equal(view[k, :3 * self.F], want[:3 * self.F]) else (
                        "self" if not np.array_equal(view[k, 3 * self.F:3 * self.F + 3], want[3 * self.F:3 * self.F + 3]) else "other agents")
                    out.append((f"vector observer: {part} entries differ from the state",
                                f"agent {k} at {apos[k].tolist()} fov {self.fov}: obs {view[k].tolist()} expected {want.tolist()}"))
        return out


# ------------------------------------------------------------------------------------------ C10 extras
def _dense(grid, agents, food, fov, max_level=2, coop=False):
    def make():
        from jumanji.environments.routing.lbf import LevelBasedForaging
        from jumanji.environments.routing.lbf.generator import RandomGenerator

        return LevelBasedForaging(generator=RandomGenerator(grid_size=grid, num_agents=agents, num_food=food, fov=fov,
                                                            max_agent_level=max_level, force_coop=coop))
    return make


EXTRA_INSTANCE_CONFIGS = {
    # dense corners accepted by the constructor's asserts ((grid-2)^2 - agents > 5 * food)
    "dense-g10a48f3": _dense(10, 48, 3, 2),
    "dense-g7a10f2": _dense(7, 10, 2, 7, max_level=3, coop=True),
    "dense-g5a3f1": _dense(5, 3, 1, 1),
}


# ------------------------------------------------------------------------------------------ C09 synthetic
# Random play hardly ever eats food that needs two loaders and never clears a grid, so the synthetic shard plays
# menu configurations with the greedy forager (joint loads, episodes ending with all food eaten), its eager
# variant (under-levelled attempts) and the 'crowd' policy (three agents entering one cell), with
# Hypothesis-drawn deviations, against the real env under the generic C09 monitor.
SYNTHETIC_SHARDS = {"quick": 1, "thorough": 2}
_SYN_ENTRIES = ["g6a2f2v2l2cVNp0t100", "g8a3f3v3l3nGRp5t100", "g8a2f2v8l2cVNp0t100", "g8a3f3v3l3nVNp5t2"]


def _syn_policy(model, mode, noise):
    def policy(hs, t):
        z = noise[t % len(noise)]
        if mode == "crowd" and t < 3 * model.G:
            act = model.crowd_action(hs, (noise[0], noise[1]))
        else:
            act = model.solve_action(hs, eager=(mode == "eager"), pick=noise[0])
        if z % 7 == 0:  # deviation: one agent plays an arbitrary action
            act[z % model.A] = (z // 7) % 6
        return act
    return policy


def _syn_episode(b, ctx, model, key, policy, max_steps, extra):
    from vf import envs, episodes
    from vf import modelprops as mp

    rec = episodes.Recorder(ctx, b, key, extra=extra)
    mon = mp.C09Mon(b, ctx, model)
    st_, ts = b.reset(envs.make_key(key))
    hs, hts = episodes.host((st_, ts))
    for t in range(max_steps):
        a = b.to_action(policy(hs, t))
        rec.actions.append(a)
        nst, nts = b.step(st_, a)
        hn, hnt = episodes.host((nst, nts))
        mon.on_step(rec, t, hs, hts, a, hn, hnt, False)
        apos = model._tab(hs)[0]
        lg = model.legal(hs)
        dest = [tuple((apos[k] + MOVES[int(a[k])]).tolist()) for k in range(model.A) if 1 <= int(a[k]) <= 4 and lg[k, int(a[k])]]
        worst = max([dest.count(d) for d in dest], default=0)
        if worst >= 2:
            ctx.count("synthetic_collision_steps")
        if worst >= 3:
            ctx.count("synthetic_collisions_of_3_or_more")
        _, new, contrib, attempts = model._step(hs, a)
        if new.any():
            ctx.count("synthetic_food_eaten_steps")
            if ((contrib > 0).sum(axis=0)[new] >= 2).any():
                ctx.count("synthetic_food_eaten_by_several_agents")
        if attempts.any():
            ctx.count("synthetic_underlevelled_attempt_steps")
        st_, ts, hs, hts = nst, nts, hn, hnt
        if int(hnt.step_type) == LAST:
            if np.asarray(hn.food_items.eaten).all():
                ctx.count("synthetic_episodes_all_food_eaten")
            return


def synthetic_c09(ctx, item, seed, tier):
    from vf import envs, episodes, hyp
    from vf.hyp import st

    shard, shards = item.get("shard", 0), item.get("shards", 1)
    for i, entry in enumerate(_SYN_ENTRIES):
        if i % shards != shard:
            continue
        b = envs.bundle("LevelBasedForaging", entry)
        model = M(b)

        def one(key, mode, noise, b=b, model=model, entry=entry):
            extra = {"synthetic": True, "config": entry}
            _syn_episode(b, ctx, model, key, _syn_policy(model, mode, noise), model.T + 1, extra)
            ctx.count("synthetic_episodes")

        hyp.drive({"key": episodes.keys(), "mode": st.sampled_from(["solve", "solve", "eager", "crowd"]),
                   "noise": st.lists(st.integers(0, 2**16), min_size=4, max_size=24)},
                  one, seed + 991 * (i + 1), 8 if tier == "quick" else 60)


def synthetic_replay(case):
    from vf import envs, episodes
    from vf import modelprops as mp
    from vf.runner import Ctx

    ctx = Ctx("C09", {})
    b = envs.bundle("LevelBasedForaging", case["config"])
    rec = episodes.Recorder(ctx, b, case["key"], extra={"synthetic": True, "config": case["config"]})
    episodes.run_actions(b, rec, case["actions"], mp.C09Mon(b, ctx, M(b)))
    return [(f["oracle"], f["sig"], f["msg"]) for f in ctx.failures.values()]

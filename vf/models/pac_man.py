"""PacMan reference model (from docs/environments/pac_man.md and the class docstring).

Coordinates (validated, DESIGN 2.7): `grid[x, y]` is 1 on free cells and 0 on walls, with
`player_locations = Position(x=row, y=column)`, whereas the rows of `ghost_locations`,
`pellet_locations` and `power_up_locations` are (column, row) pairs, i.e. a ghost g stands on
`grid[g[1], g[0]]`.  The map wraps around (tunnel row).
Actions 0..3 move the player by one cell, 4 is the no-op; "if an invalid action is taken, or an
action is blocked by a wall, a no-op is performed and the agent's position remains unchanged".
The documentation names the four directions in two different orders ("up, left, right, down" in the
prose, "[up, right, down, left]" in the Action section); neither is used as an oracle here: the
direction vectors below are the ones for which "mask entry True <=> the move changes the position"
holds (DESIGN 2.7), i.e. 0: row-1, 1: column-1, 2: row+1, 3: column+1.  What C04 asserts is the
documented *meaning* of the mask - "the way is not blocked by a wall" - for those vectors.
"Pellets are removed from the map after being collected": how a removed row is encoded is not documented
(the code blanks it to (0, 0), a wall cell), so a row counts as a live pellet iff it lies on a free cell of
the map - true for real pellets, false for any sentinel that is a wall cell or outside the grid.
"""
from __future__ import annotations

import numpy as np

from vf.models.base import Model

# (d_row, d_col) per action
MOVES = [(-1, 0), (0, -1), (1, 0), (0, 1)]


# "The generator can be used to generate new maps based on an ASCII representation of the desired
# map": a small non-square hand-made map (4 ghosts G, 4 initial targets T, 4 scatter targets S,
# 4 power-ups O, player P, a wrap-around tunnel row) for the instance validator (C10) only.
SMALL_MAZE = [
    "XXXXXXXXXXXXX",
    "XS    T    SX",
    "X XXX X XXX X",
    "XO   G G   OX",
    "X XXX X XXX X",
    "    T P T    ",
    "X XXX X XXX X",
    "XO   G G   OX",
    "X XXX X XXX X",
    "XS    T    SX",
    "XXXXXXXXXXXXX",
]


def _small_env():
    import jumanji.environments as E
    from jumanji.environments.routing.pac_man.generator import AsciiGenerator

    return E.PacMan(generator=AsciiGenerator(SMALL_MAZE))


EXTRA_INSTANCE_CONFIGS = {"ascii_11x13": _small_env}


class M(Model):
    ENV = "PacMan"
    # AsciiGenerator is documented as deterministic: the same map on every reset
    DETERMINISTIC_CONFIGS = ("tNone", "t7", "t3", "t1", "t40", "ascii_11x13", "small30", "small200", "tunnel60", "tunnel120", "tall90")

    def __init__(self, b):
        super().__init__(b)
        e = b.env
        self.X, self.Y, self.T = int(e.x_size), int(e.y_size), int(e.time_limit)

    # ------------------------------------------------------------------ helpers
    @staticmethod
    def _player(s):
        return int(s.player_locations.x), int(s.player_locations.y)  # (row, col)

    def _inside(self, r, c):
        return 0 <= r < self.X and 0 <= c < self.Y

    def _target(self, s, a):
        r, c = self._player(s)
        dr, dc = MOVES[int(a)]
        return (r + dr) % self.X, (c + dc) % self.Y

    def _usable(self, s):
        return np.asarray(s.grid).shape == (self.X, self.Y) and self._inside(*self._player(s))

    def _live_mask(self, s, rows):
        """rows (column, row) that are still on the map = on a free in-grid cell (sentinel-agnostic)."""
        rows = np.asarray(rows).astype(np.int64).reshape(-1, 2)
        grid = np.asarray(s.grid)
        ok = (rows[:, 1] >= 0) & (rows[:, 1] < self.X) & (rows[:, 0] >= 0) & (rows[:, 0] < self.Y)
        out = np.zeros(len(rows), bool)
        if grid.shape == (self.X, self.Y):
            out[ok] = grid[rows[ok, 1], rows[ok, 0]] == 1
        return out

    def _live(self, s, rows):
        rows = np.asarray(rows).astype(np.int64).reshape(-1, 2)
        return rows[self._live_mask(s, rows)]

    # ------------------------------------------------------------------ C04 / C05
    def legal(self, s):
        out = np.zeros(5, bool)
        if not self._usable(s):
            return out
        grid = np.asarray(s.grid)
        for a in range(4):
            out[a] = grid[self._target(s, a)] == 1
        out[4] = True  # not asserted (mask_guard): a no-op is always executable
        return out

    def solve_action(self, s, r=0):
        """Driver hook ('solve' plan mode): first move of a shortest path (with wrap-around) to the nearest pellet or
        power-up that keeps clear of the ghosts' cells and their neighbours; None when there is none -> legal
        fallback.  r only breaks ties between equally short first moves."""
        from collections import deque

        if not self._usable(s):
            return None
        grid = np.asarray(s.grid)
        goals = {(int(q[1]), int(q[0])) for q in self._live(s, s.pellet_locations)}
        goals |= {(int(q[1]), int(q[0])) for q in self._live(s, s.power_up_locations)}
        if not goals:
            return None
        danger = set()
        if int(np.asarray(s.frightened_state_time)) <= 1:
            for g in np.asarray(s.ghost_locations).astype(int).reshape(-1, 2):
                gr, gc = int(g[1]), int(g[0])
                danger.add((gr, gc))
                for dr, dc in MOVES:
                    danger.add(((gr + dr) % self.X, (gc + dc) % self.Y))
        start = self._player(s)
        order = [(int(r) + i) % 4 for i in range(4)]
        seen = {start: None}
        dq = deque([start])
        while dq:
            cur = dq.popleft()
            if cur in goals and cur != start:
                while seen[cur][0] != start:
                    cur = seen[cur][0]
                return seen[cur][1]
            for a in order:
                dr, dc = MOVES[a]
                nxt = ((cur[0] + dr) % self.X, (cur[1] + dc) % self.Y)
                if nxt in seen or grid[nxt] != 1 or nxt in danger:
                    continue
                seen[nxt] = (cur, a)
                dq.append(nxt)
        return None

    # ---- C11: the episode ends when the "agent has collected all pellets", "touches a ghost" or at the limit
    def early_end_explained(self, states, actions):
        s = states[-1]
        if len(self._live(s, s.pellet_locations)) == 0:
            return True
        # a ghost contact kills the player only when the ghosts are not frightened: while the state the move was made
        # from still shows steps of scatter mode left (`frightened_state_time` > 0) the ghost is eaten instead
        prev = states[-2] if len(states) >= 2 else None
        return bool(s.dead) and (prev is None or int(prev.frightened_state_time) <= 0)

    def mask_guard(self, s):
        # entry 4 (no-op) is hard-wired to False although a no-op is executable; the docs define the
        # mask only through wall blocking, so "legal" is undefined for it
        return np.array([False, False, False, False, True])

    def reacted_invalid(self, s, a, s2, ts2, agent=None):
        if int(a) >= 4:
            return None
        return self._player(s) == self._player(s2)

    def check_illegal(self, s, a, s2, ts2, agent=None):
        out = []
        here = self._player(s)
        if self._player(s2) != here:
            out.append(("player moved on an illegal action", f"{here} -> {self._player(s2)}"))
        if not np.array_equal(np.asarray(s.grid), np.asarray(s2.grid)):
            out.append(("maze changed on an illegal action", ""))
        # nothing is eaten on behalf of the ignored move: the only pellet / power-up that may
        # disappear is the one on the cell the player is (still) standing on
        me = np.array([here[1], here[0]])  # (column, row)
        eaten = {}
        for name in ("pellet_locations", "power_up_locations"):
            p, q = np.asarray(getattr(s, name)).reshape(-1, 2), np.asarray(getattr(s2, name)).reshape(-1, 2)
            if p.shape != q.shape:
                out.append((f"{name} changed shape", f"{p.shape} -> {q.shape}"))
                eaten[name] = 0
                continue
            diff = (p != q).any(axis=1)
            eaten[name] = int(diff.sum())
            foreign = diff & ~(p == me).all(axis=1)
            if foreign.any():
                out.append((f"{name}: something was eaten away from the stationary player",
                            f"player (col,row)={me.tolist()} rows {p[foreign][:3].tolist()} -> {q[foreign][:3].tolist()}"))
            # a changed row must have left the map (how it is blanked is not documented)
            if (diff & self._live_mask(s2, q)).any():
                out.append((f"{name}: a row was rewritten to another live cell instead of removed", f"{q[diff][:3].tolist()}"))
        # nothing eaten -> the pellet counter must not move ("tracking the number of pellets"); its exact
        # bookkeeping when something *is* eaten under the stationary player is C07's consistency check
        if eaten["pellet_locations"] == 0 and int(s.pellets) != int(s2.pellets):
            out.append(("pellet counter moved although no pellet left the map",
                        f"pellets {int(s.pellets)} -> {int(s2.pellets)}"))
        # reward = 10 per pellet under the player (+200 per frightened ghost that ran into it: world dynamics,
        # not the ignored move).  With a power-up under the stationary player the docs (20) and the code
        # disagree on the value: not judged then.  The step counter is not part of the documented effect.
        if eaten["power_up_locations"] == 0:
            rest = float(ts2.reward) - 10.0 * eaten["pellet_locations"]
            if not any(abs(rest - 200.0 * k) < 1e-4 for k in range(5)):
                out.append(("reward of an ignored move is not explained by the cell under the player",
                            f"reward={float(ts2.reward)} pellets eaten={eaten['pellet_locations']}"))
        return out

    # ------------------------------------------------------------------ C07
    def invariants(self, prev, a, s, ts):
        out = []
        grid = np.asarray(s.grid)
        if grid.shape != (self.X, self.Y):
            return [("grid shape", str(grid.shape))]
        r, c = self._player(s)
        if not self._inside(r, c):
            out.append(("player outside the grid", f"(row,col)=({r},{c})"))
        elif grid[r, c] != 1:
            out.append(("player inside a wall", f"(row,col)=({r},{c})"))
        ghosts = np.asarray(s.ghost_locations).astype(np.int64).reshape(-1, 2)
        if ghosts.shape[0] != 4:
            out.append(("number of ghosts is not 4", str(ghosts.shape)))
        for i, (gc, gr) in enumerate(ghosts):  # rows are (column, row)
            if not self._inside(gr, gc):
                out.append(("ghost outside the grid", f"ghost {i} (col,row)=({gc},{gr})"))
            elif grid[gr, gc] != 1:
                out.append(("ghost inside a wall", f"ghost {i} (col,row)=({gc},{gr})"))
        live = self._live(s, s.pellet_locations)  # rows on free cells of the map (sentinel-agnostic)
        if int(s.pellets) != len(live):
            out.append(("pellet counter != number of live pellet rows", f"pellets={int(s.pellets)} live rows={len(live)}"))
        if len(live) and len(np.unique(live, axis=0)) != len(live):
            out.append(("duplicate live pellet rows", ""))
        if prev is None:
            # (prev is None also for a deep start, whose timestep is MID: the score of a reset state only)
            if ts is not None and int(ts.step_type) == 0 and int(s.score) != 0:
                out.append(("initial score != 0", str(int(s.score))))
        else:
            if not np.array_equal(np.asarray(prev.grid), grid):
                out.append(("maze changed", ""))
            # score == running sum of rewards  <=>  score_t = score_{t-1} + reward_t, score_0 = 0
            if ts is not None and abs((int(s.score) - int(prev.score)) - float(ts.reward)) > 1e-4:
                out.append(("score is not the running sum of rewards",
                            f"score {int(prev.score)} -> {int(s.score)} reward {float(ts.reward)}"))
            # (step_count, "counter drops by at most 1" and "one cell per step" are transition rules, not
            # physical consistency: not asserted under C07)
            # the pellet on the cell the player now occupies has been collected
            if self._inside(r, c) and len(live) and (live == np.array([c, r])).all(axis=1).any():
                out.append(("player stands on a live pellet after the step", f"(row,col)=({r},{c})"))
        return out

    # ------------------------------------------------------------------ C10
    def validate_instance(self, s0):
        out = []
        grid = np.asarray(s0.grid)
        if grid.shape != (self.X, self.Y):
            return [("grid shape", str(grid.shape))]
        if not np.isin(grid, (0, 1)).all():
            out.append(("grid holds a value other than 0/1", str(np.unique(grid).tolist())))
        r, c = self._player(s0)
        if not self._inside(r, c) or grid[r, c] != 1:
            out.append(("player does not start on a free cell", f"(row,col)=({r},{c})"))
        ghosts = np.asarray(s0.ghost_locations).astype(np.int64).reshape(-1, 2)
        if ghosts.shape[0] != 4:
            out.append(("number of ghosts is not 4", str(ghosts.shape)))
        for i, (gc, gr) in enumerate(ghosts):
            if not self._inside(gr, gc) or grid[gr, gc] != 1:
                out.append(("ghost does not start on a free cell", f"ghost {i} (col,row)=({gc},{gr})"))
            if (gr, gc) == (r, c):
                out.append(("ghost starts on the player", f"ghost {i}"))
        if len(np.unique(ghosts, axis=0)) != len(ghosts):
            out.append(("ghosts do not start on distinct cells", str(ghosts.tolist())))
        pel = np.asarray(s0.pellet_locations).astype(np.int64).reshape(-1, 2)
        if int(s0.pellets) != len(pel):
            out.append(("pellet counter != number of pellet rows", f"{int(s0.pellets)} vs {len(pel)}"))
        if len(np.unique(pel, axis=0)) != len(pel):
            out.append(("duplicate pellet rows", ""))
        bad = [cr.tolist() for cr in pel if not self._inside(cr[1], cr[0]) or grid[cr[1], cr[0]] != 1]
        if bad:
            out.append(("pellet on a wall or outside the grid", f"(col,row) {bad[:3]}"))
        pu = np.asarray(s0.power_up_locations).astype(np.int64).reshape(-1, 2)
        if pu.shape[0] != 4 or len(np.unique(pu, axis=0)) != len(pu):
            out.append(("power-ups are not 4 distinct cells", str(pu.tolist())))
        bad = [cr.tolist() for cr in pu if not self._inside(cr[1], cr[0]) or grid[cr[1], cr[0]] != 1]
        if bad:
            out.append(("power-up on a wall or outside the grid", f"(col,row) {bad[:3]}"))
        # (step_count / score / frightened_state_time are not invariants of the generated map: not asserted here)
        if bool(s0.dead):
            out.append(("player starts dead", ""))
        return out

    # ------------------------------------------------------------------ C12
    def observe_check(self, s, obs):
        out = []
        for name in ("grid", "ghost_locations", "power_up_locations", "pellet_locations"):
            if not np.array_equal(np.asarray(getattr(obs, name)), np.asarray(getattr(s, name))):
                out.append((f"{name} differs from the state", ""))
        if (int(obs.player_locations.x), int(obs.player_locations.y)) != self._player(s):
            out.append(("player_locations differs from the state",
                        f"{(int(obs.player_locations.x), int(obs.player_locations.y))} vs {self._player(s)}"))
        for name in ("frightened_state_time", "score"):
            if int(getattr(obs, name)) != int(getattr(s, name)):
                out.append((f"{name} differs from the state", f"{int(getattr(obs, name))} vs {int(getattr(s, name))}"))
        m = np.asarray(obs.action_mask).astype(bool)
        if m.shape != (5,):
            out.append(("action_mask shape", str(m.shape)))
        elif self._usable(s):
            want = self.legal(s)
            if not np.array_equal(m[:4], want[:4]):
                out.append(("action_mask (entries 0-3) is not the legal set of the state shown",
                            f"obs {m[:4].astype(int).tolist()} rules {want[:4].astype(int).tolist()}"))
        return out

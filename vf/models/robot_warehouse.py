"""RobotWarehouse reference model (from docs/environments/robot_warehouse.md, the class docstring of
`RobotWarehouse`, the docstrings of types.py / utils.py `is_valid_action`,
`calculate_num_observation_features`, `get_agent_view`).

Documented rules used here
* Grid: height (column_height+1)*shelf_rows+2, width 3*shelf_columns+1.  Columns c%3==0 and rows
  r%(column_height+1)==0 are aisles ("highways"), the last row holds the two goal cells in its middle
  two columns, the middle cluster of the bottom shelf row is removed.  Every remaining cell is a
  shelf location and initially holds one shelf.  Position.x is the row, Position.y the column.
* Actions per agent: 0 noop (no operation), 1 forward (one cell in the facing direction; UP=0 is
  row-1, RIGHT=1 col+1, DOWN=2 row+1, LEFT=3 col-1), 2 turn left (direction-1 mod 4), 3 turn right,
  4 toggle load (pick up the shelf on the agent's cell / put a carried shelf down where the cell is
  not a highway).  A carried shelf moves with its agent.
* Mask: the only documented illegal action is `forward` while carrying a shelf into a (different)
  cell that holds a shelf (`is_valid_action` docstring).  Forward against the grid border is *not*
  documented as illegal (the move is clamped, the agent stays) and forward into another agent is
  legal but ends the episode (collision) - so both are legal here, and the environment's reaction
  to a border-forward is undecidable (indistinguishable from an ignored move).
* Invalid actions: the code comment / property C05 say they are turned into no-ops (ignored) - the
  md page says "terminates", the class docstring does not; the fixed property statement lists
  RobotWarehouse under ignore-invalid, which is what is checked.
* Termination: time limit, or two agents collide.  Which agent "collides" when one agent enters a
  cell that another agent leaves in the same step is not defined by the docs (the code flags it
  only when the lower id follows the higher id): such steps are left undecided.
* Reward: +1 per requested shelf that is delivered to (stands on) a goal cell in this step; the
  delivered shelf leaves the request queue and a shelf that was not in the queue is requested.
* Observation per agent (sensor range R, window (2R+1)^2 row-major, zero outside the grid):
  [x, y, is_carrying, onehot(direction,4), on_highway] + for every window cell other than the
  agent's own: [agent present, onehot(direction of that agent,4)] + for every window cell
  (own included): [shelf present, shelf requested].
"""
from __future__ import annotations

import numpy as np

from vf.models.base import Model

DIRS = [(-1, 0), (0, 1), (1, 0), (0, -1)]
NOOP, FORWARD, LEFT, RIGHT, TOGGLE = 0, 1, 2, 3, 4
LAST = 2


def documented_layout(shelf_rows, shelf_columns, column_height):
    """-> (H, W, bool array of shelf locations, goal cells [(row, col)]) from the class docstring."""
    H = (column_height + 1) * shelf_rows + 2
    W = 3 * shelf_columns + 1
    loc = np.zeros((H, W), bool)
    for r in range(H):
        for c in range(W):
            if c % 3 == 0 or r % (column_height + 1) == 0 or r >= H - 1:
                continue
            bottom_row = r > (column_height + 1) * (shelf_rows - 1)
            if bottom_row and c // 3 == shelf_columns // 2:
                continue  # removed middle cluster in front of the goals
            loc[r, c] = True
    goals = [(H - 1, W // 2 - 1), (H - 1, W // 2)]
    return H, W, loc, goals


class M(Model):
    ENV = "RobotWarehouse"
    # "The episode terminates if two agents collide": a conflict between two robots ends the episode, it never
    # cancels one robot's (masked-in) move - every masked-in action of a joint action is carried out
    JOINT_REACTION = True
    EPISODE_CAP = 520

    def __init__(self, b):
        super().__init__(b)
        env = b.env
        gen = getattr(env, "_generator", None)
        if gen is not None and all(hasattr(gen, n) for n in ("shelf_rows", "shelf_columns", "column_height")):
            self.sr, self.sc, self.ch = int(gen.shelf_rows), int(gen.shelf_columns), int(gen.column_height)
        else:  # constructor arguments of the menu entry (no dependence on a private attribute name)
            self.sr, self.sc, self.ch = (int(b.meta[n]) for n in ("shelf_rows", "shelf_cols", "col_height"))
        self.H, self.W, self.shelf_loc, self.goals = documented_layout(self.sr, self.sc, self.ch)
        self.highway = ~self.shelf_loc
        self.A = int(env.num_agents)
        self.R = int(env.sensor_range)
        self.Q = int(env.request_queue_size)
        self.T = int(env.time_limit)
        self.S = int(self.shelf_loc.sum())

    # ------------------------------------------------------------------------------- raw access
    def _agents(self, s):
        pos = np.stack([np.asarray(s.agents.position.x, np.int64), np.asarray(s.agents.position.y, np.int64)], 1)
        return pos, np.asarray(s.agents.direction, np.int64), np.asarray(s.agents.is_carrying, np.int64)

    def _shelves(self, s):
        return np.stack([np.asarray(s.shelves.position.x, np.int64), np.asarray(s.shelves.position.y, np.int64)], 1)

    def _inside(self, r, c):
        return 0 <= r < self.H and 0 <= c < self.W

    def _shelf_map(self, spos):
        m = {}
        for i, (r, c) in enumerate(spos.tolist()):
            m.setdefault((r, c), i)
        return m

    def _target(self, pos, d):
        """forward target (clamped at the border) of an agent at pos facing d."""
        dr, dc = DIRS[int(d) % 4]
        return (min(max(int(pos[0]) + dr, 0), self.H - 1), min(max(int(pos[1]) + dc, 0), self.W - 1))

    # ------------------------------------------------------------------------------ C04 / C05
    def legal(self, s):
        pos, d, carry = self._agents(s)
        smap = self._shelf_map(self._shelves(s))
        out = np.ones((self.A, 5), bool)
        for k in range(self.A):
            if not carry[k]:
                continue
            t = self._target(pos[k], d[k])
            if t != (int(pos[k][0]), int(pos[k][1])) and t in smap:
                out[k, FORWARD] = False
        return out

    def reacted_invalid(self, s, a, s2, ts2, agent=None):
        k = int(agent)
        act = int(np.asarray(a)[k])
        pos, d, carry = self._agents(s)
        pos2, d2, carry2 = self._agents(s2)
        here = (int(pos[k][0]), int(pos[k][1]))
        if act == FORWARD:
            dr, dc = DIRS[int(d[k]) % 4]
            raw = (here[0] + dr, here[1] + dc)
            if not self._inside(*raw):
                return None  # clamped at the border: looks the same whether executed or ignored
            return (int(pos2[k][0]), int(pos2[k][1])) != raw
        if act in (LEFT, RIGHT):
            want = (int(d[k]) + (-1 if act == LEFT else 1)) % 4
            return int(d2[k]) != want
        if act == TOGGLE:
            smap = self._shelf_map(self._shelves(s))
            if not carry[k] and here in smap:
                return int(carry2[k]) != 1
            if carry[k] and self._inside(*here) and not self.highway[here]:
                return int(carry2[k]) != 0
            return None
        return None  # noop: executed and ignored look the same

    def check_illegal(self, s, a, s2, ts2, agent=None):
        k = int(agent)
        out = []
        pos, d, carry = self._agents(s)
        pos2, d2, carry2 = self._agents(s2)
        here = (int(pos[k][0]), int(pos[k][1]))
        if (int(pos2[k][0]), int(pos2[k][1])) != here:
            out.append(("ignored forward moved the agent", f"agent {k}: {here} -> {pos2[k].tolist()}"))
        if int(d2[k]) != int(d[k]):
            out.append(("ignored forward turned the agent", f"agent {k}: direction {int(d[k])} -> {int(d2[k])}"))
        if int(carry2[k]) != int(carry[k]):
            out.append(("ignored forward changed is_carrying (agent lost/gained its shelf)",
                        f"agent {k} at {here}: is_carrying {int(carry[k])} -> {int(carry2[k])}"))
        spos, spos2 = self._shelves(s), self._shelves(s2)
        sid = self._shelf_map(spos).get(here)
        if sid is not None:
            if spos2[sid].tolist() != list(here):
                out.append(("ignored forward moved the carried shelf in the shelf table",
                            f"shelf {sid}: {here} -> {spos2[sid].tolist()}"))
            g2 = np.asarray(s2.grid)
            if self._inside(*here) and int(g2[0, here[0], here[1]]) != sid + 1:
                out.append(("ignored forward changed the shelf channel under the agent",
                            f"cell {here}: shelf id {sid + 1} -> {int(g2[0, here[0], here[1]])}"))
        # the episode continues exactly when it would with agent k standing still
        a_eff = np.asarray(a, np.int64).copy()
        a_eff[k] = NOOP
        sim = self._sim(s, a_eff)
        # "the episode continues": LAST is only acceptable if the same step with agent k standing still ends the
        # episode too (collision of other agents, time limit).  The converse (MID although the rules say LAST) is
        # not an effect of the ignored move and is left to C09/C11.
        if sim["collision"] is False and int(s.step_count) + 1 < self.T and int(ts2.step_type) == LAST:
            out.append(("ignored forward ended the episode",
                        f"step_type {int(ts2.step_type)} although nobody collides and the time limit is not reached"))
        return out

    # -------------------------------------------------------------------------- transition model
    def _sim(self, s, a):
        """Documented transition of the movement phase.  collision: True / False / None (= one agent
        enters a cell another agent leaves in the same step without swapping: not defined)."""
        a = np.asarray(a, np.int64).reshape(-1)
        pos, d, carry = self._agents(s)
        spos = self._shelves(s)
        smap = self._shelf_map(spos)
        legal = self.legal(s)
        npos, nd, nc, nspos = pos.copy(), d.copy(), carry.copy(), spos.copy()
        for k in range(self.A):
            act = int(a[k])
            here = (int(pos[k][0]), int(pos[k][1]))
            if act == FORWARD and legal[k, FORWARD]:
                t = self._target(pos[k], d[k])
                npos[k] = t
                if carry[k] and here in smap:
                    nspos[smap[here]] = t
            elif act == LEFT:
                nd[k] = (d[k] - 1) % 4
            elif act == RIGHT:
                nd[k] = (d[k] + 1) % 4
            elif act == TOGGLE:
                if not carry[k]:
                    if here in smap:
                        nc[k] = 1
                elif self._inside(*here) and not self.highway[here]:
                    nc[k] = 0
        collision = False
        cells = [tuple(p) for p in npos.tolist()]
        if len(set(cells)) < len(cells):
            collision = True
        else:
            old = [tuple(p) for p in pos.tolist()]
            for i in range(self.A):
                for j in range(self.A):
                    if i == j or cells[i] == old[i]:
                        continue
                    if cells[i] == old[j] and cells[j] != old[j]:
                        if cells[j] == old[i]:
                            collision = True  # the two agents swap cells: they run through each other
                        elif collision is False:
                            collision = None
        return {"pos": npos, "dir": nd, "carry": nc, "spos": nspos, "collision": collision}

    # ---- C11: "the episode terminates on an agent collision or when the time limit is reached"
    def early_end_explained(self, states, actions):
        if len(states) < 2:
            return None
        col = self._sim(states[-2], actions[-1])["collision"]
        return None if col is None else bool(col)

    def _deliveries(self, s, spos_after):
        """-> (number of requested shelves standing on goal cells after the movement phase,
        ambiguous?)  Ambiguous when an unrequested shelf stands on the other goal while one is
        delivered: the randomly drawn replacement request may be that very shelf."""
        queue = set(np.asarray(s.request_queue, np.int64).tolist())
        smap = {}
        for i, (r, c) in enumerate(spos_after.tolist()):
            smap.setdefault((r, c), []).append(i)
        n, unreq = 0, 0
        ids = []
        for g in self.goals:
            for sid in smap.get(g, []):
                if sid in queue:
                    n += 1
                    ids.append(sid)
                else:
                    unreq += 1
        return n, ids, (n > 0 and unreq > 0)

    def _grid(self, pos, spos):
        g = np.zeros((2, self.H, self.W), np.int64)
        for i, (r, c) in enumerate(spos.tolist()):
            if self._inside(r, c):
                g[0, r, c] = i + 1
        for i, (r, c) in enumerate(pos.tolist()):
            if self._inside(r, c):
                g[1, r, c] = i + 1
        return g

    # not registered with the drivers: this environment is outside the property's enumerated list
    def unused_predict(self, s, a):
        sim = self._sim(s, a)
        if sim["collision"] is True:
            return {"last": True}
        st = {"agents.position.x": sim["pos"][:, 0], "agents.position.y": sim["pos"][:, 1],
              "agents.direction": sim["dir"], "agents.is_carrying": sim["carry"],
              "shelves.position.x": sim["spos"][:, 0], "shelves.position.y": sim["spos"][:, 1],
              "step_count": int(s.step_count) + 1}
        out = {"state": st}
        if sim["collision"] is False:
            st["grid"] = self._grid(sim["pos"], sim["spos"])
            out["last"] = int(s.step_count) + 1 >= self.T
        n, _, ambiguous = self._deliveries(s, sim["spos"])
        if not ambiguous:
            out["reward"] = float(n)
        if n == 0:
            st["request_queue"] = np.asarray(s.request_queue)
            st["shelves.is_requested"] = np.asarray(s.shelves.is_requested)
        return out

    # not registered with the drivers: this environment is outside the property's enumerated list
    def unused_stochastic_ok(self, s, a, s2):
        sim = self._sim(s, a)
        if sim["collision"] is True:
            return []
        n, ids, ambiguous = self._deliveries(s, sim["spos"])
        if n == 0 or ambiguous:
            return []
        out = []
        q, q2 = np.asarray(s.request_queue, np.int64), np.asarray(s2.request_queue, np.int64)
        kept = [x for x in q.tolist() if x not in ids]
        for i, (x, y) in enumerate(zip(q.tolist(), q2.tolist())):
            if x in ids:
                if y in kept or y == x or not (0 <= y < self.S) or (n == 1 and y in q.tolist()):
                    out.append(("delivered request not replaced by a shelf from outside the queue",
                                f"slot {i}: {x} -> {y}, queue {q.tolist()} -> {q2.tolist()}"))
            elif x != y:
                out.append(("undelivered request changed", f"slot {i}: {x} -> {y}"))
        req2 = np.asarray(s2.shelves.is_requested) > 0.5
        want = np.zeros(self.S, bool)
        want[[x for x in q2.tolist() if 0 <= x < self.S]] = True
        if req2.shape == want.shape and not np.array_equal(req2, want):
            out.append(("is_requested flags differ from the new request queue", f"queue {q2.tolist()}"))
        return out

    # ---------------------------------------------------------------------------- solver ('solve' plans)
    def solve_action(self, s, r=0):
        """Joint action of the courier policy (see `courier_actions`): walk to a requested shelf, load it,
        carry it along the aisles to a goal cell, carry it back to a free shelf location, unload.  The policy
        is stateless; `r` only breaks symmetries (which way an agent turns when it has nothing to do), so that
        the targets stay stable while the plan draws a new r for every step."""
        return courier_actions(self, s, r=int(r) % 2, stable=True)

    # ------------------------------------------------------------------------------------ C07
    def invariants(self, prev, a, s, ts):
        out = []
        pos, d, carry = self._agents(s)
        spos = self._shelves(s)
        g = np.asarray(s.grid, np.int64)
        if g.shape != (2, self.H, self.W):
            return [("grid shape", f"{g.shape} vs {(2, self.H, self.W)}")]
        if pos.shape[0] != self.A:
            out.append(("number of agents changed", f"{pos.shape[0]} vs {self.A}"))
        if spos.shape[0] != self.S:
            out.append(("number of shelves in the shelf table changed", f"{spos.shape[0]} vs {self.S}"))
        # agents
        cells = [tuple(p) for p in pos.tolist()]
        for k, (r, c) in enumerate(cells):
            if not self._inside(r, c):
                out.append(("agent outside the grid", f"agent {k} at {(r, c)}"))
        if len(set(cells)) < len(cells):
            out.append(("two agents on the same cell in a non-terminal state", f"agents at {cells}"))
        if ((d < 0) | (d > 3)).any():
            out.append(("agent direction out of range", f"{d.tolist()}"))
        if ((carry != 0) & (carry != 1)).any():
            out.append(("is_carrying not 0/1", f"{carry.tolist()}"))
        want_a = np.zeros((self.H, self.W), np.int64)
        for k, (r, c) in enumerate(cells):
            if self._inside(r, c):
                want_a[r, c] = k + 1
        if not np.array_equal(g[1], want_a):
            bad = np.argwhere(g[1] != want_a)
            r, c = bad[0]
            out.append(("agent channel of the grid disagrees with the agent table",
                        f"cell {(int(r), int(c))}: grid {int(g[1, r, c])} table {int(want_a[r, c])}"))
        # shelves
        scells = [tuple(p) for p in spos.tolist()]
        for i, (r, c) in enumerate(scells):
            if not self._inside(r, c):
                out.append(("shelf outside the grid", f"shelf {i} at {(r, c)}"))
        if len(set(scells)) < len(scells):
            seen, dup = set(), None
            for p in scells:
                if p in seen:
                    dup = p
                    break
                seen.add(p)
            out.append(("two shelves on the same cell", f"cell {dup}"))
        if int((g[0] > 0).sum()) != self.S:
            out.append(("number of shelves on the grid changed", f"{int((g[0] > 0).sum())} vs {self.S}"))
        want_s = np.zeros((self.H, self.W), np.int64)
        for i, (r, c) in enumerate(scells):
            if self._inside(r, c):
                want_s[r, c] = i + 1
        if len(set(scells)) == len(scells) and not np.array_equal(g[0], want_s):
            bad = np.argwhere(g[0] != want_s)
            r, c = bad[0]
            out.append(("shelf channel of the grid disagrees with the shelf table",
                        f"cell {(int(r), int(c))}: grid {int(g[0, r, c])} table {int(want_s[r, c])}"))
        # request queue
        q = np.asarray(s.request_queue, np.int64)
        if q.shape != (self.Q,):
            out.append(("request queue size changed", f"{q.shape} vs {self.Q}"))
        if len(set(q.tolist())) < q.size:
            out.append(("duplicate shelf id in the request queue", f"{q.tolist()}"))
        if ((q < 0) | (q >= self.S)).any():
            out.append(("request queue holds an id that is not a shelf", f"{q.tolist()}"))
        req = np.asarray(s.shelves.is_requested, np.float64)
        if not np.isin(req, (0.0, 1.0)).all():
            out.append(("is_requested not 0/1", f"{req.tolist()}"))
        want_r = np.zeros(req.shape, bool)
        want_r[[x for x in q.tolist() if 0 <= x < req.size]] = True
        if not np.array_equal(req > 0.5, want_r):
            out.append(("is_requested flags disagree with the request queue",
                        f"queue {q.tolist()} flagged {np.flatnonzero(req > 0.5).tolist()}"))
        # carrying
        smap = self._shelf_map(spos)
        for k in range(min(self.A, len(cells))):
            if carry[k] == 1 and cells[k] not in smap:
                out.append(("agent carries a shelf but no shelf is on its cell", f"agent {k} at {cells[k]}"))
        if prev is not None:
            # (step_count and "one cell per step" are transition rules - C09/C11 -, not physical consistency)
            ppos, pd, pcarry = self._agents(prev)
            pspos = self._shelves(prev)
            if pspos.shape == spos.shape and ppos.shape == pos.shape:
                pmap = self._shelf_map(pspos)
                carried = {}
                for k in range(self.A):
                    pc = (int(ppos[k][0]), int(ppos[k][1]))
                    if pcarry[k] == 1 and pc in pmap:
                        carried[pmap[pc]] = k
                for i in range(spos.shape[0]):
                    moved = pspos[i].tolist() != spos[i].tolist()
                    if i in carried:
                        k = carried[i]
                        if spos[i].tolist() != pos[k].tolist():
                            out.append(("carried shelf did not move with its agent",
                                        f"shelf {i}: {pspos[i].tolist()} -> {spos[i].tolist()}, agent {k}: "
                                        f"{ppos[k].tolist()} -> {pos[k].tolist()}"))
                    elif moved:
                        out.append(("a shelf that nobody carried moved",
                                    f"shelf {i}: {pspos[i].tolist()} -> {spos[i].tolist()}"))
        return out

    # ------------------------------------------------------------------------------------ C08
    # not registered with the drivers: this environment is outside the property's enumerated list
    def unused_objective(self, ep):
        """Supplementary: return = number of requested shelves brought onto a goal cell."""
        total = 0
        prev = ep.s0
        for s in ep.states:
            n, _, ambiguous = self._deliveries(prev, self._shelves(s))
            if ambiguous:
                return None
            total += n
            prev = s
        return float(total), 1e-6

    # ------------------------------------------------------------------------------------ C10
    def validate_instance(self, s0):
        out = self.invariants(None, None, s0, None)
        # the env's own highway / goal tables are compared with the documented layout where the env exposes them
        # under these names (attribute names are not part of the documented interface: absent -> not compared)
        if hasattr(self.env, "highways"):
            hw = np.asarray(self.env.highways).astype(bool)
            if hw.shape != self.highway.shape or not np.array_equal(hw, self.highway):
                out.append(("highway map differs from the documented layout", f"shape {hw.shape}"))
        if hasattr(self.env, "goals"):
            goals = sorted((int(y), int(x)) for x, y in np.asarray(self.env.goals).tolist())
            if goals != sorted(self.goals):
                out.append(("goal cells differ from the documented layout", f"{goals} vs {self.goals}"))
        spos = self._shelves(s0)
        occ = np.zeros((self.H, self.W), bool)
        for r, c in spos.tolist():
            if self._inside(r, c):
                occ[r, c] = True
        if not np.array_equal(occ, self.shelf_loc):
            out.append(("initial shelves are not exactly on the documented shelf locations", ""))
        # (is_carrying at reset and step_count are not advertised instance invariants: not asserted under C10;
        # an agent that "carries" without a shelf on its cell is caught by the invariants above)
        return out

    # ------------------------------------------------------------------------------------ C12
    def _consistent(self, s):
        pos, _, _ = self._agents(s)
        spos = self._shelves(s)
        g = np.asarray(s.grid, np.int64)
        if g.shape != (2, self.H, self.W):
            return False
        cells = [tuple(p) for p in pos.tolist()]
        if len(set(cells)) < len(cells) or not all(self._inside(*p) for p in cells):
            return False
        return np.array_equal(g, self._grid(pos, spos)) and len({tuple(p) for p in spos.tolist()}) == spos.shape[0]

    def observe_vector(self, s, k):
        pos, d, carry = self._agents(s)
        spos = self._shelves(s)
        req = np.asarray(s.shelves.is_requested) > 0.5
        amap = {tuple(p): i for i, p in enumerate(pos.tolist())}
        smap = self._shelf_map(spos)
        R = self.R
        r0, c0 = int(pos[k][0]), int(pos[k][1])
        v = [r0, c0, int(carry[k])] + [int(int(d[k]) == i) for i in range(4)] + [int(self.highway[r0, c0])]
        window = [(r0 + dr, c0 + dc) for dr in range(-R, R + 1) for dc in range(-R, R + 1)]
        for cell in window:
            if cell == (r0, c0):
                continue
            j = amap.get(cell) if self._inside(*cell) else None
            v += [0, 0, 0, 0, 0] if j is None else [1] + [int(int(d[j]) == i) for i in range(4)]
        for cell in window:
            i = smap.get(cell) if self._inside(*cell) else None
            v += [0, 0] if i is None else [1, int(req[i])]
        return np.asarray(v, np.int64)

    def observe_check(self, s, obs):
        out = []
        if int(obs.step_count) != int(s.step_count):
            out.append(("step_count differs from the state", f"{int(obs.step_count)} vs {int(s.step_count)}"))
        if not np.array_equal(np.asarray(obs.action_mask), np.asarray(s.action_mask)):
            out.append(("action_mask differs from the state", ""))
        view = np.asarray(obs.agents_view, np.int64)
        n = 8 + 5 * ((2 * self.R + 1) ** 2 - 1) + 2 * (2 * self.R + 1) ** 2
        if view.shape != (self.A, n):
            out.append(("agents_view shape differs from the documented layout", f"{view.shape} vs {(self.A, n)}"))
            return out
        if not self._consistent(s):
            return out  # terminal state after a collision: grid and tables disagree, the view is not defined
        for k in range(self.A):
            want = self.observe_vector(s, k)
            if not np.array_equal(view[k], want):
                i = int(np.flatnonzero(view[k] != want)[0])
                part = "self" if i < 8 else ("agents" if i < 8 + 5 * ((2 * self.R + 1) ** 2 - 1) else "shelves")
                out.append((f"agents_view differs from the sensor window ({part} features)",
                            f"agent {k} feature {i}: obs {int(view[k][i])} expected {int(want[i])}"))
        return out


# ------------------------------------------------------------------ C09: scripted courier episodes
# Random play practically never carries a requested shelf to a goal cell, so deliveries (reward, request
# replacement) and long carries would stay untested.  The hook below plays real episodes in which every
# agent follows a stateless "courier" policy (walk to a requested shelf, load it, carry it along the
# aisles to a goal, carry it back to a free shelf location, unload), and evaluates the ordinary C09
# monitor on every step.  Failures are ordinary history cases (env, entry, key, actions).
SYNTHETIC_SHARDS = {"quick": 1, "thorough": 4}
COURIER_ENTRIES = ["s1x3h3a2r1q2t500", "s1x3h3a2r1q2t40", "s2x3h8a4r1q8t500", "s1x3h2a1r1q1t7"]


def _bfs_next(m, start, targets, blocked):
    """first cell of a shortest 4-neighbour path start -> any target avoiding `blocked`; None if none."""
    if start in targets:
        return start
    prev = {start: None}
    frontier = [start]
    while frontier:
        nxt = []
        for cell in frontier:
            for dr, dc in DIRS:
                n = (cell[0] + dr, cell[1] + dc)
                if n in prev or not m._inside(*n) or (n in blocked and n not in targets):
                    continue
                prev[n] = cell
                if n in targets:
                    while prev[n] != start:
                        n = prev[n]
                    return n
                nxt.append(n)
        frontier = nxt
    return None


def courier_actions(m, s, r=0, stable=False):
    """`stable`: idle agents (k >= number of open requests) wait and every agent fetches the request that
    is nearest to it instead of the r-th one."""
    pos, d, carry = m._agents(s)
    spos = m._shelves(s)
    smap = m._shelf_map(spos)
    queue = [int(x) for x in np.asarray(s.request_queue).tolist()]
    cells = [tuple(p) for p in pos.tolist()]
    acts = np.zeros(m.A, np.int64)
    carried = {smap[cells[k]] for k in range(m.A) if carry[k] and cells[k] in smap}
    for k in range(m.A):
        here = cells[k]
        others = {c for j, c in enumerate(cells) if j != k}
        if not carry[k]:
            wanted = [q for q in queue if 0 <= q < m.S and q not in carried]
            if not wanted:
                acts[k] = LEFT
                continue
            if stable:
                wanted = sorted(wanted, key=lambda q: (abs(int(spos[q][0]) - here[0]) + abs(int(spos[q][1]) - here[1]), q))
                tgt = {tuple(spos[wanted[0]].tolist())}
            else:
                tgt = {tuple(spos[wanted[(k + r) % len(wanted)]].tolist())}
            if here in tgt:
                acts[k] = TOGGLE
                continue
            nxt = _bfs_next(m, here, tgt, others)
        else:
            sid = smap.get(here)
            shelf_cells = set(smap) - {here}
            if sid is not None and sid in queue:
                tgt = set(m.goals)
            else:
                tgt = {(int(a), int(b)) for a, b in np.argwhere(m.shelf_loc)} - shelf_cells - others
                if here in tgt:
                    acts[k] = TOGGLE
                    continue
            nxt = _bfs_next(m, here, tgt, shelf_cells | others) if tgt else None
        if nxt is None or nxt == here:
            acts[k] = LEFT if (r + k) % 2 else RIGHT
            continue
        want_d = DIRS.index((nxt[0] - here[0], nxt[1] - here[1]))
        turn = (want_d - int(d[k])) % 4
        acts[k] = FORWARD if turn == 0 else (LEFT if turn == 3 else RIGHT)
    return acts


def unused_synthetic_c09(ctx, item, seed, tier):
    from vf import envs, episodes
    from vf import modelprops as mp

    shard, shards = item["shard"], item["shards"]
    entries = COURIER_ENTRIES[:2] if tier == "quick" else COURIER_ENTRIES
    n_keys = 6 if tier == "quick" else 24
    steps = 120 if tier == "quick" else 300
    for entry in entries:
        b = envs.bundle("RobotWarehouse", entry)
        m = M(b)
        for i in range(n_keys):
            if i % shards != shard:
                continue
            key = [int(seed) * 1000 + i, 17]
            rec = episodes.Recorder(ctx, b, key)
            mon = mp.C09Mon(b, ctx, m)
            st_, ts = b.reset(envs.make_key(key))
            hs, hts = episodes.host((st_, ts))
            ctx.count("courier_episodes")
            for t in range(steps):
                a = b.to_action(courier_actions(m, hs, r=i))
                rec.actions.append(np.asarray(a))
                st_, ts = b.step(st_, a)
                hn, hnt = episodes.host((st_, ts))
                mon.on_step(rec, t, hs, hts, np.asarray(a), hn, hnt, False)
                ctx.count("courier_steps")
                if float(hnt.reward) > 0:
                    ctx.count("courier_deliveries", int(round(float(hnt.reward))))
                if int(np.asarray(hn.agents.is_carrying).sum()):
                    ctx.count("courier_steps_carrying")
                hs, hts = hn, hnt
                if int(hnt.step_type) == LAST:
                    ctx.count("courier_end_collision" if int(hn.step_count) < m.T else "courier_end_time_limit")
                    break


# ------------------------------------------------------------------------------ C10 extra configs
def _rw(sr, sc, ch, a, sens, q):
    def make():
        from jumanji.environments import RobotWarehouse
        from jumanji.environments.routing.robot_warehouse.generator import RandomGenerator

        return RobotWarehouse(generator=RandomGenerator(shelf_rows=sr, shelf_columns=sc, column_height=ch, num_agents=a,
                                                        sensor_range=sens, request_queue_size=q), time_limit=20)
    return make


EXTRA_INSTANCE_CONFIGS = {
    "x_s3x5h1a6r2q4": _rw(3, 5, 1, 6, 2, 4),          # many clusters of height 1, five columns
    "x_s2x1h2a1r1q1": _rw(2, 1, 2, 1, 1, 1),          # a single shelf column (only the top cluster survives)
    "x_s1x3h1a20r1q4_dense": _rw(1, 3, 1, 20, 1, 4),  # half of the 40 cells hold an agent, every shelf requested
}

"""MultiCVRP reference model (docs/environments/multi_cvrp.md, the MultiCVRP class docstring, the
docstrings of types.py / reward.py / generator.py).

Rules: node 0 is the depot, nodes 1..N customers with integer demands; V vehicles of capacity
`max_capacity` start at the depot.  Each vehicle's action is the next node, in [0, num_customers].  The
per-vehicle mask (V, N+1) allows a customer iff it still has a demand > 0 that fits into that vehicle's
remaining capacity; the depot is always allowed and refills the vehicle.  Serving a customer sets its
demand to 0.  The episode ends when all demands are served and every vehicle is back at the depot, or at
the step limit (2*num_customers steps), where the reward is an *estimate* of the remaining cost.
Reward: dense = minus the distance driven by all vehicles in the step minus the time-window penalties
incurred in the step; sparse = 0 until the end, then minus (total distance + total time penalties).
Vehicles drive at speed 1 (local time = distance driven); arriving at node n at time t costs
`early[n]*(start[n]-t)` if t < start[n], `late[n]*(t-end[n])` if t > end[n] (types.py).

What is NOT documented (and therefore only used where stated):
* the reaction to a masked-out choice.  The user documentation says nothing; a source comment in
  `_update_state` says such choices are "zeroed", i.e. the vehicle is sent to the depot.  `reacted_invalid`
  uses exactly this observable (vehicle did not arrive at the node it chose) and abstains (None) when two
  vehicles chose the same customer in the same joint action (tie-break undocumented) and for the depot.
* the action value num_customers+1 admitted by `action_spec` (DESIGN section 4 #11): no mask column exists.

`constraints` needs the *initial* demands and the vehicles' routes to recompute loads (served demands are
zeroed in the state).  The routes are NOT read from the state's `order` array ("used for rendering"; which
column belongs to which step is not documented, nor is the starting value of `step_count`): the C06 driver
evaluates `constraints` on the reset state and then after every step, so the model records the sequence of
`vehicles.positions` itself, per instance (keyed by the constant coordinate array).
"""
from __future__ import annotations

import numpy as np

from vf.models.base import Model, short

REWARD_TWINS = {"c6v2d": "c6v2s", "c6v2s": "c6v2d"}
DEPOT = 0


def _make(c, v):
    def f():
        from jumanji.environments import MultiCVRP
        from jumanji.environments.routing.multi_cvrp.generator import UniformRandomGenerator

        return MultiCVRP(generator=UniformRandomGenerator(num_customers=c, num_vehicles=v))
    return f


# the remaining scenario sizes the generator accepts (get_init_settings)
EXTRA_INSTANCE_CONFIGS = {"x_c50v2": _make(50, 2), "x_c50v5": _make(50, 5), "x_c100v4": _make(100, 4),
                          "x_c150v5": _make(150, 5)}


class M(Model):
    ENV = "MultiCVRP"
    # the joint action actually played is judged too: a vehicle's masked-in choice must be carried out unless another
    # vehicle made a *legal* choice of the same customer (reacted_invalid returns None for that undocumented tie-break)
    JOINT_REACTION = True
    DETERMINISTIC_CONFIGS = ()
    REWARD_TWINS = REWARD_TWINS  # the C08 driver reads it from the model instance

    def __init__(self, b):
        super().__init__(b)
        g = getattr(b.env, "_generator", None)

        def param(name, cast):
            """generator parameter documented in Generator.__init__ (stored under a private name, on the env
            and on the generator): None - and the checks that need it are skipped - if neither has it"""
            for obj in (g, b.env):
                if obj is not None and hasattr(obj, "_" + name):
                    return cast(getattr(obj, "_" + name))
            return None

        self.N = int(param("num_customers", int))
        self.V = int(param("num_vehicles", int))
        self.C = param("max_capacity", int)
        self.map_max = param("map_max", float)
        self.dmax = param("customer_demand_max", int)
        self.max_start = param("max_start_window", float)
        self.early_rng = param("early_coef_rand", lambda t: tuple(float(x) for x in t))
        self.late_rng = param("late_coef_rand", lambda t: tuple(float(x) for x in t))
        self.limit = 2 * self.N  # documented step limit
        self._hist = {}

    # ------------------------------------------------------------------ helpers
    def _key(self, s):
        return np.asarray(s.nodes.coordinates).tobytes()

    def _track(self, s):
        """Record the vehicles' positions of the state sequence the C06 driver shows (reset state, then the state
        after every step) -> {"d0": initial demands, "routes": per vehicle the nodes it *arrived* at} or None
        when the beginning of the episode was not seen.  A state with every vehicle at the depot and nothing
        driven yet starts a fresh record (it is, or is equivalent to, the reset state); showing the same state
        twice (constraints + complete) records nothing new."""
        key = self._key(s)
        d = np.asarray(s.nodes.demands).astype(np.int64).reshape(-1)
        pos = np.asarray(s.vehicles.positions).astype(np.int64).reshape(-1)
        dist = np.asarray(s.vehicles.distances, np.float64).reshape(-1)
        if not pos.any() and not dist.any():
            if len(self._hist) > 1024:
                self._hist.clear()
            self._hist[key] = {"d0": d.copy(), "routes": [[] for _ in range(self.V)], "pos": pos.copy(),
                               "sig": (pos.tobytes(), dist.tobytes(), d.tobytes())}
            return self._hist[key]
        rec = self._hist.get(key)
        if rec is None:
            return None
        sig = (pos.tobytes(), dist.tobytes(), d.tobytes())
        if sig != rec["sig"]:
            for v in range(self.V):
                # an arrival = the vehicle changed node (a vehicle kept where it was served nobody new)
                if int(pos[v]) != int(rec["pos"][v]):
                    rec["routes"][v].append(int(pos[v]))
            rec["pos"], rec["sig"] = pos.copy(), sig
        return rec

    def _steps_done(self, s):
        return int(s.step_count) - 1  # (solver only) step_count starts at 1 in the current implementation

    # ------------------------------------------------------------------ C04
    def legal(self, s):
        d = np.asarray(s.nodes.demands).astype(np.int64).reshape(-1)
        cap = np.asarray(s.vehicles.capacities).astype(np.int64).reshape(-1)
        leg = (d[None, :] > 0) & (d[None, :] <= cap[:, None])
        leg[:, DEPOT] = True
        return leg

    def reacted_invalid(self, s, a, s2, ts2, agent=None):
        a = np.asarray(a).astype(np.int64).reshape(-1)
        k = int(agent)
        v = int(a[k])
        if v == DEPOT:
            return False  # going to the depot is never an invalid move
        if v < 0 or v > self.N:
            return None  # outside the mask's domain
        rivals = [j for j in range(a.size) if j != k and int(a[j]) == v]
        if rivals:
            lg = np.asarray(self.legal(s)).astype(bool)
            if any(lg[j, v] for j in rivals):
                return None  # two vehicles made a *legal* choice of the same customer: the tie-break is undocumented
            # the other selections of this customer are themselves illegal (masked out): they have no claim on it
        return bool(int(np.asarray(s2.vehicles.positions)[k]) != v)

    # ------------------------------------------------------------------ plan bias ('solve' mode)
    # Rule-level simulation of collision-free legal joint moves (used only to plan, never as an oracle).
    def _raw(self, s):
        return (np.asarray(s.nodes.demands).astype(np.int64).reshape(-1).copy(),
                np.asarray(s.vehicles.capacities).astype(np.int64).reshape(-1).copy(),
                np.asarray(s.vehicles.positions).astype(np.int64).reshape(-1).copy())

    def _sim(self, d, cap, pos, a):
        d, cap, pos = d.copy(), cap.copy(), pos.copy()
        for v, c in enumerate(a):
            c = int(c)
            if c == DEPOT:
                cap[v] = self.C
            else:
                cap[v] -= d[c]
                d[c] = 0
            pos[v] = c
        return d, cap, pos

    def _done(self, d, pos):
        return d.sum() == 0 and not pos.any()

    def _pick(self, d, cap, choose):
        """joint move: vehicle v goes to a legal customer nobody picked yet (choose(v, candidates)), else depot"""
        taken, out = set(), []
        for v in range(self.V):
            cust = [int(c) for c in np.flatnonzero((d > 0) & (d <= cap[v])) if c > 0 and int(c) not in taken]
            c = choose(v, cust) if cust else DEPOT
            if c != DEPOT:
                taken.add(c)
            out.append(c)
        return out

    def _finisher(self, d, cap, pos):
        return self._pick(d, cap, lambda v, cust: cust[0])

    def _need(self, d, cap, pos):
        """steps the deterministic finisher takes from here to 'all served, all vehicles at the depot'"""
        n = 0
        while not self._done(d, pos):
            if n > 4 * self.N + 4:
                return 10**6
            d, cap, pos = self._sim(d, cap, pos, self._finisher(d, cap, pos))
            n += 1
        return n

    def _random_move(self, d, cap, r):
        def choose(v, cust):
            if ((r >> (2 * v + 3)) & 3) == 0:
                return DEPOT
            return cust[(r // (5 ** v)) % len(cust)]
        return self._pick(d, cap, choose)

    def _ok(self, d, cap, pos, T, target):
        """from this state an episode finishing after exactly `target` steps can still be forced"""
        slack = target - (T + self._need(d, cap, pos))
        if slack == 0:
            return True
        if slack < 0 or d.sum() == 0:
            return False
        if not pos.any():
            return True  # idling at the depot burns exactly one step of slack
        d2, cap2, pos2 = self._sim(d, cap, pos, [DEPOT] * self.V)
        return d2.sum() > 0 and T + 1 + self._need(d2, cap2, pos2) <= target

    def shuttle_local_time(self, s0):
        """(driver hook, optional) local time the 'shuttle' variant reaches on this instance: twice the summed
        depot distance of the customers with demand.  Lets a driver pre-select, from a cheap vmapped reset over
        many keys, the rare instances (depot in a corner) on which a single vehicle gets close to the declared
        local_times / distance bounds, and then play them with solve steps whose first r has r % 4 == 3."""
        xy = np.asarray(s0.nodes.coordinates, np.float64)
        d = np.asarray(s0.nodes.demands).astype(np.int64).reshape(-1)
        return float(2.0 * (np.linalg.norm(xy - xy[DEPOT], axis=1) * (d > 0)).sum())

    def _shuttle(self, s, d, cap, pos, w):
        out = [DEPOT] * self.V
        if pos[w] == DEPOT:
            cust = [int(c) for c in np.flatnonzero((d > 0) & (d <= cap[w])) if c > 0]
            if cust:
                xy = np.asarray(s.nodes.coordinates, np.float64)
                far = np.linalg.norm(xy[cust] - xy[DEPOT], axis=1)
                out[w] = cust[int(np.argmax(far))]
        return out

    def _aligned_plan(self, d, w, r):
        """One working vehicle fills legs greedily (a customer that fits, else back to the depot) and idles at the
        depot first for exactly as long as it takes to put a depot return on step 2N-1 and the first customer of the
        next leg on step 2N, the last step the limit allows: the leg boundary coincides with the end of the episode
        (and of every per-step buffer of 2N entries)."""
        d, capw, seq = d.copy(), self.C, []
        while d.sum() > 0 and len(seq) < 4 * self.N:
            cust = [int(c) for c in np.flatnonzero((d > 0) & (d <= capw)) if c > 0]
            if cust:
                c = cust[(r // 7) % len(cust)] if (r >> 4) & 1 else max(cust, key=lambda x: (int(d[x]), -x))
                capw -= int(d[c])
                d[c] = 0
                seq.append(c)
            elif capw == self.C:
                break  # a customer that never fits: give up
            else:
                capw = self.C
                seq.append(DEPOT)
        js = [j for j in range(len(seq) - 1) if seq[j] == DEPOT and seq[j + 1] != DEPOT and self.limit - 2 - j >= 0]
        k = self.limit - 2 - js[-1] if js else 0
        return [DEPOT] * k + seq

    def solve_action(self, s, r=0):
        """Constructive joint move: every vehicle drives to a legal customer nobody else picked in this step
        (r chooses which; ~1/4 of the time a vehicle goes to the depot instead), or to the depot when no
        customer is left for it.  Uniform legal play mostly keeps the vehicles at the depot (first mask entry).

        Four per-episode variants, selected by r of the episode's first step (remembered per instance, r of
        later steps is independent): r % 4 == 0 'finish as late as possible' - the vehicles idle at the depot
        (always legal) as long as the remaining work still fits, so that the episode completes after exactly
        2N-1 steps, i.e. with final step_count == 2N, the last count that is not "step_count > 2N";
        r % 4 == 1 finishes one step earlier (2N-2 steps); r % 4 == 2 plays freely; r % 4 == 3 'shuttle' -
        exactly one vehicle (number (r // 4) % V) works, alternating between the depot and the customer
        farthest from the depot that it can still serve, while the others wait at the depot: this maximises
        that vehicle's local time and distance (all moves legal)."""
        r = int(r)
        d, cap, pos = self._raw(s)
        if d.shape != (self.N + 1,) or ((pos < 0) | (pos > self.N)).any() or (cap < 0).any():
            return np.zeros(self.V, np.int64)  # odd state after out-of-mask play: everybody home
        T = self._steps_done(s)
        key = self._key(s)
        if not hasattr(self, "_variant"):
            self._variant = {}
        if T == 0:
            if len(self._variant) > 4096:
                self._variant.clear()
            # a third of the free-play episodes become 'aligned' ones (variant 4, see _aligned_plan)
            self._variant[key] = (4 if (r % 4 == 2 and (r // 8) % 3 == 0) else r % 4, (r // 4) % self.V)
        var, worker = self._variant.get(key, (sum(key[:64]) % 4, 0))
        if var == 3:
            return np.asarray(self._shuttle(s, d, cap, pos, worker), np.int64)
        if var == 4:
            if not hasattr(self, "_aligned"):
                self._aligned = {}
            if T == 0:
                if len(self._aligned) > 4096:
                    self._aligned.clear()
                self._aligned[key] = self._aligned_plan(d, worker, r)
            plan = self._aligned.get(key, [])
            out = [DEPOT] * self.V
            if T < len(plan) and (plan[T] == DEPOT or (d[plan[T]] > 0 and d[plan[T]] <= cap[worker])):
                out[worker] = plan[T]
            return np.asarray(out, np.int64)
        rnd = self._random_move(d, cap, r)
        if var == 2:
            return np.asarray(rnd, np.int64)
        target = self.limit - 1 - var
        fin = self._finisher(d, cap, pos)
        slack = target - (T + self._need(d, cap, pos))
        if slack <= 0:
            return np.asarray(fin, np.int64)
        home = [DEPOT] * self.V  # idle when everybody is at the depot, otherwise recall everybody
        cands = [rnd, home, fin] if (r >> 1) & 1 else [home, rnd, fin]
        for a in cands:
            d2, cap2, pos2 = self._sim(d, cap, pos, a)
            if self._ok(d2, cap2, pos2, T + 1, target):
                return np.asarray(a, np.int64)
        return np.asarray(fin, np.int64)

    # ------------------------------------------------------------------ C06
    def constraints(self, s):
        out = []
        N, V, C = self.N, self.V, self.C
        d = np.asarray(s.nodes.demands).astype(np.int64).reshape(-1)
        cap = np.asarray(s.vehicles.capacities).astype(np.int64).reshape(-1)
        pos = np.asarray(s.vehicles.positions).astype(np.int64).reshape(-1)
        if d.shape != (N + 1,) or cap.shape != (V,) or pos.shape != (V,):
            return [("state array shapes", f"{d.shape} {cap.shape} {pos.shape}")]
        if (cap < 0).any() or (C is not None and (cap > C).any()):
            out.append(("vehicle load exceeds its capacity (remaining capacity outside 0..max_capacity)",
                        f"capacities={cap.tolist()} max_capacity={C}"))
        if (d < 0).any():
            out.append(("negative remaining demand", f"demands={d.tolist()}"))
        if ((pos < 0) | (pos > N)).any():
            out.append(("vehicle position outside 0..num_customers", f"positions={pos.tolist()}"))
            return out
        rec = self._track(s)
        if rec is None or C is None:
            return out
        d0, routes = rec["d0"], rec["routes"]
        served = {}
        for v, h in enumerate(routes):
            load, worst = 0, 0
            for c in h:
                if c == DEPOT:
                    load = 0
                else:
                    load += int(d0[c])
                    served[c] = served.get(c, 0) + 1
                worst = max(worst, load)
            if worst > C:
                out.append(("load collected between two depot visits exceeds the vehicle capacity",
                            f"vehicle {v} route={h} initial demands={d0.tolist()} load={worst} capacity={C}"))
            if int(cap[v]) != C - load:
                out.append(("capacity field differs from max_capacity minus the recomputed load",
                            f"vehicle {v} capacity={int(cap[v])} recomputed={C - load} route={h} initial demands={d0.tolist()}"))
        twice = sorted(c for c, n in served.items() if n > 1)
        if twice:
            out.append(("a customer is served more than once", f"customers {twice} routes={routes}"))
        # the route history the state itself holds (`order`: "the history of each vehicle ... what customer each
        # vehicle was at each environment step").  Read without assuming which column belongs to which step: each row
        # is a sequence of nodes in which a 0 is a depot visit; it must describe legs within capacity and must not
        # serve a customer twice.  (Whether it equals the route driven is a transition matter, not judged here.)
        order = np.asarray(getattr(s, "order", np.zeros((0, 0)))).astype(np.int64)
        if order.ndim == 2 and order.shape[0] == V:
            seen = {}
            for v in range(V):
                load, worst = 0, 0
                for c in order[v].tolist():
                    if c == DEPOT or not (1 <= c <= N):
                        load = 0
                        continue
                    load += int(d0[c])
                    worst = max(worst, load)
                    seen[c] = seen.get(c, 0) + 1
                if worst > C:
                    out.append(("recorded route history (state.order): load between two depot visits exceeds capacity",
                                f"vehicle {v} order={order[v].tolist()} initial demands={d0.tolist()} load={worst} capacity={C}"))
            twice_o = sorted(c for c, n in seen.items() if n > 1)
            if twice_o:
                out.append(("recorded route history (state.order): a customer appears more than once",
                            f"customers {twice_o} order={order.tolist()}"))
        want = d0.copy()
        for c in served:
            want[c] = 0
        if not np.array_equal(want, d):
            out.append(("remaining demands differ from initial demands minus the served customers",
                        f"demands={d.tolist()} recomputed={want.tolist()} routes={routes}"))
        return out

    def complete(self, s, ts):
        d = np.asarray(s.nodes.demands).astype(np.int64)
        pos = np.asarray(s.vehicles.positions).astype(np.int64)
        if d.sum() != 0 or (pos != DEPOT).any():
            return []  # not ended by completion (the documented step limit; anything else is C11/C09's business)
        out = []
        rec = self._track(s)
        if rec is not None:
            seen = sorted(c for h in rec["routes"] for c in h if c != DEPOT)
            need = sorted(int(c) for c in np.flatnonzero(rec["d0"] > 0))
            if seen != need:
                out.append(("completed episode: served customers are not exactly the customers with demand",
                            f"served={seen} with demand={need}"))
        return out

    # ------------------------------------------------------------------ C08 (supplementary)
    def _at_limit(self, ep):
        """the episode ran into the documented step limit (2 * num_customers steps) - judged by the number of
        steps played, not by the state's own counter"""
        return len(ep.actions) >= self.limit

    def twin_applicable(self, ep):
        return bool(ep.states) and not self._at_limit(ep)

    def objective(self, ep):
        if not ep.states or self._at_limit(ep):
            return None  # at the step limit both reward functions document an *estimate*
        s0 = ep.s0
        xy = np.asarray(s0.nodes.coordinates, np.float64)
        ws, we = np.asarray(s0.windows.start, np.float64), np.asarray(s0.windows.end, np.float64)
        ce, cl = np.asarray(s0.coeffs.early, np.float64), np.asarray(s0.coeffs.late, np.float64)
        seq = [np.asarray(s0.vehicles.positions).astype(np.int64)] + \
              [np.asarray(s.vehicles.positions).astype(np.int64) for s in ep.states]
        if any(((p < 0) | (p > self.N)).any() for p in seq):
            return None
        total = 0.0
        for v in range(self.V):
            t = 0.0
            for i in range(1, len(seq)):
                p, q = int(seq[i - 1][v]), int(seq[i][v])
                dist = float(np.linalg.norm(xy[p] - xy[q]))
                t += dist
                pen = 0.0
                if t < ws[q]:
                    pen += (ws[q] - t) * ce[q]
                if t > we[q]:
                    pen += (t - we[q]) * cl[q]
                total += dist + pen
        return -total, 1e-3 + 1e-5 * abs(total)

    # ------------------------------------------------------------------ C10
    def validate_instance(self, s0):
        out = []
        N, V = self.N, self.V
        xy = np.asarray(s0.nodes.coordinates)
        if xy.shape != (N + 1, 2):
            return [("coordinates shape", str(xy.shape))]
        if not np.isfinite(xy).all() or (xy < 0).any() or (self.map_max is not None and (xy > self.map_max).any()):
            out.append(("coordinates outside [0, map_max]^2", f"min={xy.min()} max={xy.max()} map_max={self.map_max}"))
        d = np.asarray(s0.nodes.demands)
        if d.shape != (N + 1,):  # (dtype conformance is C01's business)
            return out + [("demands shape", f"{d.shape}")]
        d = np.asarray(d, np.float64)
        if d[DEPOT] != 0:
            out.append(("depot demand is not 0", str(d[DEPOT])))
        if (d < 0).any():
            out.append(("negative demand", f"demands={d.tolist()}"))
        if self.C is not None and (d > self.C).any():
            out.append(("customer demand exceeds the vehicle capacity", f"demands={d.tolist()} capacity={self.C}"))
        if self.dmax is not None and (d > self.dmax).any():
            out.append(("customer demand exceeds customer_demand_max", f"demands={d.tolist()} max={self.dmax}"))
        ws, we = np.asarray(s0.windows.start, np.float64), np.asarray(s0.windows.end, np.float64)
        if ws.shape != (N + 1,) or we.shape != (N + 1,) or not (np.isfinite(ws).all() and np.isfinite(we).all()):
            out.append(("time window arrays malformed", f"{ws.shape} {we.shape}"))
        else:
            if (ws > we).any():
                out.append(("time window start > end", f"start={short(ws)} end={short(we)}"))
            # "max_start_window: maximum value for the start window" (the window length is not a documented
            # parameter, so nothing is demanded of the window ends beyond start <= end)
            if (ws < 0).any() or (self.max_start is not None and (ws > self.max_start + 1e-4).any()):
                out.append(("time window start outside [0, max_start_window]",
                            f"start min={ws.min()} max={ws.max()} max_start={self.max_start}"))
        ce, cl = np.asarray(s0.coeffs.early, np.float64), np.asarray(s0.coeffs.late, np.float64)
        eps = 1e-6
        # "early_coef_rand / late_coef_rand: range for the early / late coefficient" (customers; what the depot's
        # entry holds is not documented and not asserted)
        if self.early_rng is not None and (ce.shape != (N + 1,) or (ce[1:] < self.early_rng[0] - eps).any()
                                           or (ce[1:] > self.early_rng[1] + eps).any()):
            out.append(("early penalty coefficient outside its declared range", f"{short(ce)} range={self.early_rng}"))
        if self.late_rng is not None and (cl.shape != (N + 1,) or (cl[1:] < self.late_rng[0] - eps).any()
                                          or (cl[1:] > self.late_rng[1] + eps).any()):
            out.append(("late penalty coefficient outside its declared range", f"{short(cl)} range={self.late_rng}"))
        cap = np.asarray(s0.vehicles.capacities).astype(np.int64)
        if cap.shape != (V,) or (self.C is not None and (cap != self.C).any()):
            out.append(("initial vehicle capacity != max_capacity", f"{cap.tolist()} vs {self.C}"))
        pos = np.asarray(s0.vehicles.positions).astype(np.int64)
        if pos.shape != (V,) or (pos != DEPOT).any():
            out.append(("a vehicle does not start at the depot", str(pos.tolist())))
        for f in ("local_times", "distances", "time_penalties"):  # "... thus far": nothing driven at reset
            x = np.asarray(getattr(s0.vehicles, f))
            if x.shape != (V,) or x.any():
                out.append((f"initial vehicles.{f} not zero", short(x)))
        # (the initial action mask is judged by C04 on the reset state, not here)
        return out

    # ------------------------------------------------------------------ C12
    def observe_check(self, s, obs):
        out = []
        pairs = [("nodes.coordinates", obs.nodes.coordinates, s.nodes.coordinates),
                 ("nodes.demands", obs.nodes.demands, s.nodes.demands),
                 ("windows.start", obs.windows.start, s.windows.start),
                 ("windows.end", obs.windows.end, s.windows.end),
                 ("coeffs.early", obs.coeffs.early, s.coeffs.early),
                 ("coeffs.late", obs.coeffs.late, s.coeffs.late),
                 ("vehicles.local_times", obs.vehicles.local_times, s.vehicles.local_times),
                 ("vehicles.capacities", obs.vehicles.capacities, s.vehicles.capacities),
                 ("action_mask", obs.action_mask, s.action_mask)]
        for name, x, y in pairs:
            x, y = np.asarray(x), np.asarray(y)
            if x.shape != y.shape or not np.array_equal(x, y):
                out.append((f"{name} differs from the state", f"obs {short(x)} state {short(y)}"))
        pos = np.asarray(s.vehicles.positions).astype(np.int64).reshape(-1)
        xy = np.asarray(s.nodes.coordinates)
        vc = np.asarray(obs.vehicles.coordinates)
        if vc.shape != (self.V, 2):
            out.append(("vehicles.coordinates shape", str(vc.shape)))
        elif ((pos >= 0) & (pos <= self.N)).all():  # positions outside the node range have no coordinates
            if not np.array_equal(vc, xy[pos]):
                out.append(("vehicles.coordinates are not the coordinates of the vehicles' nodes",
                            f"obs {short(vc)} want {short(xy[pos])} positions={pos.tolist()}"))
        return out

"""Connector reference model (from docs/environments/connector.md and the class docstrings).

Rules as documented.  The grid is square; agent k (id k = 0, 1, ...) owns the three values
path = 1 + 3k, position (head) = 2 + 3k, target = 3 + 3k; 0 is an empty cell.  Actions per agent:
0 no-op, 1 up, 2 right, 3 down, 4 left.  A move is allowed iff the destination is inside the grid and is
empty or the agent's own target, and the agent is not connected yet (a connected agent may only no-op);
the no-op is always allowed.  A moving head leaves a path cell behind; paths are impassable for everybody.
All agents move simultaneously; when several agents move into the same cell the agent(s) with the lower id
are put back to their previous position.  Reward (DenseRewardFn): `connected_reward` (1.0) for an agent
that connects on this step plus `timestep_reward` (-0.03) for every step the agent starts unconnected.
The episode ends when every agent is connected or blocked (no move available), or at the time limit.

The model never calls jumanji code except in `validate_instance` of the *probe* configurations, where the
generator's own solved board is replayed through the real `env.step` (that is the property: the advertised
solution must connect every agent in the real environment).
"""
from __future__ import annotations

import numpy as np

from vf.models.base import Model

MOVES = np.array([[0, 0], [-1, 0], [0, 1], [1, 0], [0, -1]], np.int64)  # noop, up, right, down, left
LAST = 2
HAM_BUDGET = 20000
_CODE = {(-1, 0): 1, (0, 1): 2, (1, 0): 3, (0, -1): 4}


def _pv(k):  # path / head / target values of agent k
    return 1 + 3 * k, 2 + 3 * k, 3 + 3 * k


def _cells(mask):
    return [tuple(int(x) for x in rc) for rc in np.argwhere(mask)]


def _adjacent(p, q):
    return abs(p[0] - q[0]) + abs(p[1] - q[1]) == 1


def _connected_set(cells):
    """Is the set of cells 4-connected?"""
    cells = set(cells)
    if not cells:
        return True
    start = next(iter(cells))
    seen, todo = {start}, [start]
    while todo:
        r, c = todo.pop()
        for n in ((r - 1, c), (r + 1, c), (r, c - 1), (r, c + 1)):
            if n in cells and n not in seen:
                seen.add(n)
                todo.append(n)
    return len(seen) == len(cells)


def hamiltonian_path(cells, start, end):
    """A simple path start -> end through 4-adjacent cells that visits every cell of `cells` exactly once.
    Returns the list of cells, None if there is none, or 'budget' when the search was cut short."""
    cells = set(cells)
    if start not in cells or end not in cells:
        return None
    n = len(cells)
    if n == 1:
        return [start] if start == end else None
    if start == end:
        return None
    nb = {p: [q for q in ((p[0] - 1, p[1]), (p[0] + 1, p[1]), (p[0], p[1] - 1), (p[0], p[1] + 1)) if q in cells]
          for p in cells}
    for p, qs in nb.items():  # cheap necessary conditions
        if not qs or (len(qs) == 1 and p not in (start, end)):
            return None
    budget = [HAM_BUDGET]
    path, used = [start], {start}

    def dfs(p):
        budget[0] -= 1
        if budget[0] < 0:
            return "budget"
        if len(path) == n:
            return True if p == end else None
        if p == end:
            return None
        # try neighbours with the fewest onward options first
        opts = [q for q in nb[p] if q not in used]
        opts.sort(key=lambda q: sum(1 for z in nb[q] if z not in used))
        for q in opts:
            used.add(q)
            path.append(q)
            r = dfs(q)
            if r:
                return r
            path.pop()
            used.discard(q)
        return None

    r = dfs(start)
    if r is True:
        return list(path)
    return "budget" if r == "budget" else None


def bfs_first_step(passable, start, goals):
    """First cell after `start` on a shortest 4-connected path from `start` to any cell of the set `goals`,
    moving only through cells for which passable(cell) is true (goal cells count as passable); None if
    there is no such path or start is already a goal."""
    start = tuple(start)
    if start in goals:
        return None
    first = {start: None}
    todo = [start]
    while todo:
        nxt = []
        for p in todo:
            for q in ((p[0] - 1, p[1]), (p[0], p[1] + 1), (p[0] + 1, p[1]), (p[0], p[1] - 1)):
                if q in first or not (q in goals or passable(q)):
                    continue
                first[q] = q if first[p] is None else first[p]
                if q in goals:
                    return first[q]
                nxt.append(q)
        todo = nxt
    return None


class M(Model):
    ENV = "Connector"

    def __init__(self, b):
        super().__init__(b)
        self.G = int(b.env.grid_size)
        self.A = int(b.env.num_agents)
        self.T = int(b.env.time_limit)
        rf = getattr(b.env, "_reward_fn", None)
        # the documented defaults of DenseRewardFn; constructor arguments when another instance was passed
        self.r_conn = float(b.meta["connected_reward"]) if "connected_reward" in b.meta else float(getattr(rf, "connected_reward", 1.0))
        self.r_step = float(b.meta["timestep_reward"]) if "timestep_reward" in b.meta else float(getattr(rf, "timestep_reward", -0.03))

    # ------------------------------------------------------------------------------------ helpers
    def _tab(self, s):
        ag = s.agents
        return (np.asarray(ag.position, np.int64).reshape(self.A, 2), np.asarray(ag.target, np.int64).reshape(self.A, 2),
                np.asarray(ag.start, np.int64).reshape(self.A, 2), np.asarray(ag.id, np.int64).reshape(self.A))

    def _inside(self, p):
        return 0 <= int(p[0]) < self.G and 0 <= int(p[1]) < self.G

    def _connected(self, s):
        pos, tgt, _, _ = self._tab(s)
        return (pos == tgt).all(axis=1)

    def _dest(self, pos, k, a):
        return pos[k] + MOVES[int(a) % 5]

    def _legal_grid(self, grid, pos, tgt):
        out = np.zeros((self.A, 5), bool)
        out[:, 0] = True
        for k in range(self.A):
            if (pos[k] == tgt[k]).all():
                continue
            for a in range(1, 5):
                d = pos[k] + MOVES[a]
                if not self._inside(d):
                    continue
                v = int(grid[d[0], d[1]])
                out[k, a] = v == 0 or v == 3 + 3 * k
        return out

    # ------------------------------------------------------------------------------------ C04 / C05
    def legal(self, s):
        pos, tgt, _, _ = self._tab(s)
        return self._legal_grid(np.asarray(s.grid), pos, tgt)

    def _contested(self, s, a, k):
        """Does another agent's action aim at the cell agent k aims at?"""
        pos, _, _, _ = self._tab(s)
        a = np.asarray(a).reshape(-1)
        d = self._dest(pos, k, a[k])
        for j in range(self.A):
            if j != k and int(a[j]) != 0 and (self._dest(pos, j, a[j]) == d).all():
                return True
        return False

    def reacted_invalid(self, s, a, s2, ts2, agent=None):
        k = int(agent)
        ak = int(np.asarray(a).reshape(-1)[k])
        if ak == 0:
            return None  # a no-op that is "handled as invalid" is not observable
        pos, _, _, _ = self._tab(s)
        pos2, _, _, _ = self._tab(s2)
        if not (pos2[k] == pos[k]).all():
            return False
        if self._contested(s, a, k):
            return None  # kept in place by the collision rule, says nothing about legality
        return True

    def _expected_last(self, s2):
        pos2, tgt2, _, _ = self._tab(s2)
        lg = self._legal_grid(np.asarray(s2.grid), pos2, tgt2)
        done = (pos2 == tgt2).all(axis=1) | ~lg[:, 1:].any(axis=1)
        return bool(done.all()) or int(s2.step_count) >= self.T, done

    def check_illegal(self, s, a, s2, ts2, agent=None):
        out = []
        k = int(agent)
        pos, _, _, _ = self._tab(s)
        pos2, _, _, _ = self._tab(s2)
        g, g2 = np.asarray(s.grid), np.asarray(s2.grid)
        if not (pos2[k] == pos[k]).all():
            out.append(("illegal move changed the agent's position", f"agent {k}: {pos[k].tolist()} -> {pos2[k].tolist()}"))
        for name, v in zip(("path", "head", "target"), _pv(k)):
            if not np.array_equal(g == v, g2 == v):
                out.append((f"illegal move changed the agent's {name} cells",
                            f"agent {k}: {_cells(g == v)} -> {_cells(g2 == v)}"))
        # "the episode continues": the ignored move must not end the episode by itself - LAST is only acceptable
        # when the resulting state is terminal by the documented rules (everybody connected/blocked, time limit).
        # (The converse - MID although the rules say LAST - is C09/C11's business, not an effect of the move.)
        exp_last, _ = self._expected_last(s2)
        if int(ts2.step_type) == LAST and not exp_last:
            out.append(("ignored illegal move ended the episode",
                        f"step_type={int(ts2.step_type)} although the resulting state is not terminal"))
        # nothing is connected on its behalf: the offender must not be credited with a connection (the exact
        # per-step penalty is the reward rule of C09, not an effect of the ignored move)
        rew = np.asarray(ts2.reward, np.float64).reshape(-1)
        if rew.shape[0] == self.A and self.r_conn > 0:
            plain = max(0.0, self.r_step)
            if rew[k] > plain + 0.5 * self.r_conn:
                out.append(("agent whose illegal move was ignored is rewarded like a connection",
                            f"agent {k}: reward {rew[k]}"))
        return out

    # ------------------------------------------------------------------------------------ C06
    def _agent_paths(self, s):
        """Per agent: problems with the shape of its route + the ordered route when it exists."""
        out, routes = [], []
        pos, tgt, start, _ = self._tab(s)
        g = np.asarray(s.grid)
        for k in range(self.A):
            pv, hv, tv = _pv(k)
            heads = _cells(g == hv)
            if len(heads) != 1:
                out.append(("agent does not have exactly one head cell on the grid", f"agent {k}: heads {heads}"))
                routes.append(None)
                continue
            h = heads[0]
            if h != tuple(pos[k].tolist()):
                out.append(("head cell differs from the agent's position", f"agent {k}: grid {h} table {pos[k].tolist()}"))
            cells = _cells(g == pv) + [h]
            st_ = tuple(start[k].tolist())
            r = hamiltonian_path(cells, st_, h)
            if r is None:
                out.append(("agent's cells do not form a simple path from its start to its head",
                            f"agent {k}: start {st_} head {h} cells {sorted(cells)}"))
            routes.append(r if isinstance(r, list) else None)
        return out, routes

    def constraints(self, s):
        out, _ = self._agent_paths(s)
        pos, tgt, start, _ = self._tab(s)
        g = np.asarray(s.grid)
        # routes of different agents share no cell: one value per cell rules out a visible overlap, an
        # overwritten cell shows up as a missing head / broken route above or as a foreign value on a target
        seen = {}
        for k in range(self.A):
            p = tuple(pos[k].tolist())
            if p in seen:
                out.append(("two agents stand on the same cell", f"agents {seen[p]} and {k} at {p}"))
            seen[p] = k
        for k in range(self.A):
            t = tgt[k]
            if self._inside(t):
                v = int(g[t[0], t[1]])
                if v not in (3 + 3 * k, 2 + 3 * k):
                    out.append(("an agent's target cell is occupied by another route", f"agent {k}: target {t.tolist()} holds {v}"))
        # (values outside the encoding are a C07 matter, not a hard constraint of the routing problem)
        return out

    def complete(self, s, ts):
        conn = self._connected(s)
        if not conn.all():
            return []  # ended because agents are blocked or at the time limit
        out, routes = self._agent_paths(s)
        pos, tgt, start, _ = self._tab(s)
        g = np.asarray(s.grid)
        for k in range(self.A):
            t = tgt[k]
            if int(g[t[0], t[1]]) != 2 + 3 * k:
                out.append(("connected agent's head is not on its target cell", f"agent {k}: target {t.tolist()} holds {int(g[t[0], t[1]])}"))
            if routes[k] is not None and (routes[k][0] != tuple(start[k].tolist()) or routes[k][-1] != tuple(t.tolist())):
                out.append(("completed route does not run from start to target", f"agent {k}: {routes[k]}"))
        return out

    # ------------------------------------------------------------------------------------ C07
    def invariants(self, prev, a, s, ts):
        out = []
        pos, tgt, start, ids = self._tab(s)
        g = np.asarray(s.grid)
        if g.shape != (self.G, self.G):
            return [("grid shape", str(g.shape))]
        if len(set(ids.tolist())) != self.A:  # "id: unique number representing only this agent"
            out.append(("agent ids are not unique", str(ids.tolist())))
        if g.min() < 0 or g.max() > 3 * self.A:
            out.append(("grid value outside the encoding", f"min {g.min()} max {g.max()}"))
        for name, tab in (("position", pos), ("target", tgt), ("start", start)):
            for k in range(self.A):
                if not self._inside(tab[k]):
                    out.append((f"agent {name} outside the grid", f"agent {k}: {tab[k].tolist()}"))
        if out:
            return out
        for name, tab in (("positions", pos), ("targets", tgt), ("starts", start)):
            if len({tuple(r) for r in tab.tolist()}) != self.A:
                out.append((f"agents share {name}", str(tab.tolist())))
        for k in range(self.A):
            pv, hv, tv = _pv(k)
            heads, targets, paths = _cells(g == hv), _cells(g == tv), _cells(g == pv)
            p, t, st_ = tuple(pos[k].tolist()), tuple(tgt[k].tolist()), tuple(start[k].tolist())
            if heads != [p]:
                out.append(("head cells on the grid differ from the agent's position", f"agent {k}: grid {heads} table {p}"))
            want_t = [] if p == t else [t]
            if targets != want_t:
                out.append(("target cells on the grid differ from the agent table", f"agent {k}: grid {targets} expected {want_t}"))
            if st_ != p and st_ not in paths:
                out.append(("start cell is neither the head nor a path cell", f"agent {k}: start {st_} holds {int(g[st_])}"))
            if st_ == p and paths:
                out.append(("agent on its start cell but path cells exist", f"agent {k}: paths {paths}"))
            if heads == [p] and not _connected_set(paths + [p]):
                out.append(("path and head cells are not contiguous", f"agent {k}: {sorted(paths + [p])}"))
        owned = sum(int((g == v).sum()) for k in range(self.A) for v in _pv(k))
        if owned != int((g != 0).sum()):
            out.append(("grid holds values that belong to no agent", f"values {np.unique(g).tolist()}"))
        if prev is not None:
            ppos, ptgt, pstart, _ = self._tab(prev)
            pg = np.asarray(prev.grid)
            if not np.array_equal(ptgt, tgt) or not np.array_equal(pstart, start):
                out.append(("start/target of an agent changed during the episode", ""))
            # (step_count, "one cell per step", "a connected agent stays" are transition rules - C09 -; what is
            # asserted below is the conservation of occupancy named in the C07 statement)
            lost = (pg != 0) & (g == 0)
            if lost.any():
                out.append(("an occupied cell became empty", f"cells {_cells(lost)}"))
            for k in range(self.A):
                pv, hv, tv = _pv(k)
                d = int(np.abs(pos[k] - ppos[k]).sum())
                n_prev, n_now = int((pg == pv).sum()), int((g == pv).sum())
                if d >= 1:
                    if int(g[ppos[k][0], ppos[k][1]]) != pv or n_now != n_prev + 1:
                        out.append(("moving head did not leave exactly one path cell behind",
                                    f"agent {k}: old head cell holds {int(g[ppos[k][0], ppos[k][1]])}, path cells {n_prev} -> {n_now}"))
                else:
                    if n_now != n_prev:
                        out.append(("path cells changed although the agent did not move", f"agent {k}: {n_prev} -> {n_now}"))
                if not np.array_equal((pg == pv) & (g != pv), np.zeros_like(g, bool)):
                    out.append(("a path cell disappeared", f"agent {k}: {_cells((pg == pv) & (g != pv))}"))
        return out

    # ------------------------------------------------------------------------------------ C08 (supplementary)
    def objective(self, ep):
        """Per agent: connected_reward if it connected during the episode + timestep_reward for every step it
        started unconnected (DenseRewardFn docstring: 'adds a penalty of -0.03, per agent, at every timestep
        where they have yet to connect' - read as: not connected when the step begins)."""
        befores = [ep.s0] + list(ep.states[:-1])
        val = np.zeros(self.A)
        for sb in befores:
            val += self.r_step * (~self._connected(sb)).astype(np.float64)
        if ep.states:
            val += self.r_conn * (self._connected(ep.states[-1]) & ~self._connected(ep.s0)).astype(np.float64)
        return val, 1e-5 * max(1, len(ep.actions))

    # ------------------------------------------------------------------------------------ C09
    def predict(self, s, a):
        pos, tgt, start, ids = self._tab(s)
        g = np.asarray(s.grid).astype(np.int64)
        a = np.asarray(a).reshape(-1)
        lg = self._legal_grid(g, pos, tgt)
        dest = {}
        for k in range(self.A):
            ak = int(a[k])
            if 1 <= ak <= 4 and lg[k, ak]:
                dest[k] = tuple((pos[k] + MOVES[ak]).tolist())
        winners = {}
        for k, d in dest.items():  # the agent with the highest id takes a contested cell, lower ids yield
            winners[d] = max(winners.get(d, -1), k)
        npos, ng = pos.copy(), g.copy()
        for k, d in dest.items():
            if winners[d] != k:
                continue
            ng[pos[k][0], pos[k][1]] = 1 + 3 * k
            ng[d[0], d[1]] = 2 + 3 * k
            npos[k] = d
        was = (pos == tgt).all(axis=1)
        now = (npos == tgt).all(axis=1)
        reward = self.r_conn * (~was & now) + self.r_step * (~was)
        lg2 = self._legal_grid(ng, npos, tgt)
        done = now | ~lg2[:, 1:].any(axis=1)
        last = bool(done.all()) or int(s.step_count) + 1 >= self.T
        st = {"grid": ng, "agents.position": npos, "agents.target": tgt, "agents.start": start, "agents.id": ids,
              "step_count": int(s.step_count) + 1}
        return {"state": st, "reward": reward, "last": last}

    # ------------------------------------------------------------------------------------ C10
    def _validate_state(self, s0):
        out = []
        pos, tgt, start, ids = self._tab(s0)
        g = np.asarray(s0.grid)
        # (step_count is not an invariant of the generated board: not asserted under C10)
        if len(set(ids.tolist())) != self.A:  # "id: unique number representing only this agent"
            out.append(("agent ids are not unique", str(ids.tolist())))
        for name, tab in (("start", start), ("target", tgt), ("position", pos)):
            for k in range(self.A):
                if not self._inside(tab[k]):
                    out.append((f"initial {name} outside the grid", f"agent {k}: {tab[k].tolist()}"))
        if not np.array_equal(pos, start):
            out.append(("initial position differs from start", f"{pos.tolist()} vs {start.tolist()}"))
        cells = [tuple(r) for r in start.tolist()] + [tuple(r) for r in tgt.tolist()]
        if len(set(cells)) != 2 * self.A:
            dup = sorted({c for c in cells if cells.count(c) > 1})
            out.append(("start/target cells are not pairwise distinct", f"repeated cells {dup}; starts {start.tolist()} targets {tgt.tolist()}"))
        if out:
            return out
        want = np.zeros((self.G, self.G), np.int64)
        for k in range(self.A):
            want[start[k][0], start[k][1]] = 2 + 3 * k
            want[tgt[k][0], tgt[k][1]] = 3 + 3 * k
        if not np.array_equal(want, g):
            out.append(("initial grid is not exactly the heads and targets of the agent table",
                        f"grid {g.tolist()} expected {want.tolist()}"))
        return out

    def validate_instance(self, s0):
        if isinstance(s0, dict):
            return self._validate_probe(s0)
        return self._validate_state(s0)

    def _validate_probe(self, d):
        """RandomWalkGenerator: 'guaranteed to be solvable' - the solved board returned by generate_board must
        encode one simple route per agent, pairwise disjoint (one value per cell), joining the start and the
        target returned with it, and playing those routes in the real environment must connect every agent.
        Which of an agent's three values marks which cell of the *solved* board is not documented, so only the
        set of cells carrying any of the agent's values is used; the (board, agents, grid) triple is validated
        on its own, without assuming how `__call__` derives the board key from the reset key."""
        s0 = d["state"]
        out = self._validate_state(s0)
        solved = np.asarray(d["solved"]).astype(np.int64)
        ga = d["gb_agents"]
        tgt = np.asarray(ga.target, np.int64).reshape(self.A, 2)
        start = np.asarray(ga.start, np.int64).reshape(self.A, 2)
        # the instance the solved board belongs to: the reset state when it is the same board (it is today),
        # otherwise the triple returned by generate_board itself
        s_gb = s0.replace(grid=np.asarray(d["gb_grid"]), agents=ga)
        same = (np.array_equal(np.asarray(d["gb_grid"]), np.asarray(s0.grid))
                and np.array_equal(tgt, self._tab(s0)[1]) and np.array_equal(start, self._tab(s0)[2]))
        if not same:
            out += self._validate_state(s_gb)
        if out:
            return out
        if solved.shape != (self.G, self.G) or solved.min() < 0 or solved.max() > 3 * self.A:
            return out + [("solved board has values outside the encoding", f"{solved.tolist()}")]
        routes = []
        for k in range(self.A):
            st_, t = tuple(start[k].tolist()), tuple(tgt[k].tolist())
            cells = sorted(set(_cells(np.isin(solved, _pv(k)))))
            if st_ not in cells or t not in cells:
                out.append(("solved board: an agent's start/target cell does not carry one of its values",
                            f"agent {k}: start {st_} target {t} cells {cells}; board {solved.tolist()}"))
                routes.append(None)
                continue
            r = hamiltonian_path(cells, st_, t)
            if r is None:
                out.append(("solved board: an agent's cells are not a simple path from start to target",
                            f"agent {k}: cells {cells}; board {solved.tolist()}"))
            routes.append(r if isinstance(r, list) else None)
        if out or any(r is None for r in routes):
            return out
        return out + self._replay_routes(s_gb, routes)

    def _replay_routes(self, s0, routes):
        import jax
        import jax.numpy as jnp

        out = []
        state = jax.tree_util.tree_map(jnp.asarray, s0)
        n = max(len(r) for r in routes) - 1
        for t in range(n):
            act = np.zeros(self.A, np.int64)
            for k, r in enumerate(routes):
                if t + 1 < len(r):
                    dr, dc = r[t + 1][0] - r[t][0], r[t + 1][1] - r[t][1]
                    act[k] = {(-1, 0): 1, (0, 1): 2, (1, 0): 3, (0, -1): 4}[(dr, dc)]
            state, ts = self.b.step(state, jnp.asarray(act, self.b.act_dtype))
            hs = jax.device_get(state)
            p = np.asarray(hs.agents.position).reshape(self.A, 2)
            for k, r in enumerate(routes):
                want = r[min(t + 1, len(r) - 1)]
                if tuple(p[k].tolist()) != want:
                    out.append(("replaying the generator's solution: an agent could not follow its route",
                                f"agent {k} step {t}: at {p[k].tolist()} expected {want}; routes {routes}"))
                    return out
            # (when exactly the episode is flagged LAST is C03/C09's business, not an instance invariant)
        hs = jax.device_get(state)
        if not self._connected(hs).all():
            out.append(("replaying the generator's solution does not connect every agent", f"routes {routes}"))
        return out


    # ------------------------------------------------------------------------------------ plan bias
    def solve_action(self, s, r=0):
        """Joint action of a greedy policy (used by the 'solve' plan mode / synthetic C09 episodes): every
        unconnected agent follows a shortest path to its target through empty cells, never aiming at a cell
        another agent aims at in the same step."""
        pos, tgt, _, _ = self._tab(s)
        g = np.asarray(s.grid)
        act = np.zeros(self.A, np.int64)

        def free(q):
            return self._inside(q) and int(g[q[0], q[1]]) == 0

        claimed = set()
        for k in [(k + int(r)) % self.A for k in range(self.A)]:
            p = tuple(pos[k].tolist())
            if not self._inside(p) or (pos[k] == tgt[k]).all():
                continue
            nxt = bfs_first_step(lambda q: free(q) and q not in claimed, p, {tuple(tgt[k].tolist())})
            if nxt is None or nxt in claimed:
                continue
            claimed.add(nxt)
            act[k] = _CODE[(nxt[0] - p[0], nxt[1] - p[1])]
        return act

    def crowd_step(self, s, episode_seed, r=0):
        """Driver hook for the 'crowd' plan mode: a short list of hub cells per episode (from the reset key)."""
        hubs = [((int(episode_seed[0]) + 3 * i) % self.G, (int(episode_seed[1]) + 5 * i + 1) % self.G) for i in range(4)]
        want = 4 if (int(episode_seed[0]) + int(episode_seed[1])) % 2 else 3
        if want == 4 and self.A >= 4:
            best = self._meeting_cell(s, want)
            if best is not None:
                hubs = [best] + hubs
        return self.crowd_action(s, hubs, want=want)

    def _meeting_cell(self, s, want):
        """An empty cell with `want` usable neighbours (empty, or already holding a live agent's head) that is closest,
        in summed Manhattan distance, to the `want` nearest live agents: where a four-way collision can be staged."""
        pos, tgt, _, _ = self._tab(s)
        g = np.asarray(s.grid)
        live = [k for k in range(self.A) if not (pos[k] == tgt[k]).all() and self._inside(pos[k])]
        if len(live) < want:
            return None
        heads = {tuple(pos[k].tolist()) for k in live}
        best, best_cost = None, None
        for r in range(self.G):
            for c in range(self.G):
                if int(g[r, c]) != 0:
                    continue
                nb = [(r - 1, c), (r + 1, c), (r, c - 1), (r, c + 1)]
                usable = [q for q in nb if self._inside(q) and (int(g[q]) == 0 or q in heads)]
                if len(usable) < want:
                    continue
                d = sorted(abs(int(pos[k][0]) - r) + abs(int(pos[k][1]) - c) for k in live)[:want]
                cost = (sum(d), r, c)
                if best_cost is None or cost < best_cost:
                    best, best_cost = (r, c), cost
        return best

    def crowd_action(self, s, hub, want=3):
        """Adversarial policy: agents gather around the first still empty cell of the list `hub` and then enter
        it in the same step (collision of up to four agents).  Falls back to the solver when no hub is left."""
        pos, tgt, _, _ = self._tab(s)
        g = np.asarray(s.grid)
        hubs = [(int(h[0]) % self.G, int(h[1]) % self.G) for h in hub]
        hubs = [h for h in hubs if int(g[h]) == 0]
        if not hubs:
            return self.solve_action(s)
        hub = hubs[0]
        act = np.zeros(self.A, np.int64)
        live = [k for k in range(self.A) if not (pos[k] == tgt[k]).all() and self._inside(pos[k])]
        near = [k for k in live if _adjacent(tuple(pos[k].tolist()), hub)]
        # `want` agents enter the hub in the same step (a cell has four neighbours: up to a four-way collision)
        if len(near) >= min(want, len(live)) or int(s.step_count) >= 2 * self.G:
            for k in near:
                act[k] = _CODE[(hub[0] - int(pos[k][0]), hub[1] - int(pos[k][1]))]
            return act
        ring = {q for q in ((hub[0] - 1, hub[1]), (hub[0] + 1, hub[1]), (hub[0], hub[1] - 1), (hub[0], hub[1] + 1))
                if self._inside(q) and int(g[q]) == 0}
        claimed = set()
        for k in live:
            if k in near:
                continue
            p = tuple(pos[k].tolist())
            nxt = bfs_first_step(lambda q: self._inside(q) and int(g[q]) == 0 and q != hub and q not in claimed, p, ring - claimed)
            if nxt is None or nxt in claimed:
                continue
            claimed.add(nxt)
            act[k] = _CODE[(nxt[0] - p[0], nxt[1] - p[1])]
        return act

    # ------------------------------------------------------------------------------------ C12
    def observe_check(self, s, obs):
        out = []
        if not np.array_equal(np.asarray(obs.grid), np.asarray(s.grid)):
            out.append(("observation grid differs from the state grid", ""))
        if int(obs.step_count) != int(s.step_count):
            out.append(("step_count differs from the state", f"{int(obs.step_count)} vs {int(s.step_count)}"))
        pos, tgt, _, _ = self._tab(s)
        if all(self._inside(p) for p in pos):
            want = self.legal(s)
            got = np.asarray(obs.action_mask).astype(bool)
            if got.shape != want.shape or not np.array_equal(got, want):
                out.append(("action_mask is not the legal set of the state shown", f"obs {got.astype(int).tolist()} rules {want.astype(int).tolist()}"))
        return out


# ------------------------------------------------------------------------------------------ C10 extras
def _probe(grid, agents):
    """RandomWalkGenerator configuration whose reset additionally returns the generator's own solved board
    (`generate_board`, public method: 'Returns: Tuple containing solved board, the agents and an empty training
    board') for the same key, so that solvability can be validated."""
    def make():
        import jax
        from jumanji.environments.routing.connector import Connector
        from jumanji.environments.routing.connector.generator import RandomWalkGenerator

        class SolvedBoardProbe(Connector):
            def reset(self, key):
                state, ts = super().reset(key)
                _, board_key = jax.random.split(key)
                solved, gb_agents, gb_grid = self._generator.generate_board(board_key)
                return {"state": state, "solved": solved, "gb_agents": gb_agents, "gb_grid": gb_grid}, ts

        return SolvedBoardProbe(generator=RandomWalkGenerator(grid_size=grid, num_agents=agents),
                                time_limit=grid * grid + 1)
    return make


def _plain(gen, grid, agents):
    def make():
        from jumanji.environments.routing.connector import Connector
        from jumanji.environments.routing.connector import generator as cng

        cls = cng.RandomWalkGenerator if gen == "rw" else cng.UniformRandomGenerator
        return Connector(generator=cls(grid_size=grid, num_agents=agents))
    return make


EXTRA_INSTANCE_CONFIGS = {
    # solvability of RandomWalk boards (solved board replayed in the env): menu sizes + dense corners
    "rw-solved-g5a2": _probe(5, 2), "rw-solved-g6a3": _probe(6, 3), "rw-solved-g10a10": _probe(10, 10),
    "rw-solved-g8a5": _probe(8, 5), "rw-solved-g4a4": _probe(4, 4), "rw-solved-g3a3": _probe(3, 3),
    # uniform generator at the dense corners
    "uni-g3a3": _plain("uni", 3, 3), "uni-g4a4": _plain("uni", 4, 4), "uni-g8a5": _plain("uni", 8, 5),
}


# ------------------------------------------------------------------------------------------ C09 synthetic
# Random play rarely connects all agents and almost never produces a collision of three agents, so the
# synthetic shard plays menu configurations with the greedy solver (connections, completed episodes) and
# with the 'crowd' policy (all agents head for the same empty cell: two-, three- and more-agent collisions),
# with Hypothesis-drawn deviations, against the real env under the generic C09 monitor.
SYNTHETIC_SHARDS = {"quick": 1, "thorough": 2}
_SYN_ENTRIES = ["g6a3t50rw", "g10a10t50uni", "g8a4t50rw", "g10a10t50rw"]


def _syn_policy(model, mode, noise):
    def policy(hs, t):
        z = noise[t % len(noise)]
        act = model.crowd_action(hs, list(zip(noise[0::2], noise[1::2]))) if mode == "crowd" else model.solve_action(hs)
        if z % 5 == 0:  # deviation: one agent plays an arbitrary action
            act[z % model.A] = (z // 7) % 5
        return act
    return policy


def _syn_episode(b, ctx, model, key, policy, max_steps, extra):
    from vf import envs, episodes
    from vf import modelprops as mp

    rec = episodes.Recorder(ctx, b, key, extra=extra)
    mon = mp.C09Mon(b, ctx, model)
    st_, ts = b.reset(envs.make_key(key))
    hs, hts = episodes.host((st_, ts))
    for t in range(max_steps):
        a = b.to_action(policy(hs, t))
        rec.actions.append(a)
        nst, nts = b.step(st_, a)
        hn, hnt = episodes.host((nst, nts))
        mon.on_step(rec, t, hs, hts, a, hn, hnt, False)
        # classification counters
        pos = model._tab(hs)[0]
        lg = model.legal(hs)
        dest = [tuple((pos[k] + MOVES[int(a[k])]).tolist()) for k in range(model.A) if 1 <= int(a[k]) <= 4 and lg[k, int(a[k])]]
        worst = max([dest.count(d) for d in dest], default=0)
        if worst >= 2:
            ctx.count("synthetic_collision_steps")
        if worst >= 3:
            ctx.count("synthetic_collisions_of_3_or_more")
        if (model._connected(hn) & ~model._connected(hs)).any():
            ctx.count("synthetic_connection_steps")
        st_, ts, hs, hts = nst, nts, hn, hnt
        if int(hnt.step_type) == LAST:
            if model._connected(hn).all():
                ctx.count("synthetic_episodes_all_connected")
            return


def synthetic_c09(ctx, item, seed, tier):
    from vf import envs, episodes, hyp
    from vf.hyp import st

    shard, shards = item.get("shard", 0), item.get("shards", 1)
    for i, entry in enumerate(_SYN_ENTRIES):
        if i % shards != shard:
            continue
        b = envs.bundle("Connector", entry)
        model = M(b)

        def one(key, mode, noise, b=b, model=model, entry=entry):
            extra = {"synthetic": True, "config": entry}
            _syn_episode(b, ctx, model, key, _syn_policy(model, mode, noise), model.T + 1, extra)
            ctx.count("synthetic_episodes")

        hyp.drive({"key": episodes.keys(), "mode": st.sampled_from(["solve", "crowd"]),
                   "noise": st.lists(st.integers(0, 2**16), min_size=4, max_size=24)},
                  one, seed + 977 * (i + 1), 8 if tier == "quick" else 60)


def synthetic_replay(case):
    from vf import envs, episodes
    from vf import modelprops as mp
    from vf.runner import Ctx

    ctx = Ctx("C09", {})
    b = envs.bundle("Connector", case["config"])
    rec = episodes.Recorder(ctx, b, case["key"], extra={"synthetic": True, "config": case["config"]})
    episodes.run_actions(b, rec, case["actions"], mp.C09Mon(b, ctx, M(b)))
    return [(f["oracle"], f["sig"], f["msg"]) for f in ctx.failures.values()]

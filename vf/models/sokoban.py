"""Sokoban reference model (from docs/environments/sokoban.md and the class docstring).

Encodings: fixed_grid 0 empty / 1 wall / 2 target; variable_grid 0 empty / 3 agent / 4 box;
`agent_location = (row, col)`; the grid is 10x10 with 4 boxes and 4 targets.
Actions (class docstring, action_spec docstring): 0 up, 1 right, 2 down, 3 left =
(-1,0), (0,1), (1,0), (0,-1).  (The markdown page and the `step` docstring list the directions in
another order; the two class-level docstrings agree with each other and with every other grid
environment of the suite, so that reading is used.)
Rules: the agent moves one cell.  Moving into a wall or off the grid, or pushing a box into a wall,
another box ("chained pushes are not allowed") or off the grid leaves the grid unchanged; the step
count still increases.  Otherwise the agent moves and a box in its way is pushed one cell.
Dense reward: -0.1 per step, +1 / -1 per box moved onto / off a target, +10 when all four boxes are on
targets.  The episode ends when all boxes are on targets or step_count reaches the time limit.
"""
from __future__ import annotations

import numpy as np

from vf.models.base import Model

EMPTY, WALL, TARGET, AGENT, BOX = 0, 1, 2, 3, 4
MOVES = [(-1, 0), (0, 1), (1, 0), (0, -1)]
N, NBOX = 10, 4


class M(Model):
    ENV = "Sokoban"
    DETERMINISTIC_CONFIGS = ("simplet7", "simplet1", "simplet120")
    EPISODE_CAP = 400

    def __init__(self, b):
        super().__init__(b)
        self.T = int(b.env.time_limit)
        from jumanji.environments.routing.sokoban.reward import DenseReward, SparseReward

        rf = b.env.reward_fn
        self.reward_kind = "dense" if isinstance(rf, DenseReward) else ("sparse" if isinstance(rf, SparseReward) else None)

    # ------------------------------------------------------------------ helpers
    @staticmethod
    def _inside(r, c):
        return 0 <= r < N and 0 <= c < N

    @staticmethod
    def _agent(s):
        loc = np.asarray(s.agent_location).astype(np.int64).reshape(-1)
        return int(loc[0]), int(loc[1])

    @staticmethod
    def _on_target(s):
        return int(((np.asarray(s.variable_grid) == BOX) & (np.asarray(s.fixed_grid) == TARGET)).sum())

    def early_end_explained(self, states, actions):
        """C11: the only documented reason for a LAST before the time limit is a solved level (all four boxes on
        targets)."""
        return self._on_target(states[-1]) == NBOX

    @staticmethod
    def early_end_explained_jnp(s):
        """device-side twin of early_end_explained for the bulk sweeps (candidates only; the host predicate decides)"""
        import jax.numpy as jnp

        return jnp.sum((s.variable_grid == BOX) & (s.fixed_grid == TARGET)) == NBOX

    def _move(self, s, a):
        """-> None if the action has no effect by the rules, else (new agent cell, pushed box
        destination or None)."""
        fixed, var = np.asarray(s.fixed_grid), np.asarray(s.variable_grid)
        r, c = self._agent(s)
        dr, dc = MOVES[int(a) % 4]
        r1, c1 = r + dr, c + dc
        if not self._inside(r1, c1) or fixed[r1, c1] == WALL:
            return None
        if var[r1, c1] == BOX:
            r2, c2 = r1 + dr, c1 + dc
            if not self._inside(r2, c2) or fixed[r2, c2] == WALL or var[r2, c2] == BOX:
                return None
            return (r1, c1), (r2, c2)
        return (r1, c1), None

    def _usable(self, s):
        fixed, var = np.asarray(s.fixed_grid), np.asarray(s.variable_grid)
        return fixed.shape == (N, N) and var.shape == (N, N) and self._inside(*self._agent(s))

    # ------------------------------------------------------------------ C05
    def illegal_actions(self, s):
        if not self._usable(s):
            return []
        return [a for a in range(4) if self._move(s, a) is None]

    def _step_reward(self, before, after, complete):
        if self.reward_kind == "dense":
            return (after - before) + (10.0 if complete else 0.0) - 0.1
        if self.reward_kind == "sparse":
            return 10.0 if complete else 0.0
        return None

    def check_illegal(self, s, a, s2, ts2, agent=None):
        out = []
        if not np.array_equal(np.asarray(s.variable_grid), np.asarray(s2.variable_grid)):
            d = np.argwhere(np.asarray(s.variable_grid) != np.asarray(s2.variable_grid))
            out.append(("variable_grid changed on an illegal action", f"cells {d[:4].tolist()}"))
        if self._agent(s) != self._agent(s2):
            out.append(("agent_location changed on an illegal action", f"{self._agent(s)} -> {self._agent(s2)}"))
        if not np.array_equal(np.asarray(s.fixed_grid), np.asarray(s2.fixed_grid)):
            out.append(("fixed_grid changed on an illegal action", ""))
        if int(s2.step_count) != int(s.step_count) + 1:
            out.append(("step_count not incremented", f"{int(s.step_count)} -> {int(s2.step_count)}"))
        done_before = self._on_target(s) == NBOX
        if not done_before:
            # "the episode continues": the ignored move must not end the episode by itself (LAST exactly at the
            # time limit is C11's business and is not asserted here)
            if int(ts2.step_type) == 2 and int(s.step_count) + 1 < self.T:
                out.append(("illegal action ended the episode",
                            f"step_type={int(ts2.step_type)} step_count={int(s2.step_count)} time_limit={self.T}"))
            want = self._step_reward(self._on_target(s), self._on_target(s), False)
            if want is not None and abs(float(ts2.reward) - want) > 1e-5:
                out.append(("reward of an ignored move is not the plain step reward", f"reward={float(ts2.reward)} expected={want}"))
        return out

    # ------------------------------------------------------------------ C07
    def invariants(self, prev, a, s, ts):
        out = []
        fixed, var = np.asarray(s.fixed_grid), np.asarray(s.variable_grid)
        if fixed.shape != (N, N) or var.shape != (N, N):
            return [("grid shape", f"{fixed.shape} {var.shape}")]
        if not np.isin(fixed, (EMPTY, WALL, TARGET)).all():
            out.append(("fixed_grid holds a value other than empty/wall/target", str(np.unique(fixed).tolist())))
        if not np.isin(var, (EMPTY, AGENT, BOX)).all():
            out.append(("variable_grid holds a value other than empty/agent/box", str(np.unique(var).tolist())))
        agents = np.argwhere(var == AGENT)
        if len(agents) != 1:
            out.append(("not exactly one agent cell in variable_grid", f"{len(agents)} agent cells {agents[:3].tolist()}"))
        r, c = self._agent(s)
        if not self._inside(r, c):
            out.append(("agent_location outside the grid", f"({r},{c})"))
        elif var[r, c] != AGENT:
            out.append(("agent_location disagrees with variable_grid", f"agent_location=({r},{c}) holds {int(var[r, c])}, agent cells {agents[:2].tolist()}"))
        nb = int((var == BOX).sum())
        if nb != NBOX:
            out.append(("number of boxes is not 4", f"{nb} boxes"))
        inwall = (fixed == WALL) & (var != EMPTY)
        if inwall.any():
            out.append(("agent or box inside a wall", f"cells {np.argwhere(inwall)[:3].tolist()} values {var[inwall][:3].tolist()}"))
        if int((fixed == TARGET).sum()) != NBOX:
            out.append(("number of targets is not 4", str(int((fixed == TARGET).sum()))))
        if prev is not None:
            if not np.array_equal(np.asarray(prev.fixed_grid), fixed):
                out.append(("fixed_grid changed", ""))
            # (step_count, "one cell per step" and "one box per push" are transition rules - C09 -, each state
            # they produce is still a possible configuration: not asserted under C07)
        return out

    # ------------------------------------------------------------------ C08 (supplementary)
    def objective(self, ep):
        if not ep.states or self.reward_kind is None:
            return None
        n = len(ep.actions)
        first, final = self._on_target(ep.s0), self._on_target(ep.states[-1])
        complete = final == NBOX
        if self.reward_kind == "dense":
            return (final - first) + (10.0 if complete else 0.0) - 0.1 * n, 1e-4 * max(1, n)
        return (10.0 if complete else 0.0), 1e-6

    # ------------------------------------------------------------------ C09
    def predict(self, s, a):
        if not self._usable(s):
            return None
        var = np.asarray(s.variable_grid).copy()
        r, c = self._agent(s)
        if var[r, c] != AGENT:
            return None  # inconsistent state: C07's business
        mv = self._move(s, a)
        before = self._on_target(s)
        if mv is not None:
            (r1, c1), box_to = mv
            var[r, c] = EMPTY
            var[r1, c1] = AGENT
            if box_to is not None:
                var[box_to] = BOX
            r, c = r1, c1
        after = int(((var == BOX) & (np.asarray(s.fixed_grid) == TARGET)).sum())
        complete = after == NBOX
        step = int(s.step_count) + 1
        last = complete or step >= self.T
        out = {"state": {"variable_grid": var, "fixed_grid": np.asarray(s.fixed_grid),
                         "agent_location": np.array([r, c]), "step_count": step},
               "last": last, "discount": 0.0 if last else 1.0}
        rew = self._step_reward(before, after, complete)
        if rew is not None:
            out["reward"] = rew
        return out

    # ------------------------------------------------------------------ C10
    def solve_action(self, s, r=0):
        """Driver hook ('solve' plan mode): next move of the push planner (boxes adjacent to a target are pushed onto
        it; the box order depends on r); None when no such push is reachable -> legal fallback."""
        order = [(r + i) % NBOX for i in range(NBOX)]
        return _push_plan(s, order)

    def validate_instance(self, s0):
        out = []
        fixed, var = np.asarray(s0.fixed_grid), np.asarray(s0.variable_grid)
        if fixed.shape != (N, N) or var.shape != (N, N):
            return [("grid shape", f"{fixed.shape} {var.shape}")]
        if not np.isin(fixed, (EMPTY, WALL, TARGET)).all():
            out.append(("fixed_grid holds a value other than empty/wall/target", str(np.unique(fixed).tolist())))
        if not np.isin(var, (EMPTY, AGENT, BOX)).all():
            out.append(("variable_grid holds a value other than empty/agent/box", str(np.unique(var).tolist())))
        if int((var == BOX).sum()) != NBOX:
            out.append(("level does not have 4 boxes", str(int((var == BOX).sum()))))
        if int((fixed == TARGET).sum()) != NBOX:
            out.append(("level does not have 4 targets", str(int((fixed == TARGET).sum()))))
        agents = np.argwhere(var == AGENT)
        if len(agents) != 1:
            out.append(("level does not have exactly one agent", f"{len(agents)} agent cells"))
        r, c = self._agent(s0)
        if not self._inside(r, c) or var[r, c] != AGENT:
            out.append(("agent_location disagrees with variable_grid", f"agent_location=({r},{c}) agent cells {agents[:2].tolist()}"))
        inwall = (fixed == WALL) & (var != EMPTY)
        if inwall.any():
            out.append(("agent or box starts inside a wall", f"cells {np.argwhere(inwall)[:3].tolist()}"))
        # (step_count is not an instance invariant; "not already solved" is advertised by no generator)
        return out

    # ------------------------------------------------------------------ C12
    def observe_check(self, s, obs):
        out = []
        g = np.asarray(obs.grid)
        if g.shape != (N, N, 2):
            return [("grid shape", str(g.shape))]
        if not np.array_equal(g[..., 0], np.asarray(s.variable_grid)):
            out.append(("grid[..., 0] is not the variable grid of the state", ""))
        if not np.array_equal(g[..., 1], np.asarray(s.fixed_grid)):
            out.append(("grid[..., 1] is not the fixed grid of the state", ""))
        if int(obs.step_count) != int(s.step_count):
            out.append(("step_count differs from the state", f"{int(obs.step_count)} vs {int(s.step_count)}"))
        return out


# ------------------------------------------------------------------ C09: episodes that end by completion
# Sokoban has no mask and no solver mode in the plan interpreter, so generated play never solves a
# level and the "+10 / all boxes on targets -> LAST" transition stays unreached.  The synthetic
# shard solves the SimpleSolveGenerator level (4 boxes in a row, each one cell below its target)
# against the real env: for a Hypothesis-drawn order of the boxes it walks (BFS on the host state,
# around walls and boxes) to the cell from which the box can be pushed onto its target and pushes,
# with Hypothesis-drawn stray actions in between (which may also push boxes off targets or wedge
# them).  Every transition is compared with `predict` by the generic C09 monitor.
SYNTHETIC_SHARDS = {"quick": 1, "thorough": 1}
_SYN: dict = {}


def _syn_bundle(cfg="simple_t120"):
    from vf import envs

    if cfg not in _SYN:
        import jumanji.environments as E
        from jumanji.environments.routing.sokoban.generator import SimpleSolveGenerator

        _SYN[cfg] = envs.Bundle("Sokoban", f"syn_{cfg}", env=E.Sokoban(generator=SimpleSolveGenerator(), time_limit=120))
    return _SYN[cfg]


def _push_plan(hs, order):
    """Next action towards pushing some box onto an adjacent target (boxes tried in `order`), or
    None when no such push is reachable."""
    from vf.models.cleaner import bfs_first_move

    fixed, var = np.asarray(hs.fixed_grid), np.asarray(hs.variable_grid)
    agent = M._agent(hs)
    boxes = [tuple(x) for x in np.argwhere((var == BOX) & (fixed != TARGET)).tolist()]
    passable = (fixed != WALL) & (var != BOX)
    for i in order:
        if not boxes:
            break
        br, bc = boxes[i % len(boxes)]
        for a, (dr, dc) in enumerate(MOVES):
            tr, tc = br + dr, bc + dc      # where the box would go
            sr, sc = br - dr, bc - dc      # where the agent must stand
            if not (M._inside(tr, tc) and M._inside(sr, sc)):
                continue
            if fixed[tr, tc] != TARGET or var[tr, tc] == BOX or not passable[sr, sc]:
                continue
            if (sr, sc) == agent:
                return a
            goal = np.zeros((N, N), bool)
            goal[sr, sc] = True
            step = bfs_first_move(passable, agent, goal)
            if step is not None:
                return step
    return None


def _syn_policy(order, noise):
    def policy(hs, t):
        z = noise[t % len(noise)]
        if z % 7 == 0:
            return np.asarray(z // 7 % 4)
        a = _push_plan(hs, order)
        return np.asarray(z % 4 if a is None else a)
    return policy


def synthetic_c09(ctx, item, seed, tier):
    from vf import episodes, hyp
    from vf.hyp import st
    from vf.models.cleaner import synthetic_episode

    b = _syn_bundle()
    model = M(b)

    def one(key, order, noise):
        extra = {"synthetic": True, "config": "simple_t120"}
        hs, ended = synthetic_episode(b, ctx, model, key, _syn_policy(order, noise), 120, extra)
        ctx.count("synthetic_episodes")
        if ended and model._on_target(hs) == NBOX:
            ctx.count("synthetic_episodes_solved")

    hyp.drive({"key": episodes.keys(), "order": st.permutations([0, 1, 2, 3]),
               "noise": st.lists(st.integers(1, 2**16), min_size=3, max_size=20)},
              one, seed + 4242, 12 if tier == "quick" else 80)


def synthetic_replay(case):
    from vf import episodes
    from vf import modelprops as mp
    from vf.runner import Ctx

    ctx = Ctx("C09", {})
    b = _syn_bundle(case.get("config", "simple_t120"))
    rec = episodes.Recorder(ctx, b, case["key"], extra={"synthetic": True, "config": case.get("config", "simple_t120")})
    episodes.run_actions(b, rec, case["actions"], mp.C09Mon(b, ctx, M(b)))
    return [(f["oracle"], f["sig"], f["msg"]) for f in ctx.failures.values()]

"""Tetris reference model (from docs/environments/tetris.md and the class docstring).

Rules.  The board has num_rows x num_cols cells, row 0 is the top.  The current tetromino is a 4x4
0/1 matrix (piece `tetromino_index`, rotation r = row r of the piece's rotation table), anchored at
its top-left corner.  An action (rotation r, column x) drops the rotated piece straight down with
its left edge in column x.  The action is legal iff the piece lies inside the columns and the
straight vertical drop from above the board gets the whole piece inside the board (anchor row
>= 0) without hitting a filled cell on the way; otherwise "it hits the top of the grid" and the
episode ends with reward 0.  A legal piece falls until the next row down would collide with a
filled cell or the floor, and is frozen there (+4 cells).  Rows of the board that are completely
filled are removed, everything above moves down; reward = (0, 40, 100, 300, 1200)[rows cleared].
A new piece is then drawn.  The episode ends on an illegal action, when the new piece has no legal
placement, or when step_count reaches time_limit.

State encoding: `grid_padded` carries 3 padding rows/columns and positive "colour" values in filled
cells; only the occupancy (> 0) of the num_rows x num_cols board region is meaningful (what the padding
holds is internal representation and is not asserted).
"""
from __future__ import annotations

import os

import numpy as np

from vf.models.base import Model

LAST = 2
REWARDS = (0.0, 40.0, 100.0, 300.0, 1200.0)
_PIECES = None


def pieces():
    """(7, 4, 4, 4) table piece x rotation x 4x4 matrix - the game's piece catalogue (data)."""
    global _PIECES
    if _PIECES is None:
        from jumanji.environments.packing.tetris.constants import TETROMINOES_LIST

        _PIECES = (np.asarray(TETROMINOES_LIST) > 0)
    return _PIECES


# ------------------------------------------------------------------------------------ pure rules
def fits(occ, cells, y, x):
    """Piece cells (i, j) anchored at (y, x): every cell that is inside the board rows must be free and
    no cell may be below the floor; cells above the board (row < 0) touch nothing."""
    R, C = occ.shape
    for i, j in cells:
        r, c = y + i, x + j
        if c < 0 or c >= C or r >= R:
            return False
        if r >= 0 and occ[r, c]:
            return False
    return True


def is_legal(occ, piece, x):
    cells = np.argwhere(piece)
    if cells.size == 0:
        return False
    if x + int(cells[:, 1].max()) >= occ.shape[1] or x < 0:
        return False
    return all(fits(occ, cells, y, x) for y in (-3, -2, -1, 0))


def drop(occ, piece, x):
    """Resting anchor row of a legal piece."""
    cells = np.argwhere(piece)
    y = 0
    while fits(occ, cells, y + 1, x):
        y += 1
    return y


def place_and_clear(occ, piece, x):
    """-> (new occupancy, rows cleared, resting row)."""
    y = drop(occ, piece, x)
    g = occ.copy()
    for i, j in np.argwhere(piece):
        g[y + i, x + j] = True
    full = g.all(axis=1)
    n = int(full.sum())
    if n:
        kept = g[~full]
        g = np.concatenate([np.zeros((n, g.shape[1]), bool), kept], axis=0)
    return g, n, y


def legal_table(occ, rots):
    C = occ.shape[1]
    return np.array([[is_legal(occ, rots[r], x) for x in range(C)] for r in range(4)])



def _tt(r, c):
    def f():
        from jumanji.environments import Tetris

        return Tetris(num_rows=r, num_cols=c)
    return f


# extra configurations for C10: minimum height with a wide board, minimum width with a tall board
EXTRA_INSTANCE_CONFIGS = {"x_r4c20": _tt(4, 20), "x_r20c4": _tt(20, 4)}

def _split_clear(g_full_rows):
    n = int(g_full_rows.size)
    return n >= 2 and int(g_full_rows.max() - g_full_rows.min()) + 1 > n


def split_ready(g):
    """Plan-bias feature: how close board g is to a position where one tall piece dropped into a free
    column w completes rows a and a+2 but not the row between them (the rare 'a row between two cleared
    rows survives' case)."""
    R, C = g.shape
    miss = [set(np.flatnonzero(~g[r]).tolist()) for r in range(R)]
    tot = 0
    for a in range(R - 2):
        for w in range(C):
            if g[: a + 3, w].any():
                continue
            ma, mb, mc = miss[a], miss[a + 1], miss[a + 2]
            if w in ma and w in mb and w in mc and len(mb) >= 2:
                if len(ma) == 1 and len(mc) == 1:
                    tot += 40
                elif len(ma) <= 2 and len(mc) <= 2:
                    tot += 12
    return tot


def greedy_score(occ, piece, x):
    """Heuristic value of a legal placement (plan bias only, never an oracle): complete rows (several at
    once and non-adjacent ones score extra), few holes, low and flat stack, do not stack to the top,
    build positions from which non-adjacent rows can be cleared at once."""
    y = drop(occ, piece, x)
    g = occ.copy()
    for i, j in np.argwhere(piece):
        g[y + i, x + j] = True
    full = np.flatnonzero(g.all(axis=1))
    n = int(full.size)
    split = _split_clear(full)  # rows cleared by one piece are not contiguous
    if n:
        g = np.concatenate([np.zeros((n, g.shape[1]), bool), g[~g.all(axis=1)]], axis=0)
    R, C = g.shape
    heights = np.where(g.any(axis=0), R - np.argmax(g, axis=0), 0)
    holes = int(sum((~g[R - heights[c]:, c]).sum() for c in range(C)))
    bump = int(np.abs(np.diff(heights)).sum())
    ready = (1 if C <= 6 else 3) * split_ready(g)
    danger = 1000 if (n == 0 and heights.max() >= R - 1) else 0
    return 10 * n * n + (100 if split else 0) + ready - 3 * holes - int(heights.sum()) - bump - danger


def _stat(line):
    """Debug aid: with VF_MODEL_STATS=<file> the model appends one line per observed line clear, so that
    the reach of the generators can be measured from outside (the drivers have no counter for it)."""
    path = os.environ.get("VF_MODEL_STATS")
    if path:
        with open(path, "a") as f:
            f.write(line + "\n")


class M(Model):
    ENV = "Tetris"

    def __init__(self, b):
        super().__init__(b)
        self.R, self.C, self.T = int(b.env.num_rows), int(b.env.num_cols), int(b.env.time_limit)
        self.P = pieces()

    # ---- helpers
    def _occ(self, s):
        g = np.asarray(s.grid_padded)
        return g[: self.R, : self.C] > 0

    def _idx(self, s):
        return int(s.tetromino_index)

    def _act(self, a):
        a = np.asarray(a).astype(np.int64).reshape(-1)
        return int(a[0]), int(a[1])

    def _in_spec(self, s, a):
        r, x = self._act(a)
        return 0 <= r < 4 and 0 <= x < self.C and 0 <= self._idx(s) < self.P.shape[0]

    def _padding_problems(self, s):
        g = np.asarray(s.grid_padded)
        out = []
        # audit: the contents (and exact extent) of the padding are internal representation that no property mentions
        # (a floor of ones would be an equally valid encoding) - only the board region must be readable and, as
        # documented, hold zeros / positive values
        if g.ndim != 2 or g.shape[0] < self.R or g.shape[1] < self.C:
            return [("grid_padded shape", str(g.shape))]
        if (g[: self.R, : self.C] < 0).any():
            out.append(("negative grid value", str(int(g[: self.R, : self.C].min()))))
        return out

    # ---- plan bias ('solve' mode of the drivers)
    def solve_action(self, s, r=0):
        """Greedy line-clearing placement; `r` diversifies: ties among the best placements are broken by
        r, and every eighth call plays a second-best placement (leaves holes that later give clears of
        non-adjacent rows).  None when nothing is legal."""
        idx = self._idx(s)
        if not (0 <= idx < self.P.shape[0]):
            return None
        occ, rots = self._occ(s), self.P[idx]
        pool = [(int(rr), int(xx)) for rr, xx in np.argwhere(legal_table(occ, rots))]
        if not pool:
            return None
        r = int(r)
        scores = [greedy_score(occ, rots[rr], xx) for rr, xx in pool]
        ranks = sorted(set(scores), reverse=True)
        want = ranks[0] if r % 8 else ranks[min(1, len(ranks) - 1)]
        group = [a for a, sc in zip(pool, scores) if sc == want]
        return np.asarray(group[(r // 8) % len(group)], np.int32)

    # ---- C04 / C05
    def legal(self, s):
        idx = self._idx(s)
        if not (0 <= idx < self.P.shape[0]):
            return np.zeros((4, self.C), bool)
        return legal_table(self._occ(s), self.P[idx])

    def reacted_invalid(self, s, a, s2, ts2, agent=None):
        if int(ts2.step_type) != LAST:
            return False
        if float(ts2.reward) != 0.0:
            return False  # an invalid move is never rewarded
        if int(s.step_count) + 1 >= self.T:
            return None  # LAST because of the time limit
        if not self.legal(s2).any():
            return None  # LAST possibly because the next piece cannot be placed
        return True

    def check_illegal(self, s, a, s2, ts2, agent=None):
        out = []
        if int(ts2.step_type) != LAST:
            out.append(("illegal move does not end the episode", f"step_type={int(ts2.step_type)}"))
        if float(ts2.reward) != 0.0:
            out.append(("illegal move rewarded", f"reward={float(ts2.reward)}"))
        return out

    # ---- C07
    def invariants(self, prev, a, s, ts):
        out = self._padding_problems(s)
        if out and out[0][0] == "grid_padded shape":
            return out
        occ = self._occ(s)
        full = occ.all(axis=1)
        if full.any():
            out.append(("a completely filled row was left on the board", f"rows {np.flatnonzero(full).tolist()}"))
        idx = self._idx(s)
        if not (0 <= idx < self.P.shape[0]):
            out.append(("tetromino_index is not a valid piece", str(idx)))
        else:
            if not np.array_equal(np.asarray(s.new_tetromino) > 0, self.P[idx, 0]):
                out.append(("new_tetromino is not the piece named by tetromino_index", f"index {idx}"))
            if ts is not None and int(ts.step_type) != LAST and not legal_table(occ, self.P[idx]).any():
                out.append(("episode continues although the current piece cannot be placed anywhere", f"piece {idx}"))
        # audit: "observed grid is binary" is an observation matter (C12 compares it with the clipped state) and "board
        # empty at reset" an instance matter (C10) - removed from the C07 oracle
        if prev is None:
            return out
        pocc = self._occ(prev)
        n_prev, n_now = int(pocc.sum()), int(occ.sum())
        diff = n_prev + 4 - n_now
        if diff < 0 or diff % self.C or diff // self.C > 4:
            out.append(("cell count is not cells(prev) + 4 - num_cols * cleared",
                        f"prev {n_prev} now {n_now} num_cols {self.C}"))
        else:
            cleared = diff // self.C
            if cleared:
                _stat(f"Tetris invariants clear {cleared} rows={np.flatnonzero(np.asarray(getattr(s, 'full_lines', []))).tolist()}")
            if cleared == 0 and (pocc & ~occ).any():
                out.append(("filled cells vanished without a cleared row", str(np.argwhere(pocc & ~occ)[:3].tolist())))
        # audit: reward per cleared rows, step_count and score bookkeeping are transition rules (C09 predicts them), not
        # the physical consistency / cell-count conservation C07 lists - removed from the C07 oracle
        return out

    # ---- C08 (supplementary)
    def objective(self, ep):
        """Return recomputed from the board history: every legal step adds 4 cells and removes
        num_cols per cleared row, each step pays REWARDS[rows cleared]."""
        states = [ep.s0] + list(ep.states)
        total = 0.0
        for k, (p, n) in enumerate(zip(states[:-1], states[1:])):
            r, x = self._act(ep.actions[k])
            if not (0 <= r < 4 and 0 <= x < self.C and bool(self.legal(p)[r, x])):
                break  # illegal action: pays 0 and ends the episode
            diff = int(self._occ(p).sum()) + 4 - int(self._occ(n).sum())
            if diff < 0 or diff % self.C or diff // self.C > 4:
                return None  # not a legal transition (C07/C09 report it)
            total += REWARDS[diff // self.C]
            if diff:
                _stat(f"Tetris objective clear {diff // self.C}")
        return total, 1e-3

    # ---- C09
    def predict(self, s, a):
        if not self._in_spec(s, a):
            return None
        r, x = self._act(a)
        occ = self._occ(s)
        piece = self.P[self._idx(s), r]
        if not is_legal(occ, piece, x):
            return {"last": True, "reward": 0.0}  # audit: discount is C03's, not part of C09 - not predicted
        g2, n, _ = place_and_clear(occ, piece, x)
        reward = REWARDS[n]
        # audit: state.reward, x_position and grid_padded_old are rendering helpers (last placement / previous grid for
        # the animation), not "Tetris drop and line clearing" rules - no longer predicted; the board itself is compared
        # in stochastic_ok, step_count and score (documented "cumulative reward") stay
        st = {"step_count": int(s.step_count) + 1,
              "score": np.asarray(float(s.score) + reward, np.asarray(s.score).dtype)}
        out = {"state": st, "reward": reward}
        # termination also depends on the randomly drawn next piece: decided here only when it does not
        placeable = [legal_table(g2, self.P[k]).any() for k in range(self.P.shape[0])]
        if int(s.step_count) + 1 >= self.T or not any(placeable):
            out["last"] = True
        elif all(placeable):
            out["last"] = False
        return out

    def stochastic_ok(self, s, a, s2):
        if not self._in_spec(s, a):
            return []
        r, x = self._act(a)
        occ = self._occ(s)
        piece = self.P[self._idx(s), r]
        if not is_legal(occ, piece, x):
            return []
        out = []
        g2, n, y = place_and_clear(occ, piece, x)
        if n:
            _stat(f"Tetris stochastic_ok clear {n}")
        got = self._occ(s2)
        if not np.array_equal(got, g2):
            out.append(("board after drop and line clearing differs from the rule model",
                        f"cleared {n}, resting row {y}; env rows {got.astype(int).tolist()} model rows {g2.astype(int).tolist()}"[:700]))
        out += self._padding_problems(s2)
        idx2 = self._idx(s2)
        if not (0 <= idx2 < self.P.shape[0]):
            out.append(("next tetromino_index is not a valid piece", str(idx2)))
        elif not np.array_equal(np.asarray(s2.new_tetromino) > 0, self.P[idx2, 0]):
            out.append(("next tetromino is not rotation 0 of a valid piece", f"index {idx2}"))
        return out

    # ---- C10
    def validate_instance(self, s0):
        out = self._padding_problems(s0)
        if out and out[0][0] == "grid_padded shape":
            return out
        if self._occ(s0).any():
            out.append(("board not empty at reset", ""))
        idx = self._idx(s0)
        if not (0 <= idx < self.P.shape[0]):
            out.append(("tetromino_index is not a valid piece", str(idx)))
        else:
            if not np.array_equal(np.asarray(s0.new_tetromino) > 0, self.P[idx, 0]):
                out.append(("first tetromino is not rotation 0 of the piece named by tetromino_index", f"index {idx}"))
            if int((np.asarray(s0.new_tetromino) > 0).sum()) != 4:
                out.append(("tetromino does not have 4 cells", ""))
        if int(s0.step_count) != 0 or float(s0.score) != 0.0:
            out.append(("step_count / score not zero at reset", f"{int(s0.step_count)} {float(s0.score)}"))
        return out

    # ---- C12
    def observe_check(self, s, obs):
        out = []
        g = np.asarray(s.grid_padded)
        if g.ndim != 2 or g.shape[0] < self.R or g.shape[1] < self.C:
            return [("grid_padded shape", str(g.shape))]
        want = np.clip(g[: self.R, : self.C], 0, 1)
        fl = np.asarray(getattr(s, "full_lines", []))  # debug statistics only, never asserted
        if fl.any():
            _stat(f"Tetris observe_check clear {int(fl.sum())}")
        og = np.asarray(obs.grid)
        if og.shape != want.shape or not np.array_equal(og, want):
            out.append(("grid is not the occupied cells of the state clipped to 0/1", ""))
        # audit: compared by occupancy (filled cells of the state may carry any positive value; the 0/1 range of the
        # observation is spec conformance, C01)
        if not np.array_equal(np.asarray(obs.tetromino) > 0, np.asarray(s.new_tetromino) > 0):
            out.append(("tetromino differs from the state's next piece", ""))
        idx = self._idx(s)
        if 0 <= idx < self.P.shape[0] and not np.array_equal(np.asarray(obs.tetromino) > 0, self.P[idx, 0]):
            out.append(("tetromino is not the piece named by tetromino_index", f"index {idx}"))
        if not np.array_equal(np.asarray(obs.action_mask), np.asarray(s.action_mask)):
            out.append(("action_mask differs from the state", ""))
        if int(obs.step_count) != int(s.step_count):
            out.append(("step_count differs from the state", f"observation {int(obs.step_count)} state {int(s.step_count)}"))
        return out


# ============================================================================ synthetic C09 tables
SYNTHETIC_SHARDS = {"quick": 2, "thorough": 8}
_SIZES = [(4, 4), (6, 5), (5, 12), (10, 10), (7, 4), (4, 9)]
_EP_ENTRIES = ["r6c5t400", "r10c10t400", "r4c4t3", "r6c5t7", "r5c12t2"]
_FN = {}


def _fns(R, C):
    """jitted batch versions of the three utility functions for one board size."""
    if (R, C) not in _FN:
        import jax
        import jax.numpy as jnp

        from jumanji.environments.packing.tetris import utils

        mask = jax.jit(jax.vmap(utils.tetromino_action_mask))
        place = jax.jit(jax.vmap(utils.place_tetromino))

        def _clear(g):
            full = jnp.all(g[:, :C] != 0, axis=1)
            return utils.clean_lines(g, full), full

        _FN[(R, C)] = (mask, place, jax.jit(jax.vmap(_clear)))
    return _FN[(R, C)]


def _random_board(rng, R, C):
    """Occupancy of a synthetic board: heaps with holes / overhangs / full rows, never touching the
    generator of the env."""
    kind = rng.integers(0, 5)
    occ = np.zeros((R, C), bool)
    if kind == 0:  # column heights
        h = rng.integers(0, R + 1, size=C)
        for c in range(C):
            occ[R - h[c]:, c] = True
    elif kind == 1:  # heights with holes
        h = rng.integers(0, R + 1, size=C)
        for c in range(C):
            occ[R - h[c]:, c] = True
        occ &= rng.random((R, C)) < 0.8
    elif kind == 2:  # uniform noise
        occ = rng.random((R, C)) < rng.choice([0.1, 0.3, 0.6])
    elif kind == 3:  # low heap + one overhang row
        h = rng.integers(0, max(1, R // 2) + 1, size=C)
        for c in range(C):
            occ[R - h[c]:, c] = True
        r = int(rng.integers(0, R))
        occ[r, :] |= rng.random(C) < 0.5
    # kind == 4: empty board
    return occ


def _with_full_rows(rng, occ):
    occ = occ.copy()
    k = int(rng.integers(0, 5))
    rows = rng.choice(occ.shape[0], size=min(k, occ.shape[0]), replace=False)
    occ[rows, :] = True
    return occ


def _pad(occ, colours=None):
    R, C = occ.shape
    g = np.zeros((R + 3, C + 3), np.int32)
    g[:R, :C] = occ if colours is None else occ * colours
    return g


def _case(kind, R, C, occ, idx=None, rot=None, x=None):
    c = {"env": "Tetris", "synthetic": True, "kind": kind, "R": R, "C": C, "occ": occ.astype(int).tolist()}
    if idx is not None:
        c.update(piece=int(idx), rot=int(rot), x=int(x))
    return c


def _check_utils(R, C, boards, idxs, rots, xs, colours):
    """-> list of (oracle, sig, msg, case) for one batch of synthetic (board, piece, rotation, x)."""
    import jax.numpy as jnp

    P = pieces()
    mask_fn, place_fn, clear_fn = _fns(R, C)
    out = []
    n = len(boards)
    tets = np.stack([P[idxs[i], rots[i]] for i in range(n)]).astype(np.int32)
    g01 = np.stack([_pad(b) for b in boards])
    gcol = np.stack([_pad(boards[i], colours[i]) for i in range(n)])
    env_mask = np.asarray(mask_fn(jnp.asarray(g01), jnp.asarray(tets))).astype(bool)
    legal = np.array([[is_legal(boards[i], tets[i] > 0, x) for x in range(C)] for i in range(n)])
    for i in np.flatnonzero((env_mask != legal).any(axis=1)):
        x = int(np.flatnonzero(env_mask[i] != legal[i])[0])
        out.append(("synthetic.action_mask", "tetromino_action_mask differs from the straight-drop rule",
                    f"{R}x{C} piece {idxs[i]} rot {rots[i]} x {x}: env {bool(env_mask[i, x])} rule {bool(legal[i, x])}",
                    _case("mask", R, C, boards[i], idxs[i], rots[i], x)))
    # placement at legal columns only (the drop of an illegal placement is not defined)
    sel = [i for i in range(n) if legal[i, xs[i]]]
    if sel:
        new_g, _ = place_fn(jnp.asarray(gcol[sel]), jnp.asarray(tets[sel]), jnp.asarray(np.asarray(xs)[sel], jnp.int32))
        new_g = np.asarray(new_g)
        for k, i in enumerate(sel):
            y = drop(boards[i], tets[i] > 0, xs[i])
            want = boards[i].copy()
            for a, b_ in np.argwhere(tets[i] > 0):
                want[y + a, xs[i] + b_] = True
            got = new_g[k]
            # audit: only the board region is compared (padding contents are internal representation)
            if not np.array_equal(got[:R, :C] > 0, want):
                out.append(("synthetic.place", "place_tetromino differs from drop-to-rest",
                            f"{R}x{C} piece {idxs[i]} rot {rots[i]} x {xs[i]} resting row {y}",
                            _case("place", R, C, boards[i], idxs[i], rots[i], xs[i])))
            # cells that were filled keep their value (colours are not mixed up)
            elif not np.array_equal(got[:R, :C][boards[i]], gcol[i][:R, :C][boards[i]]):
                out.append(("synthetic.place", "place_tetromino altered previously filled cells", f"{R}x{C}",
                            _case("place", R, C, boards[i], idxs[i], rots[i], xs[i])))
    return out, int(len(sel)), int((legal.any(axis=1) & ~legal.all(axis=1)).sum())


def _check_clear(R, C, boards, colours):
    import jax.numpy as jnp

    _, _, clear_fn = _fns(R, C)
    out = []
    g = np.stack([_pad(boards[i], colours[i]) for i in range(len(boards))])
    got, full = clear_fn(jnp.asarray(g))
    got, full = np.asarray(got), np.asarray(full)
    for i, occ in enumerate(boards):
        fr = occ.all(axis=1)
        vals = g[i][:R, :C]
        kept = vals[~fr]
        want = np.concatenate([np.zeros((int(fr.sum()), C), np.int32), kept], axis=0)
        if not np.array_equal(got[i][:R, :C], want):  # audit: board region only
            out.append(("synthetic.clean_lines", "clean_lines differs from remove-full-rows-and-shift-down",
                        f"{R}x{C} full rows {np.flatnonzero(fr).tolist()}", _case("clear", R, C, occ)))
    return out


def _step_problems(m, hs, a, hs2, hts2):
    """Full comparison of one env transition with the rule model, including the part of the termination
    rule that `predict` cannot decide because it depends on the randomly drawn next piece."""
    out = []
    legal = bool(m.legal(hs)[tuple(int(v) for v in a)])
    want = (not legal) or int(hs.step_count) + 1 >= m.T or not m.legal(hs2).any()
    got = int(hts2.step_type) == LAST
    if want != got:
        why = "illegal action" if not legal else ("time limit" if int(hs.step_count) + 1 >= m.T else "next piece blocked" if want else "none")
        out.append(("synthetic.termination", "termination flag differs from the documented end conditions",
                    f"env LAST={got}, rules say {want} ({why})"))
    pred = m.predict(hs, a)
    if pred is not None and float(hts2.reward) != float(pred["reward"]):
        out.append(("synthetic.reward", "reward differs from the rule model",
                    f"env {float(hts2.reward)} model {float(pred['reward'])}"))
    for sig, msg in m.stochastic_ok(hs, a, hs2):
        out.append(("synthetic.board", sig, msg))
    return out


def _episode_check(b, key, picks):
    """Play one episode on the real env with a line-clearing bias (mode 2 = greedy by the rule model,
    1 = r-th legal action, 0 = r-th illegal action) and compare every transition."""
    from vf import envs, episodes

    m = M(b)
    st_, ts = b.reset(envs.make_key(key))
    hs = episodes.host(st_)
    actions, probs, clears, multi = [], [], 0, 0
    for mode, r in picks:
        L = m.legal(hs)
        pool = np.argwhere(L if mode else ~L)
        if pool.size == 0:
            pool = np.argwhere(L | ~L)
        if mode == 2 and L.any():
            occ, rots = m._occ(hs), m.P[m._idx(hs)]
            scores = [greedy_score(occ, rots[rr], xx) for rr, xx in pool]
            best = [k for k, sc in enumerate(scores) if sc == max(scores)]
            a = np.asarray(pool[best[r % len(best)]], b.act_dtype)
        else:
            a = np.asarray(pool[r % len(pool)], b.act_dtype)
        st2, ts2 = b.step(st_, a)
        hs2, hts2 = episodes.host((st2, ts2))
        actions.append(a.tolist())
        if float(hts2.reward) > 0:
            clears += 1
            multi += float(hts2.reward) > REWARDS[1]
        for o, sig, msg in _step_problems(m, hs, a, hs2, hts2):
            probs.append((o, sig, f"{msg} at step {len(actions)}"))
        if probs or int(hts2.step_type) == LAST:
            break
        st_, hs = st2, hs2
    return probs, actions, clears, int(multi)


def synthetic_c09(ctx, item, seed, tier):
    from vf import envs, episodes, hyp
    from vf.hyp import st

    shard, shards = item["shard"], item["shards"]
    n_batches = 6 if tier == "quick" else 20
    B = 64
    sizes = [sz for i, sz in enumerate(_SIZES) if i % shards == shard] or [_SIZES[shard % len(_SIZES)]]

    def batch(size, s64):
        R, C = size
        rng = np.random.default_rng([s64, R, C])
        boards = [_random_board(rng, R, C) for _ in range(B)]
        for bd in boards:  # a board with a full row is not a reachable position for the mask / placement rules
            bd[bd.all(axis=1)] = False
        idxs = rng.integers(0, 7, size=B).tolist()
        rots = rng.integers(0, 4, size=B).tolist()
        xs = rng.integers(0, C, size=B).tolist()
        colours = [rng.integers(1, 9, size=(R, C)) for _ in range(B)]
        probs, placed, mixed = _check_utils(R, C, boards, idxs, rots, xs, colours)
        ctx.evals(B * C + placed)
        ctx.count("synthetic_masks", B)
        ctx.count("synthetic_masks_mixed", mixed)
        ctx.count("synthetic_placements", placed)
        for i in range(B):
            ctx.nontrivial("tetris-syn", R, C, boards[i], idxs[i], rots[i], xs[i])
        fb = [_with_full_rows(rng, bd) for bd in boards]
        probs += _check_clear(R, C, fb, colours)
        ctx.evals(B)
        ctx.count("synthetic_clears", B)
        ctx.count("synthetic_clears_with_full_rows", sum(int(x.all(axis=1).any()) for x in fb))
        for oracle, sig, msg, case in probs:
            ctx.fail(oracle, "Tetris", sig, msg, case, size=int(np.sum(case["occ"])))

    hyp.drive({"size": st.sampled_from(sizes), "s64": st.integers(0, 2**32 - 1)}, batch, seed, n_batches * len(sizes))

    entries = [e for i, e in enumerate(_EP_ENTRIES) if i % shards == shard] or [_EP_ENTRIES[shard % len(_EP_ENTRIES)]]

    def episode(entry, key, picks):
        b = envs.bundle("Tetris", entry)
        probs, actions, clears, multi = _episode_check(b, key, picks)
        ctx.evals(len(actions))
        ctx.count("greedy_episodes")
        ctx.count("greedy_steps", len(actions))
        ctx.count("greedy_line_clears", clears)
        ctx.count("greedy_multi_line_clears", multi)
        ctx.nontrivial("tetris-ep", entry, list(key), actions)
        for oracle, sig, msg in probs:
            ctx.fail(oracle, "Tetris", sig, f"{msg} [entry={entry} key={list(key)}]",
                     {"env": "Tetris", "synthetic": True, "kind": "episode", "entry": entry, "key": list(key),
                      "actions": actions}, size=len(actions))

    picks = st.lists(st.tuples(st.sampled_from([2] * 12 + [1] * 7 + [0]), st.integers(0, 2**16)), min_size=40, max_size=120)
    hyp.drive({"entry": st.sampled_from(entries), "key": episodes.keys(), "picks": picks}, episode, seed,
              (20 if tier == "quick" else 150) * len(entries))


def synthetic_replay(case):
    kind = case.get("kind")
    if kind == "episode":
        from vf import envs, episodes

        b = envs.bundle("Tetris", case["entry"])
        m = M(b)
        st_, _ = b.reset(envs.make_key(case["key"]))
        hs = episodes.host(st_)
        for t, a in enumerate(case["actions"]):
            a = np.asarray(a, b.act_dtype)
            st_, ts = b.step(st_, a)
            hs2, hts2 = episodes.host((st_, ts))
            probs = _step_problems(m, hs, a, hs2, hts2)
            if probs:
                return [(o, sig, f"{msg} at step {t + 1}") for o, sig, msg in probs]
            if int(hts2.step_type) == LAST:
                break
            hs = hs2
        return []
    R, C = int(case["R"]), int(case["C"])
    occ = np.asarray(case["occ"]).astype(bool)
    col = [np.ones((R, C), np.int64)]
    if kind == "clear":
        return [(o, s, m) for o, s, m, _ in _check_clear(R, C, [occ], col)]
    probs, _, _ = _check_utils(R, C, [occ], [case["piece"]], [case["rot"]], [case["x"]], col)
    want = {"mask": "synthetic.action_mask", "place": "synthetic.place"}[kind]
    return [(o, s, m) for o, s, m, _ in probs if o == want]

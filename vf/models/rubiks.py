"""RubiksCube environment model - deliberately light (from docs/environments/rubiks_cube.md).

The geometric move model is owned by vf/models/cube.py (C17).  Here: the documented objective (SparseRewardFn:
+1 for solving the cube, otherwise 0; the episode ends when the cube is solved or at the time limit), instance
well-formedness (6 colours x n*n stickers each, step_count 0) and the observation (cube and step_count copied).
"""
from __future__ import annotations

import numpy as np

from vf.models.base import Model


def face_uniform(cube):
    c = np.asarray(cube)
    return bool(all((c[f] == c[f].reshape(-1)[0]).all() for f in range(c.shape[0])))


class M(Model):
    ENV = "RubiksCube"
    DETERMINISTIC_CONFIGS = {"n4s0t2"}  # zero scrambles: always the solved cube

    def __init__(self, b):
        super().__init__(b)
        self.n = int(b.env.generator.cube_size)
        self.T = int(b.env.time_limit)

    # ---- C08
    def objective(self, ep):
        final = ep.states[-1].cube if ep.states else ep.s0.cube
        return (1.0 if face_uniform(final) else 0.0), 1e-6

    # ---- C11: "the episode ends when the cube is solved or at the time limit"
    def early_end_explained(self, states, actions):
        return face_uniform(states[-1].cube)

    @staticmethod
    def early_end_explained_jnp(s):
        """device-side twin of early_end_explained for the bulk sweeps (candidates only; the host predicate decides)"""
        import jax.numpy as jnp

        return jnp.all(s.cube == s.cube[:, :1, :1])

    # ---- C10
    def validate_instance(self, s0):
        out = []
        c = np.asarray(s0.cube)
        if c.shape != (6, self.n, self.n):
            return [("cube shape", str(c.shape))]
        counts = np.bincount(c.reshape(-1).astype(np.int64).clip(0, 255), minlength=6)
        if (c < 0).any() or counts.size != 6 or not (counts == self.n * self.n).all():
            out.append(("cube is not 6 colours x n*n stickers each", f"counts {counts.tolist()}"))
        if int(self.meta.get("scrambles", -1)) == 0 and not face_uniform(c):
            out.append(("zero scrambles but the cube is not solved", str(c.tolist())))
        if int(s0.step_count) != 0:
            out.append(("initial step_count != 0", str(int(s0.step_count))))
        return out

    # ---- C12
    def observe_check(self, s, obs):
        out = []
        if not np.array_equal(np.asarray(obs.cube), np.asarray(s.cube)):
            out.append(("cube differs from the state", ""))
        # audit: dtype equality of observation and state is spec conformance (C01), not C12 - removed
        if int(obs.step_count) != int(s.step_count):
            out.append(("step_count differs from the state", f"{int(obs.step_count)} vs {int(s.step_count)}"))
        return out

    # ---- constructive moves for the 'solve' plan mode
    def solve_action(self, s, r=0):
        """First move of a sequence of <= 2 (<= 3 for small move sets) moves that solves the cube, searched with
        the geometric move tables of vf/models/cube.py (C17); None when there is none or the tables are absent."""
        try:
            from vf.models import cube as cm
        except Exception:  # noqa: BLE001 - the C17 model is optional here
            return None
        c = np.asarray(s.cube).astype(np.int64)
        if c.shape != (6, self.n, self.n):
            return None
        table = cm.perm_table(self.n)  # (A, 6 n^2)
        A = table.shape[0]
        depth = 3 if A <= 18 else 2

        def uniform(rows):
            f = rows.reshape(rows.shape[0], 6, -1)
            return (f.min(-1) == f.max(-1)).all(-1)

        rows = c.reshape(1, -1)
        first = np.full(1, -1)
        for _ in range(depth):
            rows = rows[:, table].reshape(-1, rows.shape[1])          # row i*A + a = rows[i] after move a
            first = np.where(np.repeat(first, A) < 0, np.tile(np.arange(A), len(first)), np.repeat(first, A))
            hit = np.flatnonzero(uniform(rows))
            if hit.size:
                return [int(x) for x in cm.unflatten(self.n, int(first[hit[int(r) % hit.size]]))]
        return None

"""Reference model of the sliding tile puzzle (pure NumPy), written from
docs/environments/sliding_tile_puzzle.md:

* the board is an (n, n) array holding 0 .. n*n-1 once each, 0 is the empty tile;
* `empty_tile_position` = (row, column) of the 0, zero-indexed, row 0 is the first printed row;
* actions "correspond to moving the empty tile: up (0), right (1), down (2), or left (3)":
  up = towards the first printed row (row - 1), down = row + 1, right = column + 1,
  left = column - 1;
* a move slides the adjacent tile into the hole, i.e. the blank swaps with the neighbour in that
  direction; a move that would leave the board is not valid (action mask False) and leaves the
  board unchanged;
* the goal is "all the tiles in order": 1, 2, ..., n*n-1 in reading order, hole last.

Solvability invariant (derived, not assumed): every valid move is one transposition of the n*n
board entries *and* changes the taxicab distance between the blank and any fixed cell by exactly one.
Hence `sign(permutation of all n*n entries) * (-1)^(row + col of blank)` is constant along play;
`invariant(goal)` fixes the value of the class that contains the goal.  That class has exactly
(n*n)!/2 members and (classical result, re-established here for 2x2 and 3x3 by enumeration) all of
them are reachable.
"""
from __future__ import annotations

import math

import numpy as np

UP, RIGHT, DOWN, LEFT = 0, 1, 2, 3
ACTION_NAMES = ["up", "right", "down", "left"]
# (d_row, d_col) of the blank for each action, from the documentation text above
DELTA = {UP: (-1, 0), RIGHT: (0, 1), DOWN: (1, 0), LEFT: (0, -1)}
OPPOSITE = {UP: DOWN, DOWN: UP, LEFT: RIGHT, RIGHT: LEFT}


def goal(n: int) -> np.ndarray:
    cells = list(range(1, n * n)) + [0]
    return np.asarray(cells, dtype=np.int64).reshape(n, n)


def blank_of(board: np.ndarray):
    board = np.asarray(board)
    pos = np.argwhere(board == 0)
    if len(pos) != 1:
        return None
    return int(pos[0][0]), int(pos[0][1])


def legal(n: int, blank) -> list:
    """mask[a] = the blank stays on the board."""
    r, c = blank
    out = []
    for a in range(4):
        dr, dc = DELTA[a]
        out.append(0 <= r + dr < n and 0 <= c + dc < n)
    return out


def step(board: np.ndarray, action: int):
    """-> (new board, new blank position, moved?)"""
    board = np.asarray(board)
    n = board.shape[0]
    r, c = blank_of(board)
    dr, dc = DELTA[int(action)]
    r2, c2 = r + dr, c + dc
    if not (0 <= r2 < n and 0 <= c2 < n):
        return board.copy(), (r, c), False
    new = board.copy()
    new[r, c] = board[r2, c2]
    new[r2, c2] = 0
    return new, (r2, c2), True


def is_permutation(board: np.ndarray) -> bool:
    board = np.asarray(board)
    return sorted(board.reshape(-1).tolist()) == list(range(board.size))


def perm_sign(seq) -> int:
    """Sign of the permutation i -> seq[i] by cycle counting."""
    seq = [int(x) for x in seq]
    seen = [False] * len(seq)
    sign = 1
    for i in range(len(seq)):
        if seen[i]:
            continue
        length = 0
        j = i
        while not seen[j]:
            seen[j] = True
            j = seq[j]
            length += 1
        if length % 2 == 0:
            sign = -sign
    return sign


def invariant(board: np.ndarray) -> int:
    board = np.asarray(board)
    r, c = blank_of(board)
    return perm_sign(board.reshape(-1).tolist()) * (-1) ** (r + c)


def solvable(board: np.ndarray) -> bool:
    board = np.asarray(board)
    return invariant(board) == invariant(goal(board.shape[0]))


def class_size(n: int) -> int:
    return math.factorial(n * n) // 2


# ------------------------------------------------------------------ vectorised versions (BFS)
def encode(boards: np.ndarray) -> np.ndarray:
    """Injective integer code of (B, n, n) boards with entries in 0 .. n*n-1 (base n*n digits)."""
    boards = np.asarray(boards)
    if boards.shape[0] == 0:
        return np.zeros(0, np.int64)
    b = boards.reshape(boards.shape[0], -1).astype(np.int64)
    k = b.shape[1]
    if k > 13:  # 16^16 does not fit 63 bits; not needed beyond 3x3 here
        raise ValueError("encode supports boards up to 13 cells")
    w = (k ** np.arange(k - 1, -1, -1)).astype(np.int64)
    return b @ w


def decode(codes: np.ndarray, n: int) -> np.ndarray:
    codes = np.asarray(codes, dtype=np.int64)
    k = n * n
    out = np.zeros((codes.shape[0], k), np.int64)
    x = codes.copy()
    for i in range(k - 1, -1, -1):
        out[:, i] = x % k
        x //= k
    return out.reshape(-1, n, n)


def blanks_batch(boards: np.ndarray) -> np.ndarray:
    """(B, 2) blank positions; requires exactly one 0 per board."""
    boards = np.asarray(boards)
    bsz, n, _ = boards.shape
    flat = boards.reshape(bsz, -1)
    if not ((flat == 0).sum(axis=1) == 1).all():
        raise ValueError("a board does not contain exactly one blank")
    idx = (flat == 0).argmax(axis=1)
    return np.stack([idx // n, idx % n], axis=1)


def step_batch(boards: np.ndarray, actions: np.ndarray):
    """Vectorised `step`: boards (B, n, n), actions (B,) -> (new boards, new blanks (B, 2),
    moved (B,))."""
    boards = np.asarray(boards).astype(np.int64)
    actions = np.asarray(actions).astype(np.int64)
    bsz, n, _ = boards.shape
    bl = blanks_batch(boards)
    delta = np.asarray([DELTA[a] for a in range(4)], np.int64)[actions]
    tgt = bl + delta
    moved = ((tgt >= 0) & (tgt < n)).all(axis=1)
    safe = np.where(moved[:, None], tgt, bl)
    rows = np.arange(bsz)
    new = boards.copy()
    tile = boards[rows, safe[:, 0], safe[:, 1]]
    new[rows, bl[:, 0], bl[:, 1]] = tile
    new[rows, safe[:, 0], safe[:, 1]] = 0
    return new, safe, moved


def legal_batch(n: int, blanks: np.ndarray) -> np.ndarray:
    blanks = np.asarray(blanks).astype(np.int64)
    delta = np.asarray([DELTA[a] for a in range(4)], np.int64)
    tgt = blanks[:, None, :] + delta[None, :, :]
    return ((tgt >= 0) & (tgt < n)).all(axis=2)


def invariant_batch(boards: np.ndarray) -> np.ndarray:
    """Vectorised `invariant` (sign by counting inversions, O(k^2) per board)."""
    boards = np.asarray(boards).astype(np.int64)
    bsz = boards.shape[0]
    flat = boards.reshape(bsz, -1)
    k = flat.shape[1]
    inv = np.zeros(bsz, np.int64)
    for i in range(k):
        inv += (flat[:, i:i + 1] > flat[:, i + 1:]).sum(axis=1)
    bl = blanks_batch(boards)
    return np.where((inv + bl[:, 0] + bl[:, 1]) % 2 == 0, 1, -1)

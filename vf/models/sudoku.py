"""Sudoku reference model (from docs/environments/sudoku.md and the class docstring).

Board (9, 9): -1 = empty, 0..8 = the digits 1..9.  Action (row, col, digit).  A move is legal when the
cell is empty and the digit does not yet occur in the cell's row, column or 3x3 box.  An illegal move
ends the episode with reward 0.  The episode also ends when no legal action is left (board solved, or
dead end).  Reward 1 on the step that solves the board, 0 otherwise.
"""
from __future__ import annotations

import numpy as np

from vf.models.base import Model

N = 9


def units():
    """27 units (rows, columns, boxes) as lists of (r, c)."""
    us = []
    for r in range(N):
        us.append([(r, c) for c in range(N)])
    for c in range(N):
        us.append([(r, c) for r in range(N)])
    for br in range(3):
        for bc in range(3):
            us.append([(3 * br + i, 3 * bc + j) for i in range(3) for j in range(3)])
    return us


UNITS = units()
_UR = np.array([[r for r, _ in u] for u in UNITS])
_UC = np.array([[c for _, c in u] for u in UNITS])


def legal_mask(board):
    """(9, 9, 9) bool: cell empty and digit absent from its row, column and box."""
    b = np.asarray(board).astype(np.int64)
    present = np.zeros((N, N, N), bool)  # present[r, c, d] : digit d occurs in a unit through (r, c)
    for r in range(N):
        for c in range(N):
            d = b[r, c]
            if 0 <= d < N:
                present[r, :, d] = True
                present[:, c, d] = True
                br, bc = 3 * (r // 3), 3 * (c // 3)
                present[br:br + 3, bc:bc + 3, d] = True
    empty = (b == -1)[:, :, None]
    return empty & ~present


def duplicates(boards):
    """boards (..., 9, 9) -> bool (...,): some digit 0..8 occurs twice in a row, column or box."""
    b = np.asarray(boards).astype(np.int64)
    vals = b[..., _UR, _UC]  # (..., 27, 9)
    bad = np.zeros(b.shape[:-2], bool)
    for d in range(N):
        bad |= ((vals == d).sum(-1) > 1).any(-1)
    return bad


def out_of_range(boards):
    b = np.asarray(boards).astype(np.int64)
    return ((b < -1) | (b >= N)).any(axis=(-1, -2))


def is_solved(board):
    b = np.asarray(board).astype(np.int64)
    return bool((b >= 0).all() and (b < N).all() and not duplicates(b))


def solve(board, budget=20000):
    """Backtracking solver (bit masks, most-constrained cell first) -> solved board, or None when there is no
    solution or the node budget is exhausted."""
    b = np.asarray(board).astype(np.int64)
    rows, cols, boxes = [0] * N, [0] * N, [0] * N
    grid = [[int(b[r, c]) for c in range(N)] for r in range(N)]
    empt = []
    for r in range(N):
        for c in range(N):
            d = grid[r][c]
            if d < 0:
                empt.append((r, c))
                continue
            bit = 1 << d
            k = 3 * (r // 3) + c // 3
            if d >= N or (rows[r] | cols[c] | boxes[k]) & bit:
                return None
            rows[r] |= bit
            cols[c] |= bit
            boxes[k] |= bit
    nodes = [0]
    full = (1 << N) - 1

    def rec():
        nodes[0] += 1
        if nodes[0] > budget:
            return False
        best, bi, bm = 10, -1, 0
        for i, (r, c) in enumerate(empt):
            if grid[r][c] >= 0:
                continue
            m = full & ~(rows[r] | cols[c] | boxes[3 * (r // 3) + c // 3])
            n = bin(m).count("1")
            if n < best:
                best, bi, bm = n, i, m
                if n <= 1:
                    break
        if bi < 0:
            return True
        if best == 0:
            return False
        r, c = empt[bi]
        k = 3 * (r // 3) + c // 3
        for d in range(N):
            bit = 1 << d
            if bm & bit:
                grid[r][c] = d
                rows[r] |= bit
                cols[c] |= bit
                boxes[k] |= bit
                if rec():
                    return True
                grid[r][c] = -1
                rows[r] &= ~bit
                cols[c] &= ~bit
                boxes[k] &= ~bit
        return False

    if not rec():
        return None
    out = np.array(grid, np.int64)
    return out if is_solved(out) else None


class M(Model):
    ENV = "Sudoku"
    DETERMINISTIC_CONFIGS = {"dummy"}

    def __init__(self, b):
        super().__init__(b)
        self._db_scanned = False

    def _rcd(self, a):
        a = np.asarray(a).reshape(-1)
        return int(a[0]), int(a[1]), int(a[2])

    # ---- C04 / C05
    def legal(self, s):
        return legal_mask(s.board)

    def reacted_invalid(self, s, a, s2, ts2, agent=None):
        if int(ts2.step_type) != 2:
            return False
        # LAST is also the documented reaction to "no legal action left" (solved board or dead end)
        if not legal_mask(s2.board).any():
            return None
        return True

    def check_illegal(self, s, a, s2, ts2, agent=None):
        out = []
        if int(ts2.step_type) != 2:
            out.append(("illegal move does not end the episode", f"step_type={int(ts2.step_type)}"))
        if float(ts2.reward) != 0.0:
            out.append(("illegal move rewarded", f"reward={float(ts2.reward)}"))
        return out

    # ---- C06
    def constraints(self, s):
        out = []
        b = np.asarray(s.board)
        if b.shape != (N, N):
            return [("board shape", str(b.shape))]
        if out_of_range(b):
            out.append(("board value outside -1..8", str(b.tolist())))
        if duplicates(b):
            for u in UNITS:
                vals = [int(b[r, c]) for r, c in u if b[r, c] >= 0]
                if len(vals) != len(set(vals)):
                    out.append(("digit repeated in a row, column or box", f"unit {u[0]}..{u[-1]}: {vals}"))
                    break
        return out

    def complete(self, s, ts):
        out = []
        b = np.asarray(s.board)
        # audit: C06 only says a *completed* episode holds a complete feasible solution; the reward of the last step
        # and "ended while legal actions remain" are reward / termination rules (C09 predicts both) - removed here.
        # A board that is not full ended by the documented dead end: nothing to assert.
        if bool((b != -1).all()) and not is_solved(b):
            out.append(("episode completed with a full but invalid board", str(b.tolist())))
        return out

    # ---- C09
    def predict(self, s, a):
        r, c, d = self._rcd(a)
        if not (0 <= r < N and 0 <= c < N and 0 <= d < N):
            return None
        b = np.asarray(s.board).astype(np.int64)
        if not legal_mask(b)[r, c, d]:
            return {"last": True, "reward": 0.0}
        nb = b.copy()
        nb[r, c] = d
        m = legal_mask(nb)
        return {"state": {"board": nb, "action_mask": m}, "reward": 1.0 if is_solved(nb) else 0.0,
                "last": not m.any()}

    # ---- C10
    def _scan_database(self):
        """Complete enumeration of the database held by the entry's DatabaseGenerator (no sampling)."""
        gen = getattr(self.env, "_generator", None)
        boards = getattr(gen, "_boards", None)
        if boards is None:
            return [], 0
        db = np.asarray(boards).astype(np.int64) - 1  # database format: 0 empty, 1..9 digits
        out = []
        if db.ndim != 3 or db.shape[1:] != (N, N):
            return [("database shape", str(db.shape))], 0
        bad = np.flatnonzero(out_of_range(db))
        if bad.size:
            out.append(("database board with a value outside 0..9", f"{bad.size} boards, first index {int(bad[0])}"))
        dup = np.flatnonzero(duplicates(db))
        if dup.size:
            out.append(("database board with a digit repeated in a row, column or box",
                        f"{dup.size} boards, first index {int(dup[0])}: {(db[dup[0]] + 1).tolist()}"))
        # audit: "every puzzle has an empty cell" is not an invariant C10 lists (puzzles are conflict-free) - removed
        return out, int(db.shape[0])

    def c10_extra(self, ctx):
        """Optional driver hook: exhaustive validation of the shipped database of this entry."""
        probs, n = self._scan_database()
        self._db_scanned = True
        if n:
            ctx.evals(n)
            ctx.count("database_boards_enumerated", n)
            ctx.exhaustive[f"sudoku_database_{self.b.entry}_all_{n}_boards"] = True
        return probs

    def validate_instance(self, s0):
        out = []
        if not self._db_scanned:
            self._db_scanned = True
            out.extend(self._scan_database()[0])
        b = np.asarray(s0.board)
        if b.shape != (N, N):
            return out + [("board shape", str(b.shape))]
        if out_of_range(b):
            out.append(("board value outside -1..8", str(b.tolist())))
        if duplicates(b):
            out.append(("puzzle has a digit repeated in a row, column or box", str(b.tolist())))
        # audit: "has an empty cell" is not a listed invariant, and the reset mask is judged by C04 - not asserted here
        return out

    # ---- C12
    def observe_check(self, s, obs):
        out = []
        if not np.array_equal(np.asarray(obs.board), np.asarray(s.board)):
            out.append(("board differs from the state", ""))
        if not np.array_equal(np.asarray(obs.action_mask), np.asarray(s.action_mask)):
            out.append(("action_mask differs from the state", ""))
        if not np.array_equal(np.asarray(obs.action_mask).astype(bool), legal_mask(s.board)):
            out.append(("action_mask is not 'cell empty and digit absent from row/column/box' of the board", ""))
        return out

    # ---- constructive moves for the 'solve' plan mode
    def solve_action(self, s, r=0):
        """A (row, col, digit) that keeps the puzzle on a path to its solution (r picks the cell); None once the
        position has no solution (or the search budget was exhausted on it or on a predecessor)."""
        b = np.asarray(s.board).astype(np.int64)
        if b.shape != (N, N) or out_of_range(b) or not (b == -1).any():
            return None
        dead = getattr(self, "_dead", None)
        if dead is not None and ((dead == -1) | (dead == b)).all():
            return None  # extends a position already found hopeless
        sol = getattr(self, "_sol", None)
        if sol is None:
            # a solution shipped with the generator (DummyGenerator) is used only after it has been verified
            cand = getattr(getattr(self.env, "_generator", None), "_solved_board", None)
            if cand is not None and np.asarray(cand).shape == (N, N) and is_solved(cand):
                sol = np.asarray(cand).astype(np.int64)
        if sol is None or not ((b == -1) | (b == sol)).all():
            sol = solve(b, budget=5000)
            self._sol = sol
            if sol is None:
                self._dead = b.copy()
                return None
        empt = np.argwhere(b == -1)
        rr, cc = empt[int(r) % len(empt)]
        return [int(rr), int(cc), int(sol[rr, cc])]

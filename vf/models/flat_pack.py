"""FlatPack reference model (from docs/environments/flat_pack.md and the class docstrings).

Rules: the grid (num_rows x num_cols, 0 = empty) is to be covered by `num_blocks` blocks; every block
is a (3, 3) array whose non-zero cells carry the block's number.  Action (block, rotation, row, col):
rotate the block `rotation` times by 90 degrees (the docs do not name the sense: the model reads the
convention off the environment's own reaction to one probe placement, see `M._sense`, and then demands
that mask, placement and reward all follow that one convention) and put the top-left corner
of the rotated (3, 3) array on grid cell (row, col); row <= num_rows-3 and col <= num_cols-3, so the
array is always inside the grid.  Legal <=> the block is not placed yet and its non-zero cells fall
on empty cells.  An illegal action is ignored (grid and placed_blocks unchanged) but still counts as a
step; the episode ends when `num_blocks` steps have been taken (or the grid is filled, which cannot
happen earlier).  Rewards: CellDense = cells of the placed block / grid cells, BlockDense =
1 / num_blocks per placed block, 0 for an ignored action.
"""
from __future__ import annotations

import numpy as np

from vf.models.base import Model

LAST = 2

# bookkeeping of the exact-cover search of C10 (budget exhausted = inconclusive, never a violation)
STATS = {"cover_found": 0, "cover_inconclusive": 0, "cover_nodes": 0}
COVER_BUDGET = 200_000


def rot(block, k, cw=True):
    """k quarter turns, clockwise (cw=True) or anticlockwise."""
    return np.rot90(np.asarray(block), (-int(k) if cw else int(k)) % 4)


def block_id(block):
    """(id, ok): the single non-zero value carried by a block."""
    vals = np.unique(block[block != 0])
    if vals.size == 1:
        return int(vals[0]), True
    return (int(vals[0]) if vals.size else 0), False


def _norm_cells(mask):
    """frozenset of (r, c) cells of a bool pattern, shifted to the origin of its bounding box."""
    rc = np.argwhere(mask)
    if rc.size == 0:
        return frozenset()
    rc = rc - rc.min(0)
    return frozenset(map(tuple, rc.tolist()))


class M(Model):
    ENV = "FlatPack"
    EPISODE_CAP = 60

    @property
    def DETERMINISTIC_CONFIGS(self):
        return (self.b.entry,) if type(self.env.generator).__name__.startswith("Toy") else ()

    def __init__(self, b):
        super().__init__(b)
        env = b.env
        self.N = int(env.num_blocks)
        self.R, self.C = int(env.num_rows), int(env.num_cols)
        rw = b.meta.get("reward")
        if rw is None:
            rw = "block" if type(env.reward_fn).__name__ == "BlockDenseReward" else "cell"
        self.reward_kind = rw
        self._cw = None

    def _sense(self):
        """Rotation sense of the action's `rotation` component.  docs/environments/flat_pack.md and `rotate_block`
        only say "number of 90 degree rotations ({0, 90, 180, 270} degrees)": clockwise and anticlockwise are both
        valid readings, so neither is an oracle.  The convention is read off the env once (one probe placement of a
        block whose 90 and 270 degree images differ, on an empty grid); everything else must then be consistent
        with it.  Falls back to clockwise when the probe is inconclusive (then any inconsistency is reported)."""
        if self._cw is None:
            self._cw = True
            try:
                from vf import envs, episodes

                for kw in range(8):
                    st, _ = self.b.reset(envs.make_key((kw, 20231)))
                    blocks = np.asarray(episodes.host(st).blocks)
                    cand = [i for i in range(blocks.shape[0])
                            if not np.array_equal(rot(blocks[i], 1, True) != 0, rot(blocks[i], 1, False) != 0)]
                    if not cand:
                        continue
                    i = cand[0]
                    s2, _ = self.b.step(st, np.asarray([i, 1, 0, 0], self.b.act_dtype))
                    g = np.asarray(episodes.host(s2).grid)[:3, :3] != 0
                    if np.array_equal(g, rot(blocks[i], 1, False) != 0):
                        self._cw = False
                    break
            except Exception:  # noqa: BLE001 - calibration is best effort, the default stands
                pass
        return self._cw

    # ------------------------------------------------------------------------------------ helpers
    def _legal_grid(self, grid, blocks, placed):
        occ = np.asarray(grid) != 0
        R, C = occ.shape
        out = np.zeros((self.N, 4, max(R - 2, 0), max(C - 2, 0)), bool)
        if R < 3 or C < 3:
            return out
        win = np.lib.stride_tricks.sliding_window_view(occ, (3, 3))       # (R-2, C-2, 3, 3)
        for i in range(min(self.N, len(blocks))):
            if placed[i]:
                continue
            for k in range(4):
                pat = rot(blocks[i], k, self._sense()) != 0
                out[i, k] = ~(win & pat[None, None]).any(axis=(2, 3))
        return out

    def _a(self, a):
        a = np.asarray(a).astype(np.int64).reshape(-1)
        return int(a[0]), int(a[1]), int(a[2]), int(a[3])

    def _is_legal(self, s, a):
        i, k, r, c = self._a(a)
        if not (0 <= i < self.N and 0 <= k < 4 and 0 <= r <= self.R - 3 and 0 <= c <= self.C - 3):
            return False
        if bool(np.asarray(s.placed_blocks)[i]):
            return False
        pat = rot(np.asarray(s.blocks)[i], k, self._sense()) != 0
        return not (np.asarray(s.grid)[r:r + 3, c:c + 3][pat] != 0).any()

    # ---------------------------------------------------------------------------------- C04 / C05
    def legal(self, s):
        return self._legal_grid(np.asarray(s.grid), np.asarray(s.blocks), np.asarray(s.placed_blocks).astype(bool))

    def reacted_invalid(self, s, a, s2, ts2, agent=None):
        same_grid = np.array_equal(np.asarray(s.grid), np.asarray(s2.grid))
        same_placed = np.array_equal(np.asarray(s.placed_blocks), np.asarray(s2.placed_blocks))
        return bool(same_grid and same_placed)

    def check_illegal(self, s, a, s2, ts2, agent=None):
        out = []
        if not np.array_equal(np.asarray(s.grid), np.asarray(s2.grid)):
            out.append(("ignored (illegal) placement changed the grid", ""))
        if not np.array_equal(np.asarray(s.placed_blocks), np.asarray(s2.placed_blocks)):
            out.append(("ignored (illegal) placement changed placed_blocks", ""))
        if not np.array_equal(np.asarray(s.blocks), np.asarray(s2.blocks)):
            out.append(("ignored (illegal) placement changed the blocks", ""))
        # audit: C05 says "the move is ignored and the episode continues"; only an early end is a C05 matter (a missing
        # LAST at the num_blocks-th step is the termination rule: C09 / C11)
        if int(ts2.step_type) == LAST and int(s.step_count) + 1 < self.N:
            out.append(("ignored placement ended the episode before num_blocks steps",
                        f"step_count {int(s.step_count)} -> step_type {int(ts2.step_type)}, num_blocks {self.N}"))
        if float(np.asarray(ts2.reward)) != 0.0:
            out.append(("ignored (illegal) placement was rewarded", f"reward={float(np.asarray(ts2.reward))}"))
        return out

    # ---------------------------------------------------------------------------------------- C06
    def constraints(self, s):
        out = []
        grid = np.asarray(s.grid).astype(np.int64)
        blocks = np.asarray(s.blocks).astype(np.int64)
        placed = np.asarray(s.placed_blocks).astype(bool)
        if grid.min(initial=0) < 0 or grid.max(initial=0) > self.N:
            out.append(("grid holds a value that is not a block number (blocks stacked on one cell)",
                        f"values {np.unique(grid).tolist()[:12]}"))
        ids = {}
        for i in range(blocks.shape[0]):
            k, ok = block_id(blocks[i])
            ids[i] = k
        for i, k in ids.items():
            cells = grid == k if k != 0 else np.zeros_like(grid, bool)
            n_have, n_want = int(cells.sum()), int((blocks[i] != 0).sum())
            if placed[i]:
                if n_have != n_want:
                    out.append(("cells carrying a placed block's number do not match the block's cell count",
                                f"block index {i} (number {k}): {n_have} cells on the grid, block has {n_want}"))
                elif _norm_cells(cells) not in {_norm_cells(rot(blocks[i], r) != 0) for r in range(4)}:
                    out.append(("cells carrying a placed block's number do not form the block's shape",
                                f"block index {i} (number {k})"))
            elif n_have:
                out.append(("an unplaced block's number is present on the grid",
                            f"block index {i} (number {k}): {n_have} cells"))
        known = set(ids.values()) | {0}
        stray = [int(v) for v in np.unique(grid) if int(v) not in known]
        if stray:
            out.append(("grid holds a number that belongs to no block", f"values {stray[:8]}"))
        return out

    def complete(self, s, ts):
        placed = np.asarray(s.placed_blocks).astype(bool)
        grid = np.asarray(s.grid)
        out = []
        if not placed.all():
            out.append(("episode of masked-in placements ended with unplaced blocks",
                        f"placed {int(placed.sum())}/{self.N}, step_count {int(s.step_count)}"))
        elif (grid == 0).any():
            out.append(("all blocks placed but the grid is not fully covered", f"{int((grid == 0).sum())} empty cells"))
        return out

    # ---------------------------------------------------------------------------------------- C08
    def objective(self, ep):
        if not ep.states:
            return None
        s = ep.states[-1]
        if self.reward_kind == "block":
            return float(np.asarray(s.placed_blocks).sum()) / self.N, 1e-5
        grid = np.asarray(s.grid)
        return float((grid != 0).sum()) / float(grid.size), 1e-5

    # ---------------------------------------------------------------------------------------- C09
    def predict(self, s, a):
        i, k, r, c = self._a(a)
        grid = np.asarray(s.grid).astype(np.int64).copy()
        placed = np.asarray(s.placed_blocks).astype(bool).copy()
        blocks = np.asarray(s.blocks)
        reward = 0.0
        if self._is_legal(s, a):
            blk = rot(blocks[i], k, self._sense()).astype(np.int64)
            grid[r:r + 3, c:c + 3] += blk
            placed[i] = True
            reward = (1.0 / self.N) if self.reward_kind == "block" else float((blk != 0).sum()) / float(grid.size)
        steps = int(s.step_count) + 1
        last = steps >= self.N or not (grid == 0).any()
        st = {"grid": grid.astype(np.asarray(s.grid).dtype), "placed_blocks": placed, "step_count": steps,
              "blocks": blocks, "num_blocks": np.asarray(s.num_blocks),
              "action_mask": self._legal_grid(grid, blocks, placed)}
        return {"state": st, "reward": reward, "last": last}

    # ---------------------------------------------------------------------------------------- C10
    def _exact_cover(self, blocks, budget=None, occ0=0, used0=None, cw=True):
        """Bounded backtracking over the placements the ACTION SPACE can express (block, rotation,
        top-left corner of the rotated (3, 3) array at row <= R-3, col <= C-3): always fill the first
        empty cell (row-major) with an unused block one of whose placements has its first cell there.
        -> (True, actions) / (False, None) / (None, None) when the node budget is exhausted.
        `cw` only decides how the rotation component of the returned actions is labelled (the set of placements is
        the same in both senses)."""
        R, C = self.R, self.C
        budget = (COVER_BUDGET if len(blocks) <= 9 else COVER_BUDGET // 5) if budget is None else budget
        n = len(blocks)
        shape_class = {}
        klass = []
        for i in range(n):
            key = (np.asarray(blocks[i]) != 0).tobytes()
            klass.append(shape_class.setdefault(key, len(shape_class)))
        bucket = [[] for _ in range(R * C)]
        for i in range(n):
            seen = set()
            for k in range(4):
                p = rot(blocks[i], k, cw) != 0
                rc = np.argwhere(p)
                if rc.size == 0:
                    continue
                for r in range(R - 2):
                    for c in range(C - 2):
                        m = 0
                        for dr, dc in rc.tolist():
                            m |= 1 << ((r + dr) * C + (c + dc))
                        if m in seen:
                            continue
                        seen.add(m)
                        low = (m & -m).bit_length() - 1
                        bucket[low].append((i, m, (i, k, r, c)))
        full = (1 << (R * C)) - 1
        used = [False] * n if used0 is None else [bool(u) for u in used0]
        nodes = [0]
        sol = []

        def rec(occ):
            if occ == full:
                return all(used)
            cell = ((occ + 1) & ~occ).bit_length() - 1
            tried = set()
            for i, m, act in bucket[cell]:
                if used[i] or (m & occ):
                    continue
                t = (klass[i], m)
                if t in tried:
                    continue
                tried.add(t)
                nodes[0] += 1
                if nodes[0] > budget:
                    return None
                used[i] = True
                sol.append(act)
                res = rec(occ | m)
                if res:
                    return True
                sol.pop()
                used[i] = False
                if res is None:
                    return None
            return False

        res = rec(int(occ0))
        STATS["cover_nodes"] += nodes[0]
        return (res, list(sol)) if res else (res, None)

    def solution_actions(self, s0):
        """Actions (block, rotation, row, col) that tile the grid from the reset state, or None."""
        res, sol = self._exact_cover(np.asarray(s0.blocks).astype(np.int64), cw=self._sense())
        return [np.asarray(a, np.int32) for a in sol] if res else None

    def solve_action(self, s, r=0):
        """Next action of an exact cover of the *remaining* empty cells by the unplaced blocks,
        computed from the current state (cached along the plan); None when there is none (any more)
        or the search budget is exhausted."""
        blocks = np.asarray(s.blocks).astype(np.int64)
        grid = np.asarray(s.grid)
        placed = np.asarray(s.placed_blocks).astype(bool)
        if blocks.shape != (self.N, 3, 3) or grid.shape != (self.R, self.C) or placed.all():
            return None
        if not hasattr(self, "_plans"):
            self._plans = {}
        occ = 0
        for f in np.flatnonzero(grid.reshape(-1) != 0).tolist():
            occ |= 1 << f
        key = (blocks.tobytes(), occ, placed.tobytes())
        if key not in self._plans:
            if len(self._plans) > 4096:
                self._plans.clear()
            res, sol = self._exact_cover(blocks, budget=COVER_BUDGET // 5, occ0=occ, used0=placed, cw=self._sense())
            self._plans[key] = sol if res else None
            if res:                       # remember the continuation for the states along the plan
                o, u = occ, placed.copy()
                for j, (i, k, rr, cc) in enumerate(sol[:-1]):
                    for dr, dc in np.argwhere(rot(blocks[i], k, self._sense()) != 0).tolist():
                        o |= 1 << ((rr + dr) * self.C + (cc + dc))
                    u = u.copy()
                    u[i] = True
                    self._plans.setdefault((blocks.tobytes(), o, u.tobytes()), sol[j + 1:])
        plan = self._plans[key]
        if not plan:
            return None
        return np.asarray(plan[0], np.int32)

    def validate_instance(self, s0):
        out = []
        blocks = np.asarray(s0.blocks).astype(np.int64)
        grid = np.asarray(s0.grid)
        if blocks.shape != (self.N, 3, 3):
            return [("blocks array is not (num_blocks, 3, 3)", str(blocks.shape))]
        if grid.shape != (self.R, self.C):
            return [("grid has the wrong shape", str(grid.shape))]
        if int(np.asarray(s0.num_blocks)) != self.N:
            out.append(("num_blocks differs from rows x cols of blocks", f"{int(np.asarray(s0.num_blocks))} vs {self.N}"))
        if (grid != 0).any():
            out.append(("grid not empty at reset", ""))
        if np.asarray(s0.placed_blocks).any():
            out.append(("blocks already placed at reset", ""))
        if int(np.asarray(s0.step_count)) != 0:
            out.append(("step_count not 0 at reset", ""))
        idv = []
        for i in range(self.N):
            k, ok = block_id(blocks[i])
            idv.append(k)
            if not ok:
                out.append(("a block is empty or carries more than one number", f"block index {i}: {blocks[i].tolist()}"))
        if sorted(idv) != list(range(1, self.N + 1)):
            out.append(("block numbers are not exactly 1..num_blocks", f"{sorted(idv)[:30]}"))
        total = int((blocks != 0).sum())
        if total != self.R * self.C:
            out.append(("block cells do not sum to the grid area", f"{total} vs {self.R * self.C}"))
        # audit: the shape of action_mask is spec conformance (C01), not an instance invariant - removed
        if out:
            return out
        res, _ = self._exact_cover(blocks)
        if res is None:
            STATS["cover_inconclusive"] += 1
        elif res:
            STATS["cover_found"] += 1
        else:
            out.append(("no sequence of actions can tile the grid with the generated blocks (exhaustive search over "
                        "all placements of the action space)", f"blocks {blocks.tolist()}"))
        return out

    # ---------------------------------------------------------------------------------------- C12
    def observe_check(self, s, obs):
        out = []
        for name, o, w in (("grid", obs.grid, s.grid), ("blocks", obs.blocks, s.blocks),
                           ("action_mask", obs.action_mask, s.action_mask)):
            o, w = np.asarray(o), np.asarray(w)
            if o.shape != w.shape or not np.array_equal(o, w):
                out.append((f"observation field {name} differs from the state", ""))
        return out

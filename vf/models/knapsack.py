"""Knapsack reference model (from docs/environments/knapsack.md and the class docstring).

Rules: an action is the index of the next item to pack.  It is legal iff the item is not packed yet
and its weight does not exceed the remaining budget.  A legal action packs the item (budget reduced
by its weight).  The episode ends when no further item can be added (all packed, or every unpacked
item is heavier than the remaining budget) or when the chosen action is invalid; an invalid action
earns reward 0 and leaves the problem state untouched.  Dense reward = value of the item packed at
this step; sparse reward = sum of the values of the packed items, paid at the end of the episode.
"""
from __future__ import annotations

import numpy as np

from vf.models.base import Model

REWARD_TWINS = {"n10s": "n10d", "n10d": "n10s", "n50d": "n50s", "n50s": "n50d", "q8d": "q8s", "q8s": "q8d",
                "t12d": "t12s", "t12s": "t12d", "n5b4d": "n5b4s", "n5b4s": "n5b4d"}



def _ks(n, budget):
    def f():
        from jumanji.environments import Knapsack
        from jumanji.environments.packing.knapsack.generator import RandomGenerator

        return Knapsack(generator=RandomGenerator(num_items=n, total_budget=budget))
    return f


# extra generator configurations for C10: a single item, many items with a tiny budget
EXTRA_INSTANCE_CONFIGS = {"x_n1b05": _ks(1, 0.5), "x_n200b1": _ks(200, 1.0)}

class M(Model):
    ENV = "Knapsack"
    REWARD_TWINS = REWARD_TWINS  # the C08 driver looks the table up on the model instance

    def __init__(self, b):
        super().__init__(b)
        self.N = int(b.env.num_items)
        self.budget = float(b.meta.get("budget", b.env.total_budget))
        rw = b.meta.get("reward")
        if rw is None:
            rw = "sparse" if type(b.env.reward_fn).__name__.lower().startswith("sparse") else "dense"
        self.dense = rw == "dense"

    # ---- helpers
    @staticmethod
    def _arrays(s):
        w = np.asarray(s.weights)
        v = np.asarray(s.values)
        p = np.asarray(s.packed_items).astype(bool)
        rb = np.asarray(s.remaining_budget)
        return w, v, p, rb

    def _legal(self, w, p, rb):
        # exact comparison of the stored float32 numbers (float64 represents them exactly)
        return ~p & (w.astype(np.float64) <= float(rb))

    # ---- plan bias ('solve' mode of the drivers)
    def solve_action(self, s, r=0):
        """Greedy by value/weight among the items that still fit (r picks among the three best):
        long episodes that fill the knapsack up to the point where nothing fits."""
        w, v, p, rb = self._arrays(s)
        idx = np.flatnonzero(self._legal(w, p, rb))
        if idx.size == 0:
            return None
        ratio = v[idx].astype(np.float64) / np.maximum(w[idx].astype(np.float64), 1e-9)
        order = idx[np.argsort(-ratio, kind="stable")]
        return np.asarray(order[int(r) % min(3, order.size)], np.int32)

    # ---- C04 / C05
    def legal(self, s):
        w, _, p, rb = self._arrays(s)
        return self._legal(w, p, rb)

    def _untouched(self, s, s2):
        out = []
        for f in ("packed_items", "remaining_budget", "weights", "values"):
            if not np.array_equal(np.asarray(getattr(s, f)), np.asarray(getattr(s2, f))):
                out.append(f)
        return out

    def reacted_invalid(self, s, a, s2, ts2, agent=None):
        # documented reaction to an invalid move: the episode ends and nothing is packed
        a = int(a)
        last = int(ts2.step_type) == 2
        packed_now = bool(np.asarray(s2.packed_items)[a]) and not bool(np.asarray(s.packed_items)[a])
        changed = bool(self._untouched(s, s2))
        if last and not changed:
            return True
        if packed_now:
            return False
        return None

    def check_illegal(self, s, a, s2, ts2, agent=None):
        out = []
        if int(ts2.step_type) != 2:
            out.append(("illegal move does not end the episode", f"step_type={int(ts2.step_type)}"))
        if float(ts2.reward) != 0.0:
            out.append(("illegal move rewarded", f"reward={float(ts2.reward)}"))
        for f in self._untouched(s, s2):
            out.append((f"illegal move changed state field {f}",
                        f"{np.asarray(getattr(s, f)).tolist()} -> {np.asarray(getattr(s2, f)).tolist()}"[:300]))
        return out

    # ---- C06
    def constraints(self, s):
        out = []
        w, _, p, rb = self._arrays(s)
        used = float(w.astype(np.float64)[p].sum())
        if used > self.budget + 1e-5:
            out.append(("packed weight exceeds the budget", f"sum={used} budget={self.budget}"))
        # audit: C06 = the hard constraint only (total packed weight within the budget, recomputed from the raw arrays);
        # the agreement / sign of the bookkeeping field remaining_budget is a transition matter (C09 predicts it) - removed
        return out

    def complete(self, s, ts):
        out = []
        w, _, p, rb = self._arrays(s)
        # recomputed in float64 from the raw arrays; items within float32 rounding of the budget are not judged
        rem = self.budget - float(w.astype(np.float64)[p].sum())
        fits = ~p & (w.astype(np.float64) <= rem - 1e-5)
        if fits.any():
            i = int(np.flatnonzero(fits)[0])
            out.append(("episode ended although an unpacked item still fits",
                        f"item {i} weight {float(w[i])} remaining {rem}"))
        return out

    # ---- C08
    def _ended_by_illegal(self, ep):
        if not ep.states:
            return False
        prev = ep.states[-2] if len(ep.states) >= 2 else ep.s0
        a = int(ep.actions[-1])
        return not (0 <= a < self.N and bool(self.legal(prev)[a]))

    def objective(self, ep):
        s = ep.states[-1] if ep.states else ep.s0
        _, v, p, _ = self._arrays(s)
        if not self.dense and self._ended_by_illegal(ep):
            return 0.0, 1e-6  # documented: the (only, final) sparse reward is 0 if the action is invalid
        return float(v.astype(np.float64)[p].sum()), 1e-4

    def twin_applicable(self, ep):
        # dense and sparse are the same objective on legal trajectories only
        return not self._ended_by_illegal(ep)

    # ---- C09
    def predict(self, s, a):
        a = int(a)
        w, v, p, rb = self._arrays(s)
        if not (0 <= a < self.N):
            return None
        if not self._legal(w, p, rb)[a]:
            return {"state": {"packed_items": p, "remaining_budget": rb, "weights": w, "values": v},
                    "reward": 0.0, "last": True}  # audit: discount is C03's, not part of C09 - not predicted
        p2 = p.copy()
        p2[a] = True
        rb2 = np.asarray(rb, np.float32) - np.asarray(w[a], np.float32)  # same float32 arithmetic as documented
        last = not self._legal(w, p2, rb2).any()
        if self.dense:
            reward = float(v[a])
        else:
            reward = float(v.astype(np.float64)[p2].sum()) if last else 0.0
        return {"state": {"packed_items": p2, "remaining_budget": rb2, "weights": w, "values": v},
                "reward": reward, "last": last}

    # ---- C10
    def validate_instance(self, s0):
        out = []
        w, v, p, rb = self._arrays(s0)
        for name, x in (("weights", w), ("values", v)):
            if x.shape != (self.N,):
                out.append((f"{name} shape", str(x.shape)))
                continue
            if not np.isfinite(x).all() or (x < 0).any() or (x > 1).any():
                out.append((f"{name} outside [0, 1]", f"min={x.min()} max={x.max()}"))
        if p.shape != (self.N,) or p.any():
            out.append(("items packed at reset", str(p.tolist())[:200]))
        if abs(float(rb) - self.budget) > 1e-6 * max(1.0, self.budget):
            out.append(("initial remaining_budget != configured total budget", f"{float(rb)} vs {self.budget}"))
        return out

    # ---- C12
    def observe_check(self, s, obs):
        out = []
        w, v, p, rb = self._arrays(s)
        if not np.array_equal(np.asarray(obs.weights), w):
            out.append(("weights differ from the state", ""))
        if not np.array_equal(np.asarray(obs.values), v):
            out.append(("values differ from the state", ""))
        if not np.array_equal(np.asarray(obs.packed_items).astype(bool), p):
            out.append(("packed_items differ from the state", ""))
        want = self._legal(w, p, rb)
        got = np.asarray(obs.action_mask).astype(bool)
        if got.shape != want.shape or not np.array_equal(got, want):
            out.append(("action_mask is not (unpacked and weight <= remaining budget)",
                        f"obs {got.tolist()} expected {want.tolist()}"[:300]))
        return out

"""Maze reference model (from docs/environments/maze.md and the class docstring).

Rules: `walls[row, col]` is True on wall cells.  Actions up (0), right (1), down (2), left (3) move
the agent by (-1,0), (0,1), (1,0), (0,-1).  A move is legal iff its target is inside the grid and not
a wall; an illegal move is a no-op (position unchanged, episode continues).  Reward 1 on the step
that reaches the target, 0 otherwise.  The episode ends when the target is reached or when
step_count reaches the time limit.  Instances: recursive-division maze (fully connected) with the
agent and the target on two distinct free cells; ToyGenerator is a fixed 5x5 maze.
"""
from __future__ import annotations

import numpy as np

from vf.models.base import Model
from vf.models.cleaner import reachable

MOVES = [(-1, 0), (0, 1), (1, 0), (0, -1)]


def _maze_env(rows, cols):
    def make():
        import jumanji.environments as E
        from jumanji.environments.routing.maze.generator import RandomGenerator

        return E.Maze(generator=RandomGenerator(num_rows=rows, num_cols=cols))
    return make


EXTRA_INSTANCE_CONFIGS = {
    "gen_r2c2": _maze_env(2, 2),
    "gen_r2c9": _maze_env(2, 9),
    "gen_r9c2": _maze_env(9, 2),
    "gen_r6c9": _maze_env(6, 9),
    "gen_r7c7": _maze_env(7, 7),
    "gen_r8c8": _maze_env(8, 8),
}


class M(Model):
    ENV = "Maze"
    DETERMINISTIC_CONFIGS = ("toy",)

    def __init__(self, b):
        super().__init__(b)
        e = b.env
        self.R, self.C, self.T = int(e.num_rows), int(e.num_cols), int(e.time_limit)

    # ------------------------------------------------------------------ helpers
    @staticmethod
    def _pos(p):
        return int(p.row), int(p.col)

    def _inside(self, r, c):
        return 0 <= r < self.R and 0 <= c < self.C

    def _free(self, walls, r, c):
        return self._inside(r, c) and not bool(walls[r, c])

    def _target(self, s, a):
        r, c = self._pos(s.agent_position)
        dr, dc = MOVES[int(a) % 4]
        return r + dr, c + dc

    # ------------------------------------------------------------------ C04 / C05
    def legal(self, s):
        walls = np.asarray(s.walls)
        return np.array([self._free(walls, *self._target(s, a)) for a in range(4)])

    def reacted_invalid(self, s, a, s2, ts2, agent=None):
        # "a no-op is performed and the agent's position remains unchanged"
        return self._pos(s.agent_position) == self._pos(s2.agent_position)

    def check_illegal(self, s, a, s2, ts2, agent=None):
        out = []
        if self._pos(s2.agent_position) != self._pos(s.agent_position):
            out.append(("agent moved on an illegal action",
                        f"{self._pos(s.agent_position)} -> {self._pos(s2.agent_position)}"))
        if self._pos(s2.target_position) != self._pos(s.target_position):
            out.append(("target moved on an illegal action", ""))
        if not np.array_equal(np.asarray(s.walls), np.asarray(s2.walls)):
            out.append(("walls changed on an illegal action", ""))
        at_target = self._pos(s.agent_position) == self._pos(s.target_position)
        if not at_target:  # (a non-terminal state never has the agent on the target)
            # "the episode continues": an ignored move must not end the episode by itself.  Whether the step is
            # LAST *at* the time limit is C11's business, and the step counter is not part of the documented
            # effect of an ignored move - neither is asserted here.
            if int(ts2.step_type) == 2 and int(s.step_count) + 1 < self.T:
                out.append(("illegal action ended the episode",
                            f"step_type={int(ts2.step_type)} step_count={int(s2.step_count)} time_limit={self.T}"))
            if float(ts2.reward) != 0.0:
                out.append(("illegal action rewarded", f"reward={float(ts2.reward)}"))
        return out

    # ------------------------------------------------------------------ C07
    def invariants(self, prev, a, s, ts):
        out = []
        walls = np.asarray(s.walls)
        if walls.shape != (self.R, self.C):
            return [("walls shape", str(walls.shape))]
        r, c = self._pos(s.agent_position)
        if not self._inside(r, c):
            out.append(("agent outside the grid", f"agent=({r},{c}) grid {self.R}x{self.C}"))
        elif walls[r, c]:
            out.append(("agent inside a wall", f"agent=({r},{c})"))
        tr, tc = self._pos(s.target_position)
        if not self._inside(tr, tc):
            out.append(("target outside the grid", f"target=({tr},{tc})"))
        elif walls[tr, tc]:
            out.append(("target inside a wall", f"target=({tr},{tc})"))
        if prev is not None:
            if not np.array_equal(np.asarray(prev.walls), walls):
                out.append(("walls changed", ""))
            if self._pos(prev.target_position) != (tr, tc):
                out.append(("target moved", f"{self._pos(prev.target_position)} -> {(tr, tc)}"))
            # (step_count and "one cell per step" are transition rules - C09/C11 -, not physical consistency)
        return out

    # ------------------------------------------------------------------ C08
    # not registered with the drivers: this environment is outside the property's enumerated list
    def unused_objective(self, ep):
        if not ep.states:
            return 0.0, 1e-6
        f = ep.states[-1]
        return (1.0 if self._pos(f.agent_position) == self._pos(f.target_position) else 0.0), 1e-6

    # ------------------------------------------------------------------ C09
    def predict(self, s, a):
        walls = np.asarray(s.walls)
        r, c = self._pos(s.agent_position)
        if walls.shape != (self.R, self.C) or not self._inside(r, c):
            return None
        t = self._target(s, a)
        if self._free(walls, *t):
            r, c = t
        tr, tc = self._pos(s.target_position)
        reached = (r, c) == (tr, tc)
        step = int(s.step_count) + 1
        last = reached or step >= self.T
        return {"state": {"agent_position.row": r, "agent_position.col": c,
                          "target_position.row": tr, "target_position.col": tc,
                          "walls": walls, "step_count": step},
                "reward": 1.0 if reached else 0.0, "last": last, "discount": 0.0 if last else 1.0}

    # ------------------------------------------------------------------ C10
    def validate_instance(self, s0):
        out = []
        walls = np.asarray(s0.walls)
        if walls.shape != (self.R, self.C):
            return [("walls shape", str(walls.shape))]
        free = ~walls.astype(bool)  # (dtype conformance is C01's business)
        ar, ac = self._pos(s0.agent_position)
        tr, tc = self._pos(s0.target_position)
        if not self._inside(ar, ac):
            out.append(("agent start outside the grid", f"({ar},{ac})"))
        elif not free[ar, ac]:
            out.append(("agent starts inside a wall", f"({ar},{ac})"))
        if not self._inside(tr, tc):
            out.append(("target outside the grid", f"({tr},{tc})"))
        elif not free[tr, tc]:
            out.append(("target inside a wall", f"({tr},{tc})"))
        if (ar, ac) == (tr, tc):
            out.append(("agent starts on the target", f"({ar},{ac})"))
        if self._inside(ar, ac) and free[ar, ac]:
            seen = reachable(free, (ar, ac))
            if (free & ~seen).any():
                out.append(("maze not fully connected from the agent's start",
                            f"{int((free & ~seen).sum())} free cells unreachable, e.g. {np.argwhere(free & ~seen)[0].tolist()}"))
        # (step_count is not an invariant of the generated problem instance: not asserted under C10)
        return out

    # ------------------------------------------------------------------ C12
    def observe_check(self, s, obs):
        out = []
        if self._pos(obs.agent_position) != self._pos(s.agent_position):
            out.append(("agent_position differs from the state", f"{self._pos(obs.agent_position)} vs {self._pos(s.agent_position)}"))
        if self._pos(obs.target_position) != self._pos(s.target_position):
            out.append(("target_position differs from the state", ""))
        if not np.array_equal(np.asarray(obs.walls), np.asarray(s.walls)):
            out.append(("walls differ from the state", ""))
        if int(obs.step_count) != int(s.step_count):
            out.append(("step_count differs from the state", f"{int(obs.step_count)} vs {int(s.step_count)}"))
        m = np.asarray(obs.action_mask).astype(bool)
        if s.action_mask is not None and not np.array_equal(m, np.asarray(s.action_mask).astype(bool)):
            out.append(("action_mask differs from the state", ""))
        if self._inside(*self._pos(s.agent_position)) and np.asarray(s.walls).shape == (self.R, self.C):
            want = self.legal(s)
            if m.shape != want.shape or not np.array_equal(m, want):
                out.append(("action_mask is not the legal set of the state shown",
                            f"obs {m.astype(int).tolist()} rules {want.astype(int).tolist()}"))
        return out

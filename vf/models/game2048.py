"""Game2048 reference model (from docs/environments/game_2048.md and the class docstring).

Board cells hold exponents (0 = empty, e = tile 2^e).  Actions 0..3 = up, right, down, left.
A move slides every tile as far as possible in the direction; two equal tiles that meet merge into
one tile of twice the value (exponent + 1); a tile produced by a merge does not merge again in the
same move; merging proceeds from the side the tiles move towards.  The reward of a move is the sum
of the values of the newly created tiles.  A move that leaves the board unchanged is invalid
(masked out) and is ignored.  After a valid move one new tile (2 or 4, i.e. exponent 1 or 2)
appears on an empty cell.  The episode ends when no valid move exists.
"""
from __future__ import annotations

import itertools

import numpy as np

from vf.models.base import Model

UP, RIGHT, DOWN, LEFT = 0, 1, 2, 3


# --------------------------------------------------------------------------------- rule model
def slide_row_left(row):
    """Slide/merge one row towards index 0 -> (new row (list of int), reward (int))."""
    tiles = [int(x) for x in row if int(x) != 0]
    out, reward, i = [], 0, 0
    while i < len(tiles):
        if i + 1 < len(tiles) and tiles[i] == tiles[i + 1]:
            out.append(tiles[i] + 1)
            reward += 2 ** (tiles[i] + 1)
            i += 2
        else:
            out.append(tiles[i])
            i += 1
    return out + [0] * (len(row) - len(out)), reward


def slide(board, action):
    """-> (board after the slide (int64, no spawn), reward)."""
    board = np.asarray(board).astype(np.int64)
    n, m = board.shape
    out = np.zeros_like(board)
    total = 0
    a = int(action)
    if a in (LEFT, RIGHT):
        for r in range(n):
            line = board[r, :] if a == LEFT else board[r, ::-1]
            new, rew = slide_row_left(line)
            out[r, :] = new if a == LEFT else new[::-1]
            total += rew
    else:
        for c in range(m):
            line = board[:, c] if a == UP else board[::-1, c]
            new, rew = slide_row_left(line)
            out[:, c] = new if a == UP else new[::-1]
            total += rew
    return out, total


def legal_moves(board):
    board = np.asarray(board).astype(np.int64)
    return np.array([not np.array_equal(slide(board, a)[0], board) for a in range(4)])


def tile_sum(board):
    b = np.asarray(board).astype(np.int64)
    return int(np.where(b > 0, 2 ** np.clip(b, 0, 62), 0).sum())


class M(Model):
    ENV = "Game2048"
    EPISODE_CAP = 4000

    def __init__(self, b):
        super().__init__(b)
        self.n = int(b.env.board_size)

    # ---- C04 / C05
    def legal(self, s):
        return legal_moves(s.board)

    def reacted_invalid(self, s, a, s2, ts2, agent=None):
        # ignore-invalid env: an ignored move leaves the board as it was (a valid move always changes it:
        # the slide changes it and a tile is spawned)
        return bool(np.array_equal(np.asarray(s.board), np.asarray(s2.board)))

    def check_illegal(self, s, a, s2, ts2, agent=None):
        out = []
        if not np.array_equal(np.asarray(s.board), np.asarray(s2.board)):
            b1, b2 = np.asarray(s.board), np.asarray(s2.board)
            diff = np.argwhere(b1 != b2)
            kind = "a tile was spawned" if (len(diff) == 1 and b1[tuple(diff[0])] == 0) else "tiles moved"
            out.append((f"ignored move changed the board ({kind})",
                        f"before {b1.tolist()} after {b2.tolist()}"))
        if int(ts2.step_type) == 2:
            out.append(("ignored move ended the episode", f"step_type={int(ts2.step_type)}"))
        if float(ts2.reward) != 0.0:
            out.append(("ignored move rewarded", f"reward={float(ts2.reward)}"))
        if float(s2.score) != float(s.score):
            out.append(("ignored move changed the score", f"{float(s.score)} -> {float(s2.score)}"))
        return out

    # ---- C07
    def invariants(self, prev, a, s, ts):
        out = []
        board = np.asarray(s.board)
        if board.shape != (self.n, self.n):
            return [("board shape", str(board.shape))]
        if (board < 0).any():
            out.append(("negative exponent on the board", str(board.tolist())))
        if not legal_moves(board).any():
            out.append(("episode continues although no move changes the board", str(board.tolist())))
        if prev is None:
            # audit: "single 2/4 tile" and "score 0" at reset are not physical consistency (C10 owns the instance;
            # the class docstring defines score as "sum of all tile values on the board") - not asserted here
            return out
        pb = np.asarray(prev.board)
        slid, rew = slide(pb, a)
        was_legal = not np.array_equal(slid, pb.astype(np.int64))
        d = tile_sum(board) - tile_sum(pb)
        if was_legal and d not in (2, 4):
            out.append(("tile sum not increased by exactly one spawned 2 or 4 after a valid move",
                        f"action {int(a)}: sum {tile_sum(pb)} -> {tile_sum(board)}; {pb.tolist()} -> {board.tolist()}"))
        if not was_legal and d != 0:
            out.append(("tile sum changed by an ignored move",
                        f"action {int(a)}: sum {tile_sum(pb)} -> {tile_sum(board)}; {pb.tolist()} -> {board.tolist()}"))
        # audit: tile count vs merges, score bookkeeping and step_count are transition rules (C09), not the
        # conservation C07 lists ("the 2048 tile sum across a move") - removed from the C07 oracle
        return out

    # ---- C08
    def objective(self, ep):
        """Sum of merged tiles through the identity
             return = sum over final tiles of (e-1)*2^e  -  4 * (number of tiles that entered as a 4)
        (a tile 2^e built from 2s has produced merges worth (e-1)*2^e; each tile that entered the board as a 4,
        the initial one included, saves one 4-merge).  Spawn values are read off tile-sum differences between
        consecutive boards (slides conserve the tile sum)."""
        boards = [np.asarray(ep.s0.board)] + [np.asarray(s.board) for s in ep.states]
        fours = int((boards[0] == 2).sum())
        for b0, b1 in zip(boards[:-1], boards[1:]):
            d = tile_sum(b1) - tile_sum(b0)
            if d == 4:
                fours += 1
            elif d not in (0, 2):
                return None  # conservation broken: C07/C09 territory, no objective can be read off
        fb = boards[-1].astype(np.int64)
        val = float(sum((int(e) - 1) * 2 ** int(e) for e in fb[fb > 0]) - 4 * fours)
        # audit: state.score is no longer a second component - C08 is about the return, and the class docstring
        # documents score differently ("the sum of all tile values on the board")
        return val, 1e-3

    # ---- C09
    def predict(self, s, a):
        pb = np.asarray(s.board).astype(np.int64)
        slid, rew = slide(pb, a)
        if np.array_equal(slid, pb):
            return {"state": {"board": pb, "score": float(s.score), "action_mask": legal_moves(pb)},
                    "reward": 0.0, "last": not legal_moves(pb).any()}
        # audit: score is judged in stochastic_ok (two documented readings), not predicted as one exact value
        st = {"step_count": int(s.step_count) + 1}
        pred = {"state": st, "reward": float(rew)}
        empties = np.argwhere(slid == 0)
        if len(empties) >= 2:
            pred["last"] = False  # a board with a tile and an empty cell always admits a move
        elif len(empties) == 1:
            outcomes = set()
            for v in (1, 2):
                nb = slid.copy()
                nb[tuple(empties[0])] = v
                outcomes.add(bool(not legal_moves(nb).any()))
            if len(outcomes) == 1:
                pred["last"] = outcomes.pop()
        return pred

    def stochastic_ok(self, s, a, s2):
        pb = np.asarray(s.board).astype(np.int64)
        slid, _ = slide(pb, a)
        if np.array_equal(slid, pb):
            return []
        nb = np.asarray(s2.board).astype(np.int64)
        out = []
        diff = np.argwhere(nb != slid)
        if len(diff) != 1:
            out.append(("board after a valid move is not slide + exactly one new tile",
                        f"{pb.tolist()} -> env {nb.tolist()} model slide {slid.tolist()}"))
        else:
            pos = tuple(diff[0])
            if slid[pos] != 0:
                out.append(("spawned tile not on a previously empty cell",
                            f"cell {pos}: {pb.tolist()} -> env {nb.tolist()} model slide {slid.tolist()}"))
            elif int(nb[pos]) not in (1, 2):
                out.append(("spawned tile is neither 2 nor 4", f"exponent {int(nb[pos])} at {pos}"))
        if not np.array_equal(np.asarray(s2.action_mask).astype(bool), legal_moves(nb)):
            out.append(("state.action_mask differs from the moves that change the new board",
                        f"board {nb.tolist()} mask {np.asarray(s2.action_mask).tolist()}"))
        # score: types.py says "the current score of the game" (= running sum of merged tiles, the game's score),
        # the class docstring says "the sum of all tile values on the board" - either documented reading is accepted
        _, rew = slide(pb, a)
        got = float(s2.score)
        if abs(got - (float(s.score) + rew)) > 1e-3 and abs(got - float(tile_sum(nb))) > 1e-3:
            out.append(("score is neither the running sum of merged tiles nor the sum of the tiles on the board",
                        f"action {int(a)} on {pb.tolist()}: {float(s.score)} -> {got} (merged {rew}, tile sum {tile_sum(nb)})"))
        return out

    def last_given_next(self, s, a, s2):
        """Termination as a function of the observed successor (optional driver hook)."""
        return bool(not legal_moves(s2.board).any())

    # ---- C10
    def validate_instance(self, s0):
        out = []
        board = np.asarray(s0.board)
        if board.shape != (self.n, self.n):
            return [("board shape", str(board.shape))]
        nz = board[board != 0]
        if nz.size != 1 or int(nz[0]) not in (1, 2) or (board < 0).any():
            out.append(("initial board is not a single 2 or 4 tile", str(board.tolist())))
        if int(s0.step_count) != 0:
            out.append(("initial step_count != 0", str(int(s0.step_count))))
        # audit: initial score (documented two ways: running score vs "sum of all tile values on the board") and the
        # initial action_mask (C04 judges the reset mask) are not instance invariants - not asserted under C10
        return out

    # ---- C12
    def observe_check(self, s, obs):
        out = []
        if not np.array_equal(np.asarray(obs.board), np.asarray(s.board)):
            out.append(("board differs from the state", ""))
        if not np.array_equal(np.asarray(obs.action_mask), np.asarray(s.action_mask)):
            out.append(("action_mask differs from the state", ""))
        if not np.array_equal(np.asarray(obs.action_mask).astype(bool), legal_moves(s.board)):
            out.append(("action_mask is not the set of moves that change the board",
                        f"board {np.asarray(s.board).tolist()} mask {np.asarray(obs.action_mask).tolist()}"))
        return out


# ------------------------------------------------------------------- synthetic tables (C09)
SYNTHETIC_SHARDS = {"quick": 1, "thorough": 2}
_JIT = {}


def _fns():
    if not _JIT:
        import jax

        from jumanji.environments.logic.game_2048 import utils as U

        _JIT["rows"] = jax.jit(jax.vmap(lambda r: U.move_left_row(r) + (U.can_move_left_row(r),)))
        _JIT["move"] = jax.jit(jax.vmap(jax.vmap(U.move, in_axes=(None, 0)), in_axes=(0, None)))
        _JIT["can"] = jax.jit(jax.vmap(jax.vmap(U.can_move, in_axes=(None, 0)), in_axes=(0, None)))
        _JIT["named"] = {0: (jax.jit(U.move_up), jax.jit(U.can_move_up)),
                         1: (jax.jit(U.move_right), jax.jit(U.can_move_right)),
                         2: (jax.jit(U.move_down), jax.jit(U.can_move_down)),
                         3: (jax.jit(U.move_left), jax.jit(U.can_move_left))}
    return _JIT


def _check_row(row, got_row, got_rew, got_can):
    """-> list of (oracle, sig, msg) for one row through move_left_row / can_move_left_row."""
    want, rew = slide_row_left(row)
    out = []
    if list(map(int, got_row)) != want:
        out.append(("synthetic.row", "move_left_row differs from the slide/merge rule",
                    f"row {list(map(int, row))}: env {list(map(int, got_row))} model {want}"))
    if abs(float(got_rew) - rew) > 1e-3:
        out.append(("synthetic.row", "move_left_row reward differs from the sum of merged tiles",
                    f"row {list(map(int, row))}: env {float(got_rew)} model {rew}"))
    if bool(got_can) != (want != list(map(int, row))):
        out.append(("synthetic.row", "can_move_left_row differs from 'the slide changes the row'",
                    f"row {list(map(int, row))}: env {bool(got_can)} model slide {want}"))
    return out


def _check_board(board, a, got_board, got_rew, got_can, tag="move"):
    want, rew = slide(board, a)
    b = np.asarray(board).tolist()
    out = []
    if not np.array_equal(np.asarray(got_board).astype(np.int64), want):
        out.append(("synthetic.board", f"{tag} differs from the slide/merge rule",
                    f"board {b} action {a}: env {np.asarray(got_board).tolist()} model {want.tolist()}"))
    # float32 rewards: exact for small tiles, relative tolerance for late-game values that float32 cannot hold exactly
    if abs(float(got_rew) - rew) > max(1e-3, 1e-6 * abs(rew)):
        out.append(("synthetic.board", f"{tag} reward differs from the sum of merged tiles",
                    f"board {b} action {a}: env {float(got_rew)} model {rew}"))
    if bool(got_can) != (not np.array_equal(want, np.asarray(board).astype(np.int64))):
        out.append(("synthetic.board", f"can_{tag} differs from 'the slide changes the board'",
                    f"board {b} action {a}: env {bool(got_can)} model slide {want.tolist()}"))
    return out


def _run_boards(ctx, boards, kind):
    """boards: (B, n, n) int32 -> all 4 actions through utils.move / utils.can_move."""
    import jax

    f = _fns()
    acts = np.arange(4, dtype=np.int32)
    nb, rew = jax.device_get(f["move"](boards, acts))
    can = jax.device_get(f["can"](boards, acts))
    for i in range(boards.shape[0]):
        for a in range(4):
            ctx.evals()
            probs = _check_board(boards[i], a, nb[i, a], rew[i, a], can[i, a])
            if can[i, a]:
                ctx.nontrivial("board", boards[i], a)
            for o, sig, msg in probs:
                ctx.fail(o, "Game2048", sig, msg,
                         {"env": "Game2048", "synthetic": True, "kind": "board", "board": boards[i].tolist(),
                          "action": a}, size=int(boards[i].size))
    ctx.count(f"synthetic_boards_{kind}", boards.shape[0])


def synthetic_c09(ctx, item, seed, tier):
    import jax

    from vf import hyp
    from vf.hyp import st

    f = _fns()
    shard, shards = item.get("shard", 0), item.get("shards", 1)
    if shard == 0:
        # every row of length 2..5 over exponents 0..6 (7^2 + 7^3 + 7^4 + 7^5 = 19 600 rows)
        total = 0
        for L in (2, 3, 4, 5):
            rows = np.array(list(itertools.product(range(7), repeat=L)), dtype=np.int32)
            got_rows, got_rew, got_can = jax.device_get(f["rows"](rows))
            for i in range(rows.shape[0]):
                ctx.evals()
                total += 1
                if got_can[i]:
                    ctx.nontrivial("row", rows[i])
                for o, sig, msg in _check_row(rows[i], got_rows[i], got_rew[i], got_can[i]):
                    ctx.fail(o, "Game2048", sig, msg,
                             {"env": "Game2048", "synthetic": True, "kind": "row", "row": rows[i].tolist()}, size=L)
        ctx.count("synthetic_rows", total)
        ctx.exhaustive["game2048_rows_len2to5_exp0to6"] = (total == 19600)
        # every 2x2 board over exponents 0..6 through the four move functions (2401 boards x 4)
        b22 = np.array(list(itertools.product(range(7), repeat=4)), dtype=np.int32).reshape(-1, 2, 2)
        _run_boards(ctx, b22, "2x2_exhaustive")
        ctx.exhaustive["game2048_boards_2x2_exp0to6_all_moves"] = (b22.shape[0] == 2401)
        # the named wrappers move_up/right/down/left + can_move_* on a fixed grid of 3x3 boards (base-3 digits)
        for code in range(0, 3 ** 9, 37):
            digits = [(code // 3 ** k) % 3 for k in range(9)]
            board = np.array(digits, np.int32).reshape(3, 3)
            for a, (mv, cm) in f["named"].items():
                gb, gr = jax.device_get(mv(board))
                gc = jax.device_get(cm(board))
                ctx.evals()
                for o, sig, msg in _check_board(board, a, gb, gr, gc, tag="named move"):
                    ctx.fail(o, "Game2048", sig, msg,
                             {"env": "Game2048", "synthetic": True, "kind": "named", "board": board.tolist(),
                              "action": a}, size=9)

    # complete table of equal-tile merges for every exponent a 6x6 board can hold (1..36): rows [e, e, 0, ...] and
    # [e, e, e, e, 0, 0] embedded in otherwise empty 6x6 boards, all four moves
    if shard == 0:
        late = []
        for e in range(1, 37):
            for row in ([e, e, 0, 0, 0, 0], [e, e, e, e, 0, 0]):
                bd = np.zeros((6, 6), np.int32)
                bd[2] = row
                late.append(bd)
                late.append(bd.T.copy())
        _run_boards(ctx, np.stack(late), "late6x6")
        ctx.exhaustive["game2048_equal_merges_6x6_exp1to36"] = True

    # Hypothesis-drawn full boards (sizes 2..6, dense / sparse, low exponents so that merges are frequent)
    n_cases = (30 if tier == "quick" else 120)

    def one(n, hi, boards):
        arr = np.array(boards, dtype=np.int32).reshape(-1, n, n)
        arr = np.minimum(arr, hi).astype(np.int32)
        _run_boards(ctx, arr, f"{n}x{n}")

    @st.composite
    def cases(draw):
        n = draw(st.sampled_from([3, 4, 4, 5, 6, 6]))
        # also late-game boards: a board of n x n cells can hold tiles up to 2^(n*n + 1) (documented larger boards
        # reach exponents beyond 31, where int32 arithmetic on tile *values* would overflow)
        hi = draw(st.sampled_from([1, 2, 3, 6, 12, n * n + 1, min(31, n * n + 1), min(32, n * n + 1)]))
        cell = st.one_of(st.just(0), st.integers(0, hi), st.integers(1, min(hi, 3)), st.integers(max(1, hi - 2), hi))
        k = 32
        boards = draw(st.lists(st.lists(cell, min_size=n * n, max_size=n * n), min_size=k, max_size=k))
        return {"n": n, "hi": hi, "boards": boards}

    hyp.drive({"c": cases()}, lambda c: one(c["n"], c["hi"], c["boards"]), seed + 17 * shard, n_cases)


def synthetic_replay(case):
    import jax

    f = _fns()
    if case.get("kind") == "row":
        row = np.array(case["row"], np.int32)
        gr, gw, gc = jax.device_get(f["rows"](row[None]))
        return _check_row(row, gr[0], gw[0], gc[0])
    board = np.array(case["board"], np.int32)
    a = int(case["action"])
    if case.get("kind") == "named":
        mv, cm = f["named"][a]
        gb, gr = jax.device_get(mv(board))
        return _check_board(board, a, gb, gr, jax.device_get(cm(board)), tag="named move")
    acts = np.arange(4, dtype=np.int32)
    nb, rew = jax.device_get(f["move"](board[None], acts))
    can = jax.device_get(f["can"](board[None], acts))
    return _check_board(board, a, nb[0, a], rew[0, a], can[0, a])

"""MMST reference model (from docs/environments/mmst.md, the class docstrings of `MMST`, `State`,
`Observation`, `DenseRewardFn`, `SplitRandomGenerator`).

Documented rules used here
* A random connected graph; node_types[v] = a for the nodes agent a has to connect, -1 for utility
  nodes.  Every agent starts on one of its nodes; each step every agent names the next node.
* "An action is invalid if the agent picks a node it has no edge to or the node is a utility node
  already been used by another agent."  Finished agents are masked (`make_action_mask`: "used to mask
  finished agents").  There is no no-op.  When several agents name the same node in one joint action
  the environment breaks the tie at random - that says nothing about legality.
* Hard constraints: agents must not share utility nodes; an agent's route is a walk along edges.
* The episode ends when every agent has connected all its nodes, or at the time limit.
* Reward (DenseRewardFn, defaults 10 / -1 / -1): per unfinished agent +10 for a valid connection (it
  reaches one of its own nodes for the first time), -1 if it does not connect, an extra -1 for an
  invalid action; the step reward is the sum over agents.
* Observation (first agent's view): connected nodes of agent a are shown as 2*a, its nodes still to
  connect as 2*a+1, utility nodes nobody connected as -1; adj_matrix, positions, step_count and
  action_mask are copies.  A node visited by two agents is not defined by the docs (excluded).
* SplitRandomGenerator "generates a random environment that is solvable by splitting the graph into
  sub graphs": the nodes are split into num_agents consecutive blocks, each a connected sub graph
  that holds all nodes of its agent; `num_edges` = "number of edges in the graph", `max_degree` =
  "maximum degree a node can have".
"""
from __future__ import annotations

import numpy as np

from vf.models.base import Model

LAST = 2
OVERFLOW_SIG = "agent connected its last node on the final step but the state does not record it"


class M(Model):
    ENV = "MMST"
    EPISODE_CAP = 120
    REPLAY_EVERY = 8  # validate_instance replays a DFS solution in the real env for every 8th instance

    def __init__(self, b):
        super().__init__(b)
        env = b.env
        self.A = int(env.num_agents)
        self.N = int(env.num_nodes)
        self.K = int(env.num_nodes_per_agent)
        self.T = int(env.time_limit)
        # consecutive node blocks: how SplitRandomGenerator happens to split the graph today.  Used as a first
        # guess by the solver / the solvability certificate only, never as a requirement.
        self.blocks = [x.tolist() for x in np.array_split(np.arange(self.N), self.A)]
        self.unknown = 0
        self._validated = 0
        self.replays = 0

    # ---------------------------------------------------------------------------------- helpers
    def _adj(self, s):
        return np.asarray(s.adj_matrix, np.int64) != 0

    def _visited(self, s):
        """per agent: set of nodes the agent has been on = its stored route (`connected_nodes`: "node indices
        denoting route, -1 --> not filled yet") plus its current position ("the index of the last visited node").
        The helper arrays `connected_nodes_index` / `position_index` are bookkeeping whose encoding the docs do
        not define; they are not read."""
        pos = np.asarray(s.positions, np.int64)
        out = []
        for a in range(self.A):
            v = {int(x) for x in self._path(s, a) if x >= 0}
            if 0 <= int(pos[a]) < self.N:
                v.add(int(pos[a]))
            out.append(v)
        return out

    def _path(self, s, a):
        cn = np.asarray(s.connected_nodes, np.int64)[a]
        empty = np.flatnonzero(cn == -1)
        return cn[: int(empty[0]) if empty.size else cn.size].tolist()

    def _todo(self, s, a):
        return [int(x) for x in np.asarray(s.nodes_to_connect, np.int64)[a].tolist()]

    def _finished(self, s, visited=None):
        visited = self._visited(s) if visited is None else visited
        return [all(x in visited[a] for x in self._todo(s, a)) for a in range(self.A)]

    # ------------------------------------------------------------------------------ C11
    def early_end_explained(self, states, actions):
        """"The episode terminates when all agents have connected their nodes or the time limit is reached":
        judged from the agents' positions over the whole history (`positions` = "index of the last visited node"),
        so it does not depend on how much of the route the `connected_nodes` buffer kept."""
        seen = [set() for _ in range(self.A)]
        for s in states:
            pos = np.asarray(s.positions, np.int64)
            for a in range(self.A):
                if 0 <= int(pos[a]) < self.N:
                    seen[a].add(int(pos[a]))
        last = states[-1]
        return all(all(x in seen[a] for x in self._todo(last, a)) for a in range(self.A))

    # ------------------------------------------------------------------------------ 'crowd' plan mode
    def crowd_step(self, s, episode_seed, r=0):
        """Same-step conflicts: as many agents as possible legally select the same node (ties between two, three,
        ... agents are resolved by a random permutation inside the env); the others play a legal node."""
        lg = self.legal(s)
        if (int(episode_seed[0]) + 2 * int(episode_seed[1])) % 3 == 0:
            # siege (every third episode): one agent stays where it is (it selects its own node, which is not a move)
            # while the others walk onto the free utility nodes around it - an unfinished agent that ends up boxed in
            adj = self._adj(s)
            pos = np.asarray(s.positions, np.int64)
            idle = int(episode_seed[0]) % self.A
            act = np.zeros(self.A, np.int64)
            around = set(np.flatnonzero(adj[int(pos[idle])]).tolist()) if 0 <= int(pos[idle]) < self.N else set()
            for a in range(self.A):
                if a == idle:
                    act[a] = int(pos[a]) if 0 <= int(pos[a]) < self.N else 0
                    continue
                idx = np.flatnonzero(lg[a])
                if idx.size == 0:
                    act[a] = 0
                    continue
                near = [v for v in idx.tolist() if v in around] or \
                       [v for v in idx.tolist() if any(adj[v, u] for u in around)]
                pool = near or idx.tolist()
                act[a] = int(pool[(r + a) % len(pool)])
            return act
        counts = lg.sum(axis=0)
        # free utility nodes first (a tie there decides who owns the node), any node otherwise
        util = np.asarray(s.node_types, np.int64) == -1
        if (counts * util).max(initial=0) >= 2:
            counts = counts * util
        best = int(counts.max()) if counts.size else 0
        act = np.zeros(self.A, np.int64)
        for a in range(self.A):
            idx = np.flatnonzero(lg[a])
            act[a] = int(idx[(r + a) % idx.size]) if idx.size else 0
        if best >= min(3, self.A):
            cands = np.flatnonzero(counts == best)
            v = int(cands[r % cands.size])
            for a in range(self.A):
                if lg[a, v]:
                    act[a] = v
            return act
        # one-step lookahead: move as many agents as possible next to one free utility node (a hub), so that they can
        # all enter it on the following step
        adj = self._adj(s)
        visited = self._visited(s)
        taken = set().union(*visited) if visited else set()
        hubs = [h for h in range(self.N) if util[h] and h not in taken]
        best_h, best_moves = None, {}
        for off in range(len(hubs)):
            h = hubs[(off + r) % len(hubs)]
            moves = {}
            for a in range(self.A):
                us = [u for u in np.flatnonzero(lg[a]) if u != h and adj[u, h]]
                if us:
                    free = [u for u in us if u not in moves.values()]
                    moves[a] = int((free or us)[(r + a) % len(free or us)])
            if len(moves) > len(best_moves):
                best_h, best_moves = h, moves
        if best_h is not None and len(best_moves) >= 2:
            for a, u in best_moves.items():
                act[a] = u
        elif best >= 2:
            cands = np.flatnonzero(counts == best)
            v = int(cands[r % cands.size])
            for a in range(self.A):
                if lg[a, v]:
                    act[a] = v
        return act

    # ------------------------------------------------------------------------------ C04
    def legal(self, s, ignore_finished=False):
        adj = self._adj(s)
        types = np.asarray(s.node_types, np.int64)
        pos = np.asarray(s.positions, np.int64)
        visited = self._visited(s)
        fin = self._finished(s, visited)
        out = np.zeros((self.A, self.N), bool)
        for a in range(self.A):
            if (fin[a] and not ignore_finished) or not (0 <= pos[a] < self.N):
                continue
            taken = set()
            for b2 in range(self.A):
                if b2 != a:
                    taken |= {v for v in visited[b2] if types[v] == -1}
            for v in range(self.N):
                out[a, v] = bool(adj[pos[a], v]) and v not in taken
        return out

    def reacted_invalid(self, s, a, s2, ts2, agent=None):
        k = int(agent)
        a = np.asarray(a, np.int64).reshape(-1)
        v = int(a[k])
        if self._contested(s, a, k):
            return None  # tie: broken at random by the env
        p, p2 = int(np.asarray(s.positions)[k]), int(np.asarray(s2.positions)[k])
        if p2 == v and v != p:
            return False
        if p2 == p:
            return True
        return None

    def _contested(self, s, act, k, could=None):
        """another agent names the same node and has a usable edge to it (finished agents included: the
        env lets them take part in the random tie-break although their move is ignored afterwards)."""
        could = self.legal(s, ignore_finished=True) if could is None else could
        v = int(act[k])
        return any(int(act[j]) == v and 0 <= v < self.N and could[j, v] for j in range(self.A) if j != k)

    # ------------------------------------------------------------------------------ C06
    def constraints(self, s):
        out = []
        adj = self._adj(s)
        types = np.asarray(s.node_types, np.int64)
        pos = np.asarray(s.positions, np.int64)
        visited = self._visited(s)
        for a in range(self.A):
            for b2 in range(a + 1, self.A):
                shared = sorted(v for v in visited[a] & visited[b2] if 0 <= v < self.N and types[v] == -1)
                if shared:
                    out.append(("utility node used by two agents", f"agents {a},{b2} share utility nodes {shared}"))
        for a in range(self.A):
            path = self._path(s, a)
            if any(not (0 <= v < self.N) for v in path):
                out.append(("route contains an invalid node", f"agent {a}: {path}"))
                continue
            for u, v in zip(path, path[1:]):
                if not adj[u, v]:
                    out.append(("consecutive route nodes are not joined by an edge", f"agent {a}: {u}->{v} in {path}"))
                    break
            # (route end == position is a consistency of two state fields, not a hard constraint: not asserted)
        return out

    def complete(self, s, ts):
        visited = self._visited(s)
        fin = self._finished(s, visited)
        if not all(fin):
            return []  # not ended by completion (why else it ended is C11/C09's business, not C06's)
        out = list(self.constraints(s))
        flags = np.asarray(s.finished_agents).astype(bool).tolist()
        cn = np.asarray(s.connected_nodes, np.int64)
        pos = np.asarray(s.positions, np.int64)
        for a in range(self.A):
            missing = [x for x in self._todo(s, a) if x not in set(cn[a].tolist())]
            if flags[a] and not missing:
                continue
            # connected_nodes has time_limit columns: start node + time_limit moves do not fit, the scatter of
            # the last move is dropped silently when the agent moved on every step of the episode
            overflow = (bool((cn[a] != -1).all()) and int(s.step_count) >= self.T and missing == [int(pos[a])])
            if overflow:
                out.append((OVERFLOW_SIG,
                            f"agent {a} reached node {int(pos[a])} on step {int(s.step_count)} = time_limit; "
                            f"connected_nodes[{a}]={cn[a].tolist()} (time_limit columns, no slot left), "
                            f"finished_agents={flags}"))
            else:
                out.append(("every agent reached all its nodes but finished_agents / connected_nodes do not show it",
                            f"agent {a}: finished_agents={flags} nodes missing from connected_nodes={missing} "
                            f"step_count={int(s.step_count)} time_limit={self.T}"))
        return out

    # ------------------------------------------------------------------------------ C08
    def step_reward(self, prev, act, nxt=None):
        """documented DenseRewardFn value of one joint action -> (value, slack).  An agent that loses a
        random tie-break (its node was named by another agent with an edge to it) "does not connect";
        the docs give -1 for that, the code 0 - the documentation does not mention ties, so the loser's
        reward is only required to lie in [-1, 0] (value -0.5, slack 0.5).  Who won is read off `nxt`;
        without `nxt` a contested step is undefined (None).  Steps in which an unfinished agent
        plays an illegal action are outside the property (None)."""
        act = np.asarray(act, np.int64).reshape(-1)
        legal = self.legal(prev)
        visited = self._visited(prev)
        fin = self._finished(prev, visited)
        could = self.legal(prev, ignore_finished=True)
        total, slack = 0.0, 0.0
        for k in range(self.A):
            if fin[k]:
                # an agent that has finished while others still play: the docs say "-1.0 if it does not connect"
                # without exempting finished agents, the code gives 0 - either is accepted ([-1, 0])
                total += -0.5
                slack += 0.5
                continue
            v = int(act[k])
            if not (0 <= v < self.N) or not legal[k, v]:
                return None  # C08 is about legal play; (the documented value would be -2)
            if self._contested(prev, act, k, could):
                if nxt is None:
                    return None
                if int(np.asarray(nxt.positions)[k]) != v:
                    total += -0.5
                    slack += 0.5
                    continue
            total += 10.0 if (v in self._todo(prev, k) and v not in visited[k]) else -1.0
        return total, slack

    # not registered with the drivers: this environment is outside the property's enumerated list
    def unused_objective(self, ep):
        total, slack = 0.0, 1e-4
        prev = ep.s0
        for a, s in zip(ep.actions, ep.states):
            r = self.step_reward(prev, a, s)
            if r is None:
                return None
            total += r[0]
            slack += r[1]
            prev = s
        return total, slack

    # ---------------------------------------------------------------------------- solver ('solve' plans)
    def solve_action(self, s, r=0):
        """Joint action of a constructive policy: every unfinished agent takes the first hop of a shortest
        rule-legal path *inside its own node block* to the nearest of its nodes it has not connected yet
        (the split generator guarantees such a path); finished or stuck agents name their own node, which is
        never an edge and therefore cannot win a tie-break against a walking agent."""
        adj = self._adj(s)
        pos = np.asarray(s.positions, np.int64)
        visited = self._visited(s)
        fin = self._finished(s, visited)
        legal = self.legal(s)
        types = np.asarray(s.node_types, np.int64)
        act = np.asarray([int(p) if 0 <= p < self.N else 0 for p in pos], np.int64)
        for a in range(self.A):
            if fin[a] or not (0 <= pos[a] < self.N):
                continue
            taken = set()
            for b2 in range(self.A):
                if b2 != a:
                    taken |= {v for v in visited[b2] if types[v] == -1}
            goals = {v for v in self._todo(s, a) if v not in visited[a]}
            allowed = [v for v in self.blocks[a] if v not in taken]
            hop = self._first_hop(adj, int(pos[a]), goals, allowed, r + a)
            if hop is None:  # pushed out of its block by other plan modes: use the whole graph
                hop = self._first_hop(adj, int(pos[a]), goals, [v for v in range(self.N) if v not in taken], r + a)
            if hop is not None and legal[a, hop]:
                act[a] = hop
            else:
                idx = np.flatnonzero(legal[a])
                if idx.size:
                    act[a] = int(idx[r % idx.size])
        return act

    def _first_hop(self, adj, start, goals, allowed, r):
        if not goals:
            return None
        allowed = set(allowed) | {start}
        first = {start: None}
        frontier = [start]
        while frontier:
            nxt = []
            for u in frontier:
                nbrs = [v for v in sorted(allowed) if adj[u, v] and v not in first]
                if u == start and nbrs:
                    k = r % len(nbrs)
                    nbrs = nbrs[k:] + nbrs[:k]
                for v in nbrs:
                    if v in first:
                        continue
                    first[v] = v if u == start else first[u]
                    nxt.append(v)
            hit = [v for v in nxt if v in goals]
            if hit:
                return first[hit[0]]
            frontier = nxt
        return None

    # ------------------------------------------------------------------------------ C10
    def _components(self, adj, nodes):
        nodes = list(nodes)
        comp, seen = {}, set()
        for r in nodes:
            if r in seen:
                continue
            stack, cid = [r], r
            seen.add(r)
            while stack:
                u = stack.pop()
                comp[u] = cid
                for v in nodes:
                    if adj[u, v] and v not in seen:
                        seen.add(v)
                        stack.append(v)
        return comp

    def _grow(self, adj, start, targets, allowed):
        """greedy connected node set inside `allowed` that holds `start` and all `targets` (tree grown by
        shortest paths to the nearest missing target), or None"""
        allowed = sorted(set(allowed) | {start})
        if any(t not in allowed for t in targets):
            return None
        tree, todo = {start}, set(targets) - {start}
        while todo:
            prev, frontier, hit = {u: None for u in tree}, sorted(tree), None
            while frontier and hit is None:
                nxt = []
                for u in frontier:
                    for v in allowed:
                        if adj[u, v] and v not in prev:
                            prev[v] = u
                            nxt.append(v)
                            if v in todo and hit is None:
                                hit = v
                frontier = nxt
            if hit is None:
                return None
            v = hit
            while v is not None and v not in tree:
                tree.add(v)
                v = prev[v]
            todo -= tree
        return tree

    def _certificate(self, adj, types, todo, pos):
        """Witness of solvability: pairwise disjoint connected node sets, one per agent, each holding the agent's
        start and all its nodes (walking inside them never shares a node, so the hard constraint holds and no
        tie-break can occur).  -> list of sets, or None when this heuristic search finds none."""
        import itertools

        own = [[int(v) for v in todo[a].tolist()] for a in range(self.A)]
        # first guess: the generator's consecutive blocks
        sets = [self._grow(adj, int(pos[a]), own[a], self.blocks[a]) for a in range(self.A)]
        if all(x is not None for x in sets):
            return sets
        for order in itertools.islice(itertools.permutations(range(self.A)), 24):
            used, sets = set(), [None] * self.A
            for a in order:
                foreign = {int(v) for v in np.flatnonzero((types >= 0) & (types != a))}
                t = self._grow(adj, int(pos[a]), own[a], [v for v in range(self.N) if v not in used and v not in foreign])
                if t is None:
                    break
                sets[a] = t
                used |= t
            if all(x is not None for x in sets):
                return sets
        return None

    def _provably_unsolvable(self, adj, types, todo, pos):
        """Exact decision for small instances: is there NO assignment of the utility nodes to the agents under
        which every agent's nodes are connected through (typed nodes of any agent + its own utility nodes)?
        -> True / False / None (too large to decide)."""
        import itertools

        util = [int(v) for v in np.flatnonzero(types < 0)]
        if self.A ** len(util) > 20000:
            return None
        typed = {int(v) for v in np.flatnonzero(types >= 0)}
        for assign in itertools.product(range(self.A), repeat=len(util)):
            ok = True
            for a in range(self.A):
                allowed = typed | {u for u, w in zip(util, assign) if w == a}
                if self._grow(adj, int(pos[a]), [int(v) for v in todo[a].tolist()], allowed) is None:
                    ok = False
                    break
            if ok:
                return False
        return True

    def validate_instance(self, s0):
        out = []
        raw = np.asarray(s0.adj_matrix)
        if raw.shape != (self.N, self.N):
            return [("adjacency shape", str(raw.shape))]
        adj = raw != 0  # (how an edge is encoded - bool / 0-1 - is C01's business)
        if not np.array_equal(adj, adj.T):
            out.append(("adjacency matrix not symmetric", ""))
        if adj.diagonal().any():
            out.append(("self-loop in the graph", f"nodes {np.flatnonzero(adj.diagonal()).tolist()}"))
        types = np.asarray(s0.node_types, np.int64)
        todo = np.asarray(s0.nodes_to_connect, np.int64)
        pos = np.asarray(s0.positions, np.int64)
        if todo.shape != (self.A, self.K):
            return out + [("nodes_to_connect shape", str(todo.shape))]
        # Observation, not asserted (the C10 statement asks for solvability, not for a connected graph): the
        # edge that `merge_graphs` adds to link two sub graphs can be refused by the degree test, so the whole
        # graph is occasionally disconnected (x_n13e20a3k2t40, reset key [3740947514, 705134704]).  That matters
        # only if it separates the nodes of one agent, which is what the per-agent test below decides.
        sane = True
        for a in range(self.A):
            mine = todo[a].tolist()
            if len(set(mine)) != self.K or any(not (0 <= v < self.N) for v in mine):
                out.append(("an agent's nodes are not distinct valid nodes", f"agent {a}: {mine}"))
                sane = False
                continue
            if sorted(mine) != np.flatnonzero(types == a).tolist():
                out.append(("node_types disagrees with nodes_to_connect", f"agent {a}: {mine} vs {np.flatnonzero(types == a).tolist()}"))
            whole = self._components(adj | adj.T, range(self.N))
            if len({whole[v] for v in mine}) != 1:
                out.append(("an agent's nodes are mutually unreachable in the graph (unsolvable instance)",
                            f"agent {a}: {mine}"))
                sane = False
            if int(pos[a]) not in mine:
                out.append(("agent does not start on one of its nodes", f"agent {a}: position {int(pos[a])} nodes {mine}"))
                sane = False
            path0 = np.asarray(s0.connected_nodes, np.int64)[a]
            if path0.size and (int(path0[0]) != int(pos[a]) or (path0[1:] != -1).any()):
                out.append(("initial route is not [start, -1, ...]", f"agent {a}: {path0.tolist()}"))
        if ((types < -1) | (types >= self.A)).any():
            out.append(("node type out of range", f"{types.tolist()}"))
            sane = False
        # Not asserted: step_count / finished_agents / node_edges at reset (bookkeeping, not instance invariants
        # named by C10); `num_edges` (the *desired* number of edges) and `max_degree` (`add_edge` tests
        # degree > max_degree, so nodes reach max_degree + 1: n12e18a2k3t7, reset key [0, 0]); which nodes form
        # which sub graph ("splitting the graph into sub graphs" does not say they are consecutive blocks).
        # Asserted: the instance "is solvable" - witnessed by disjoint connected node sets (then also replayed
        # in the real env), refuted only by an exhaustive search on small instances.
        cert = self._certificate(adj | adj.T, types, todo, pos) if sane else None
        if sane and cert is None:
            verdict = self._provably_unsolvable(adj | adj.T, types, todo, pos)
            if verdict is True:
                out.append(("no assignment of utility nodes lets every agent connect its nodes (unsolvable instance)",
                            f"nodes_to_connect {todo.tolist()} positions {pos.tolist()}"))
            elif verdict is None:
                self.unknown += 1  # undecided: neither a witness nor a refutation - never an alarm
        self._validated += 1
        if not out and cert is not None and self._validated % self.REPLAY_EVERY == 1:
            out += self._replay_dfs(s0, adj | adj.T, cert)
        return out

    def _dfs_walk(self, adj, block, start, targets):
        """node sequence (moves, start excluded) of a depth-first walk inside `block` that stops as soon
        as every target was visited."""
        todo = set(targets) - {start}
        walk, seen = [], {start}
        if not todo:
            return walk

        def rec(u):
            for v in block:
                if not todo:
                    return
                if adj[u, v] and v not in seen:
                    seen.add(v)
                    walk.append(v)
                    todo.discard(v)
                    rec(v)
                    if todo:
                        walk.append(u)

        rec(start)
        return walk if not todo else None

    def _replay_dfs(self, s0, adj, cert):
        todo = np.asarray(s0.nodes_to_connect, np.int64)
        pos = np.asarray(s0.positions, np.int64)
        walks = []
        for a in range(self.A):
            w = self._dfs_walk(adj, sorted(cert[a]), int(pos[a]), todo[a].tolist())
            if w is None:
                return []  # (cannot happen for a connected witness set; nothing to replay)
            walks.append(w)
        if max(len(w) for w in walks) > self.T:
            return []  # the configured time limit is shorter than this (non-optimal) walk: nothing to replay
        self.replays += 1
        s, ts = s0, None
        import jax

        for t in range(max(len(w) for w in walks)):
            # agents whose walk is over name their own node: never an edge, so they cannot win the random
            # tie-break against an agent that is still walking (a finished agent naming a neighbour can)
            here = np.asarray(s.positions, np.int64)
            act = np.asarray([w[t] if t < len(w) else int(here[a]) for a, w in enumerate(walks)], self.b.act_dtype)
            mask = np.asarray(s.action_mask).astype(bool)
            for a, w in enumerate(walks):
                if t < len(w) and not mask[a, w[t]]:
                    return [("a move of a node-disjoint solution is masked out",
                             f"agent {a} step {t}: {int(np.asarray(s.positions)[a])}->{w[t]}")]
            s, ts = jax.device_get(self.b.step(s, act))
        if ts is not None:
            fin = np.asarray(s.finished_agents).astype(bool)
            full = max(len(w) for w in walks) >= self.T  # the last move may fall on the time limit
            if not fin.all() and not full:
                return [("replaying a node-disjoint solution does not finish all agents", f"finished_agents={fin.tolist()}")]
            # (when exactly the episode is flagged LAST is C03/C09's business, not an instance invariant)
        return []

    # ------------------------------------------------------------------------------ C12
    def observe_check(self, s, obs):
        out = []
        for name in ("adj_matrix", "positions", "step_count", "action_mask"):
            if not np.array_equal(np.asarray(getattr(obs, name)), np.asarray(getattr(s, name))):
                out.append((f"{name} differs from the state", ""))
        types = np.asarray(s.node_types, np.int64)
        got = np.asarray(obs.node_types, np.int64)
        if got.shape != (self.N,):
            return out + [("node_types shape", str(got.shape))]
        visited = self._visited(s)
        for v in range(self.N):
            who = [a for a in range(self.A) if v in visited[a]]
            if len(who) > 1:
                # visited by several agents: which of them names the node is not defined by the docs, but the
                # label must still be the label of ONE of the agents that connected it
                if int(got[v]) not in {2 * a for a in who}:
                    out.append(("node connected by several agents is labelled with none of them",
                                f"node {v} connected by {who}: obs {int(got[v])}"))
                    break
                continue
            if len(who) == 1:
                want = 2 * who[0]
            elif types[v] >= 0:
                want = 2 * int(types[v]) + 1
            else:
                want = -1
            if int(got[v]) != want:
                out.append(("node_types relabelling differs from the documented rule",
                            f"node {v}: type {int(types[v])} connected by {who}: obs {int(got[v])} expected {want}"))
                break
        return out


# ------------------------------------------------------------------------------ C10 extra configs
def _mmst(n, e, dg, a, k, t):
    def make():
        from jumanji.environments import MMST
        from jumanji.environments.routing.mmst.generator import SplitRandomGenerator

        return MMST(generator=SplitRandomGenerator(num_nodes=n, num_edges=e, max_degree=dg, num_agents=a,
                                                   num_nodes_per_agent=k, max_step=t), time_limit=t)
    return make


EXTRA_INSTANCE_CONFIGS = {
    "x_n12e14a3k3t40": _mmst(12, 14, 5, 3, 3, 40),   # 3 agents on 12 nodes, 9 of 12 nodes typed (limit 0.8 * 12 = 9.6)
    "x_n10e9a2k4t40": _mmst(10, 9, 5, 2, 4, 40),     # minimum number of edges (a tree), 8 of 10 nodes typed
    "x_n13e20a3k2t40": _mmst(13, 20, 4, 3, 2, 40),   # node count not divisible by the number of agents, max_degree 4
    "x_n24e26d3a2k8t60": _mmst(24, 26, 3, 2, 8, 60),  # tight degree limit: edges are refused during the spanning-tree walk
}
# configurations whose interesting instances are rare get proportionally more reset keys
EXTRA_BATCH = {"x_n24e26d3a2k8t60": 16}

"""Cleaner reference model (from docs/environments/cleaner.md and the class docstring).

Rules: the grid holds dirty (0), clean (1) and wall (2) tiles; `agents_locations[k] = (row, col)`.
Every agent picks one of up (0), right (1), down (2), left (3) = (-1,0), (0,1), (1,0), (0,-1).
A move is legal iff its target lies inside the grid and is not a wall.  A legal move relocates
the agent and cleans the tile it arrives on; an illegal one leaves the agent where it is and ends
the episode.  Reward (shared) = number of tiles cleaned during the step - penalty_per_timestep.
The episode also ends when no dirty tile is left or when step_count reaches the time limit.
Instances: a recursive-division maze, all agents in the top-left corner (which is clean), every
other floor tile dirty.
"""
from __future__ import annotations

from collections import deque

import numpy as np

from vf.models.base import Model

DIRTY, CLEAN, WALL = 0, 1, 2
MOVES = [(-1, 0), (0, 1), (1, 0), (0, -1)]


def _cleaner_env(rows, cols, agents):
    def make():
        import jumanji.environments as E
        from jumanji.environments.routing.cleaner.generator import RandomGenerator

        return E.Cleaner(generator=RandomGenerator(num_rows=rows, num_cols=cols, num_agents=agents))
    return make


# generator sizes beyond the menu: minimum, 2-wide strips, mixed parity (the generator has no
# asserts and documents no minimum; these are the sizes DESIGN C10 lists)
EXTRA_INSTANCE_CONFIGS = {
    "gen_r2c2a1": _cleaner_env(2, 2, 1),
    "gen_r2c9a2": _cleaner_env(2, 9, 2),
    "gen_r9c2a2": _cleaner_env(9, 2, 2),
    "gen_r6c9a3": _cleaner_env(6, 9, 3),
    "gen_r8c8a1": _cleaner_env(8, 8, 1),
}


def reachable(free, start):
    """Boolean array of the cells 4-connected to `start` through True cells of `free`."""
    R, C = free.shape
    seen = np.zeros((R, C), bool)
    r0, c0 = start
    if not (0 <= r0 < R and 0 <= c0 < C) or not free[r0, c0]:
        return seen
    seen[r0, c0] = True
    q = deque([(r0, c0)])
    while q:
        r, c = q.popleft()
        for dr, dc in MOVES:
            rr, cc = r + dr, c + dc
            if 0 <= rr < R and 0 <= cc < C and free[rr, cc] and not seen[rr, cc]:
                seen[rr, cc] = True
                q.append((rr, cc))
    return seen


class M(Model):
    ENV = "Cleaner"
    # Walls sit on odd and passages on even coordinates (module docstring of maze_generation), so a
    # grid that is 2 cells wide is a 1 x k lattice of rooms with exactly one spanning tree: the maze
    # is unique, and Cleaner adds no other randomness (agents always start top-left).  The key
    # dependence of the generator is asserted on every other configuration.
    DETERMINISTIC_CONFIGS = ("gen_r2c2a1", "gen_r2c9a2", "gen_r9c2a2")

    def __init__(self, b):
        super().__init__(b)
        e = b.env
        self.R, self.C, self.A, self.T = int(e.num_rows), int(e.num_cols), int(e.num_agents), int(e.time_limit)
        # the configured value (menu) where the entry sets one: "the penalty returned at each timestep" is what
        # the caller passed, not whatever the instance stored
        self.pen = float(b.meta["penalty"]) if "penalty" in b.meta else float(e.penalty_per_timestep)

    # ------------------------------------------------------------------ helpers
    def _inside(self, r, c):
        return 0 <= r < self.R and 0 <= c < self.C

    def _locs(self, s):
        return np.asarray(s.agents_locations).astype(np.int64).reshape(-1, 2)

    def _target(self, s, k, a):
        r, c = self._locs(s)[k]
        dr, dc = MOVES[int(a) % 4]
        return int(r + dr), int(c + dc)

    def _legal1(self, grid, r, c):
        return self._inside(r, c) and int(grid[r, c]) != WALL

    # ------------------------------------------------------------------ C04 / C05
    def legal(self, s):
        grid = np.asarray(s.grid)
        out = np.zeros((self.A, 4), bool)
        for k in range(self.A):
            for a in range(4):
                out[k, a] = self._legal1(grid, *self._target(s, k, a))
        return out

    def reacted_invalid(self, s, a, s2, ts2, agent=None):
        # "If an action is invalid, the corresponding agent does not move": a valid move always
        # changes the agent's cell, so 'stayed' is the env's own invalid-move reaction.
        k = int(agent)
        return bool(np.array_equal(self._locs(s)[k], self._locs(s2)[k]))

    def _cleaned_by(self, s, a, agents):
        """Number of distinct dirty tiles the rule-legal movers among `agents` arrive on."""
        grid = np.asarray(s.grid)
        cells = set()
        for k in agents:
            t = self._target(s, k, np.asarray(a).reshape(-1)[k])
            if self._legal1(grid, *t) and int(grid[t]) == DIRTY:
                cells.add(t)
        return len(cells)

    def check_illegal(self, s, a, s2, ts2, agent=None):
        out = []
        k = int(agent)
        if int(ts2.step_type) != 2:
            out.append(("invalid move does not end the episode", f"agent {k}: step_type={int(ts2.step_type)}"))
        if not np.array_equal(self._locs(s)[k], self._locs(s2)[k]):
            out.append(("offending agent moved on an invalid action",
                        f"agent {k}: {self._locs(s)[k].tolist()} -> {self._locs(s2)[k].tolist()}"))
        others = [j for j in range(self.A) if j != k]
        want = self._cleaned_by(s, a, others) - self.pen
        own = tuple(int(x) for x in self._locs(s)[k])
        # (offender standing on a dirty tile - only possible on a dirty start tile: whether staying "visits"
        # the tile is not documented, so its tile / the reward are not judged in that case)
        own_dirty = self._inside(*own) and int(np.asarray(s.grid)[own]) == DIRTY
        if not own_dirty and abs(float(ts2.reward) - want) > 1e-5:
            out.append(("invalid-move reward is not (tiles cleaned by the other agents - penalty)",
                        f"agent {k}: reward={float(ts2.reward)} expected={want}"))
        # nothing is cleaned on behalf of the offender: the only tiles that may change are the ones
        # the other (legally moving) agents arrive on
        g, g2 = np.asarray(s.grid), np.asarray(s2.grid)
        if g.shape == g2.shape:
            arrivals = set()
            for j in others:
                t = self._target(s, j, np.asarray(a).reshape(-1)[j])
                if self._legal1(g, *t):
                    arrivals.add(t)
            if own_dirty:
                arrivals.add(own)
            stray = [tuple(x) for x in np.argwhere(g != g2).tolist() if tuple(x) not in arrivals]
            if stray:
                out.append(("grid changed on an invalid move beyond the other agents' arrivals",
                            f"agent {k}: cells {stray[:3]}"))
        return out

    # ------------------------------------------------------------------ C07
    def invariants(self, prev, a, s, ts):
        out = []
        grid = np.asarray(s.grid)
        if grid.shape != (self.R, self.C):
            return [("grid shape", str(grid.shape))]
        if not np.isin(grid, (DIRTY, CLEAN, WALL)).all():
            out.append(("grid holds a value other than dirty/clean/wall", str(np.unique(grid).tolist())))
        locs = self._locs(s)
        if locs.shape[0] != self.A:
            out.append(("number of agents", str(locs.shape)))
        for k, (r, c) in enumerate(locs):
            if not self._inside(r, c):
                out.append(("agent outside the grid", f"agent {k} at ({r},{c}) grid {self.R}x{self.C}"))
            elif int(grid[r, c]) == WALL:
                out.append(("agent inside a wall", f"agent {k} at ({r},{c})"))
            elif prev is not None and int(grid[r, c]) != CLEAN:
                # only after a step ("every time an agent visits a dirty tile, it is cleaned"; every agent of a
                # non-terminal state has just arrived).  The md page says the *whole* floor is dirty at reset,
                # so nothing is demanded of the start tile at reset.
                out.append(("agent stands on a tile that is not clean", f"agent {k} at ({r},{c}) tile={int(grid[r, c])}"))
        if prev is not None:
            pg = np.asarray(prev.grid)
            if pg.shape == grid.shape:
                if not np.array_equal(pg == WALL, grid == WALL):
                    out.append(("walls changed", f"{int(((pg == WALL) != (grid == WALL)).sum())} cells"))
                back = (pg == CLEAN) & (grid != CLEAN)
                if back.any():
                    out.append(("clean tile reverted", f"cells {np.argwhere(back)[:3].tolist()}"))
            # not asserted here (C07 = each state is a possible configuration + the listed conservation laws):
            # step_count, "one cell per step", "tiles are only cleaned under an agent" are transition rules (C09)
        return out

    # ------------------------------------------------------------------ C08
    def objective(self, ep):
        if not ep.states:
            return 0.0, 1e-6
        g0, g1 = np.asarray(ep.s0.grid), np.asarray(ep.states[-1].grid)
        cleaned = int((g1 == CLEAN).sum()) - int((g0 == CLEAN).sum())
        n = len(ep.actions)
        return float(cleaned) - self.pen * n, 1e-4 * max(1, n)

    # ------------------------------------------------------------------ C09
    def predict(self, s, a):
        grid = np.asarray(s.grid).copy()
        if grid.shape != (self.R, self.C):
            return None
        locs = self._locs(s).copy()
        a = np.asarray(a).reshape(-1)
        ok = []
        for k in range(self.A):
            if not self._inside(*locs[k]):
                return None  # not a state the rules describe
            t = self._target(s, k, a[k])
            good = self._legal1(grid, *t)
            ok.append(good)
            if good:
                locs[k] = t
        # an agent that stays (invalid move) on a dirty tile: whether "visiting" covers standing still is not
        # documented (only possible if the start tile is dirty at reset) -> grid / reward not predicted then
        defined = all(good or int(grid[r, c]) != DIRTY for good, (r, c) in zip(ok, locs))
        before = int((grid == DIRTY).sum())
        for r, c in locs:
            grid[r, c] = CLEAN
        cleaned = before - int((grid == DIRTY).sum())
        step = int(s.step_count) + 1
        last = (not all(ok)) or not (grid == DIRTY).any() or step >= self.T
        if not defined:
            return {"state": {"agents_locations": locs, "step_count": step}, "last": last, "discount": 0.0 if last else 1.0}
        return {"state": {"agents_locations": locs, "grid": grid, "step_count": step},
                "reward": cleaned - self.pen, "last": last, "discount": 0.0 if last else 1.0}

    # ------------------------------------------------------------------ C10
    def validate_instance(self, s0):
        out = []
        grid = np.asarray(s0.grid)
        if grid.shape != (self.R, self.C):
            return [("grid shape", str(grid.shape))]
        if not np.isin(grid, (DIRTY, CLEAN, WALL)).all():
            out.append(("grid holds a value other than dirty/clean/wall", str(np.unique(grid).tolist())))
        locs = self._locs(s0)
        if locs.shape[0] != self.A or (locs != 0).any():
            out.append(("agents do not start in the top-left corner", str(locs.tolist())))
        if int(grid[0, 0]) == WALL:
            out.append(("start cell is a wall", ""))
        # (whether the start tile is already clean is not advertised: the md page says "the whole floor is
        # dirty" at the beginning of an episode, the generator cleans it - both are accepted)
        rest = grid.copy()
        rest[0, 0] = DIRTY
        if (rest == CLEAN).any():
            out.append(("tiles other than the start are clean at reset", f"{int((rest == CLEAN).sum())} tiles"))
        free = grid != WALL
        seen = reachable(free, (0, 0))
        if (free & ~seen).any():
            out.append(("maze not fully connected from the agents' start",
                        f"{int((free & ~seen).sum())} floor tiles unreachable, e.g. {np.argwhere(free & ~seen)[0].tolist()}"))
        # (step_count is not an invariant of the generated problem instance: not asserted under C10)
        return out

    # ------------------------------------------------------------------ C12
    def observe_check(self, s, obs):
        out = []
        if not np.array_equal(np.asarray(obs.grid), np.asarray(s.grid)):
            out.append(("grid differs from the state", ""))
        if not np.array_equal(np.asarray(obs.agents_locations), np.asarray(s.agents_locations)):
            out.append(("agents_locations differ from the state", ""))
        if int(obs.step_count) != int(s.step_count):
            out.append(("step_count differs from the state", f"{int(obs.step_count)} vs {int(s.step_count)}"))
        m = np.asarray(obs.action_mask).astype(bool)
        if s.action_mask is not None and not np.array_equal(m, np.asarray(s.action_mask).astype(bool)):
            out.append(("action_mask differs from the state", ""))
        locs = self._locs(s)
        if all(self._inside(r, c) for r, c in locs) and np.asarray(s.grid).shape == (self.R, self.C):
            want = self.legal(s)
            if m.shape != want.shape or not np.array_equal(m, want):
                out.append(("action_mask is not the legal set of the state shown", f"obs {m.astype(int).tolist()} rules {want.astype(int).tolist()}"))
        return out


# ------------------------------------------------------------------ C09: episodes that end by completion
# Random play never cleans a whole maze, so the generic C09 driver does not reach the "all tiles
# clean -> LAST" transition.  The synthetic shard plays small mazes with a nearest-dirty-tile policy
# (BFS on the host state, Hypothesis-drawn deviations) against the real env and compares every
# transition with `predict`, exactly as the generic driver does.
SYNTHETIC_SHARDS = {"quick": 1, "thorough": 2}
_SYN_SIZES = [(3, 3, 2), (2, 5, 1), (4, 5, 2), (5, 5, 3), (3, 6, 1), (6, 4, 3)]
_SYN_BUNDLES: dict = {}


def bfs_first_move(passable, start, goals):
    """First action (0..3 = up, right, down, left) of a shortest path from `start` to any cell of
    the boolean array `goals` through True cells of `passable`; None if unreachable / already there."""
    R, C = passable.shape
    r0, c0 = int(start[0]), int(start[1])
    if not (0 <= r0 < R and 0 <= c0 < C) or goals[r0, c0]:
        return None
    first = {(r0, c0): None}
    q = deque([(r0, c0)])
    while q:
        r, c = q.popleft()
        for a, (dr, dc) in enumerate(MOVES):
            rr, cc = r + dr, c + dc
            if 0 <= rr < R and 0 <= cc < C and passable[rr, cc] and (rr, cc) not in first:
                first[(rr, cc)] = a if first[(r, c)] is None else first[(r, c)]
                if goals[rr, cc]:
                    return first[(rr, cc)]
                q.append((rr, cc))
    return None


def _syn_bundle(cfg):
    from vf import envs

    if cfg not in _SYN_BUNDLES:
        r, c, a = (int(x) for x in cfg.split("x"))
        _SYN_BUNDLES[cfg] = envs.Bundle("Cleaner", f"syn_{cfg}", env=_cleaner_env(r, c, a)())
    return _SYN_BUNDLES[cfg]


def _syn_policy(model, noise):
    def policy(hs, t):
        grid = np.asarray(hs.grid)
        legal = model.legal(hs)
        acts = []
        for k, loc in enumerate(model._locs(hs)):
            z = noise[(t * model.A + k) % len(noise)]
            a = None
            if z % 6:  # 5 of 6: head for the nearest dirty tile
                a = bfs_first_move(grid != WALL, loc, grid == DIRTY)
            if a is None:
                idx = np.flatnonzero(legal[k])
                a = int(idx[z % len(idx)]) if len(idx) else 0
            acts.append(a)
        return np.asarray(acts)
    return policy


def synthetic_episode(b, ctx, model, key, policy, max_steps, extra):
    """Play `policy(host_state, t) -> action` against the real env with the generic C09 monitor."""
    from vf import envs, episodes
    from vf import modelprops as mp

    rec = episodes.Recorder(ctx, b, key, extra=extra)
    mon = mp.C09Mon(b, ctx, model)
    st_, ts = b.reset(envs.make_key(key))
    hs, hts = episodes.host((st_, ts))
    for t in range(max_steps):
        a = policy(hs, t)
        if a is None:
            break
        a = b.to_action(a)
        rec.actions.append(a)
        nst, nts = b.step(st_, a)
        hn, hnt = episodes.host((nst, nts))
        mon.on_step(rec, t, hs, hts, a, hn, hnt, False)
        st_, ts, hs, hts = nst, nts, hn, hnt
        if int(hnt.step_type) == 2:
            return hs, True
    return hs, False


def synthetic_c09(ctx, item, seed, tier):
    from vf import episodes, hyp
    from vf.hyp import st

    shard, shards = item.get("shard", 0), item.get("shards", 1)
    sizes = [sz for i, sz in enumerate(_SYN_SIZES) if i % shards == shard]
    for r, c, a in sizes:
        cfg = f"{r}x{c}x{a}"
        b = _syn_bundle(cfg)
        model = M(b)

        def one(key, noise, b=b, model=model, cfg=cfg):
            extra = {"synthetic": True, "config": cfg}
            hs, ended = synthetic_episode(b, ctx, model, key, _syn_policy(model, noise), model.T + 1, extra)
            ctx.count("synthetic_episodes")
            if ended and not (np.asarray(hs.grid) == DIRTY).any():
                ctx.count("synthetic_episodes_all_clean")

        hyp.drive({"key": episodes.keys(), "noise": st.lists(st.integers(0, 2**16), min_size=4, max_size=24)},
                  one, seed + 101 * (r * 100 + c * 10 + a), 6 if tier == "quick" else 40)


def synthetic_replay(case):
    from vf import episodes
    from vf import modelprops as mp
    from vf.runner import Ctx

    ctx = Ctx("C09", {})
    b = _syn_bundle(case["config"])
    rec = episodes.Recorder(ctx, b, case["key"], extra={"synthetic": True, "config": case["config"]})
    episodes.run_actions(b, rec, case["actions"], mp.C09Mon(b, ctx, M(b)))
    return [(f["oracle"], f["sig"], f["msg"]) for f in ctx.failures.values()]

"""SlidingTilePuzzle environment model (from docs/environments/sliding_tile_puzzle.md and the docstrings).

Puzzle (n, n) holds 0..n*n-1 once each, 0 = the empty tile; `empty_tile_position` = (row, col) of the 0.
Actions move the empty tile: up (0) = row-1, right (1) = col+1, down (2) = row+1, left (3) = col-1; the empty
tile swaps with the neighbour.  A move that would leave the board is invalid and ignored (puzzle unchanged).
Goal: 1, 2, ..., n*n-1 in reading order, empty tile last.  The episode ends when the puzzle is solved or at the
time limit.  DenseRewardFn: (# newly correctly placed tiles) - (# newly incorrectly placed tiles) of the step;
SparseRewardFn: 1 if the puzzle is solved after the step, else 0.
(Self-contained on purpose; the C17 blank-swap model lives in vf/models/sliding.py.)
"""
from __future__ import annotations

import numpy as np

from vf.models.base import Model

DELTA = [(-1, 0), (0, 1), (1, 0), (0, -1)]


def goal(n):
    return np.array(list(range(1, n * n)) + [0], np.int64).reshape(n, n)


def blank(puzzle):
    pos = np.argwhere(np.asarray(puzzle) == 0)
    return (int(pos[0][0]), int(pos[0][1])) if len(pos) == 1 else None


def num_correct(puzzle, n):
    return int((np.asarray(puzzle).astype(np.int64) == goal(n)).sum())


def solvable(puzzle):
    """Every move is one transposition of the n*n entries and moves the empty tile by one cell, so
    (parity of the permutation w.r.t. the goal) == (parity of the empty tile's taxicab distance to its goal
    corner) along any walk from the goal."""
    p = np.asarray(puzzle).astype(np.int64)
    n = p.shape[0]
    seq = [(int(x) - 1) % (n * n) for x in p.reshape(-1)]  # goal -> identity (empty tile = last)
    seen, transpositions = [False] * len(seq), 0
    for i in range(len(seq)):
        if not seen[i]:
            j, L = i, 0
            while not seen[j]:
                seen[j] = True
                j = seq[j]
                L += 1
            transpositions += L - 1
    bl = blank(p)
    dist = (n - 1 - bl[0]) + (n - 1 - bl[1])
    return transpositions % 2 == dist % 2


_DIST = {}


def _code(flat):
    c = 0
    for x in flat:
        c = c * 16 + int(x)
    return c


def distance_table(n):
    """Breadth-first distances to the goal over the whole reachable class (n <= 3 only: 12 / 181 440 states)."""
    if n not in _DIST:
        g = tuple(int(x) for x in goal(n).reshape(-1))
        dist = {_code(g): 0}
        frontier = [g]
        while frontier:
            nxt = []
            for st in frontier:
                d = dist[_code(st)]
                z = st.index(0)
                r, c = divmod(z, n)
                for dr, dc in DELTA:
                    r2, c2 = r + dr, c + dc
                    if 0 <= r2 < n and 0 <= c2 < n:
                        z2 = r2 * n + c2
                        l = list(st)
                        l[z], l[z2] = l[z2], 0
                        t = tuple(l)
                        k = _code(t)
                        if k not in dist:
                            dist[k] = d + 1
                            nxt.append(t)
            frontier = nxt
        _DIST[n] = dist
    return _DIST[n]


class M(Model):
    ENV = "SlidingTilePuzzle"
    DETERMINISTIC_CONFIGS = {"g3m0t2d"}  # zero random moves: always the solved puzzle

    def __init__(self, b):
        super().__init__(b)
        self.n = int(b.env.generator.grid_size)
        self.T = int(b.env.time_limit)
        kind = b.meta.get("reward")
        if kind is None:
            kind = "sparse" if type(b.env.reward_fn).__name__.startswith("Sparse") else "dense"
        self.kind = kind
        self.goal = goal(self.n)

    def _blank(self, s):
        bl = blank(s.puzzle)
        if bl is None:
            e = np.asarray(s.empty_tile_position).reshape(-1)
            bl = (int(e[0]), int(e[1]))
        return bl

    def _target(self, s, a):
        r, c = self._blank(s)
        dr, dc = DELTA[int(a) % 4]
        return r + dr, c + dc

    def _is_legal(self, s, a):
        r, c = self._target(s, a)
        return 0 <= r < self.n and 0 <= c < self.n

    def _solved(self, puzzle):
        return bool(np.array_equal(np.asarray(puzzle).astype(np.int64), self.goal))

    # ---- C04 / C05
    def legal(self, s):
        return np.array([self._is_legal(s, a) for a in range(4)])

    def reacted_invalid(self, s, a, s2, ts2, agent=None):
        return bool(np.array_equal(np.asarray(s.puzzle), np.asarray(s2.puzzle))
                    and np.array_equal(np.asarray(s.empty_tile_position), np.asarray(s2.empty_tile_position)))

    def check_illegal(self, s, a, s2, ts2, agent=None):
        out = []
        if not np.array_equal(np.asarray(s.puzzle), np.asarray(s2.puzzle)):
            out.append(("ignored move changed the puzzle",
                        f"{np.asarray(s.puzzle).tolist()} -> {np.asarray(s2.puzzle).tolist()}"))
        if not np.array_equal(np.asarray(s.empty_tile_position), np.asarray(s2.empty_tile_position)):
            out.append(("ignored move changed empty_tile_position",
                        f"{np.asarray(s.empty_tile_position).tolist()} -> {np.asarray(s2.empty_tile_position).tolist()}"))
        if self._solved(s.puzzle):
            return out  # a solved board ends the episode whatever is played; reward per 'solved' rule (C09)
        if int(ts2.step_type) == 2 and int(s.step_count) + 1 < self.T:
            out.append(("ignored move ended the episode", f"step_type=2 at step_count {int(s.step_count) + 1} < {self.T}"))
        if float(ts2.reward) != 0.0:
            out.append(("ignored move rewarded", f"reward={float(ts2.reward)}"))
        return out

    # ---- C08
    def objective(self, ep):
        final = ep.states[-1].puzzle if ep.states else ep.s0.puzzle
        if self.kind == "dense":
            return float(num_correct(final, self.n) - num_correct(ep.s0.puzzle, self.n)), 1e-6
        return (1.0 if self._solved(final) else 0.0), 1e-6

    # ---- C09
    def predict(self, s, a):
        p = np.asarray(s.puzzle).astype(np.int64)
        bl = blank(p)
        if bl is None:
            return None
        r, c = bl
        new = p.copy()
        nr, nc = self._target(s, a)
        if 0 <= nr < self.n and 0 <= nc < self.n:
            new[r, c] = p[nr, nc]
            new[nr, nc] = 0
            pos = (nr, nc)
        else:
            pos = (r, c)
        solved = self._solved(new)
        if self.kind == "dense":
            reward = float(num_correct(new, self.n) - num_correct(p, self.n))
        else:
            reward = 1.0 if solved else 0.0
        st = {"puzzle": new, "empty_tile_position": np.array(pos), "step_count": int(s.step_count) + 1}
        return {"state": st, "reward": reward, "last": solved or int(s.step_count) + 1 >= self.T}

    # ---- C10
    def validate_instance(self, s0):
        out = []
        p = np.asarray(s0.puzzle)
        if p.shape != (self.n, self.n):
            return [("puzzle shape", str(p.shape))]
        if sorted(p.reshape(-1).tolist()) != list(range(self.n * self.n)):
            return [("puzzle is not a permutation of 0..n*n-1", str(p.tolist()))]
        e = np.asarray(s0.empty_tile_position).reshape(-1)
        if (int(e[0]), int(e[1])) != blank(p):
            out.append(("empty_tile_position is not the position of the 0", f"{e.tolist()} vs {blank(p)}"))
        if not solvable(p):
            out.append(("puzzle is not solvable (wrong permutation parity)", str(p.tolist())))
        if int(s0.step_count) != 0:
            out.append(("initial step_count != 0", str(int(s0.step_count))))
        return out

    # ---- C12
    def observe_check(self, s, obs):
        out = []
        if not np.array_equal(np.asarray(obs.puzzle), np.asarray(s.puzzle)):
            out.append(("puzzle differs from the state", ""))
        if not np.array_equal(np.asarray(obs.empty_tile_position), np.asarray(s.empty_tile_position)):
            out.append(("empty_tile_position differs from the state", ""))
        bl = blank(s.puzzle)
        if bl is not None and tuple(int(x) for x in np.asarray(obs.empty_tile_position).reshape(-1)) != bl:
            out.append(("empty_tile_position is not the position of the 0 in the puzzle",
                        f"{np.asarray(obs.empty_tile_position).tolist()} vs {bl}"))
        if int(obs.step_count) != int(s.step_count):
            out.append(("step_count differs from the state", f"{int(obs.step_count)} vs {int(s.step_count)}"))
        if not np.array_equal(np.asarray(obs.action_mask).astype(bool), self.legal(s)):
            out.append(("action_mask is not 'the empty tile stays on the board'",
                        f"mask {np.asarray(obs.action_mask).tolist()} empty tile {self._blank(s)}"))
        return out

    # ---- constructive moves for the 'solve' plan mode
    def solve_action(self, s, r=0):
        """A move on a shortest path to the goal (2x2, 3x3: exact distances; larger grids: no solver)."""
        if self.n > 3:
            return None
        p = np.asarray(s.puzzle).astype(np.int64)
        bl = blank(p)
        if bl is None or sorted(p.reshape(-1).tolist()) != list(range(self.n * self.n)):
            return None
        dist = distance_table(self.n)
        here = dist.get(_code(p.reshape(-1)))
        if here is None or here == 0:
            return None
        for a in [(int(r) + i) % 4 for i in range(4)]:
            nr, nc = bl[0] + DELTA[a][0], bl[1] + DELTA[a][1]
            if 0 <= nr < self.n and 0 <= nc < self.n:
                q = p.copy()
                q[bl] = p[nr, nc]
                q[nr, nc] = 0
                if dist.get(_code(q.reshape(-1)), 10**9) == here - 1:
                    return a
        return None

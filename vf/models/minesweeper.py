"""Minesweeper reference model (from docs/environments/minesweeper.md and the class docstring).

Board cells: -1 = not yet explored, otherwise the number of mines in the 8 adjacent squares.  An action
(row, col) explores exactly that square (no flood fill).  Exploring an already explored square is the
invalid action.  Rewards are configurable: one value for revealing a safe square, one for revealing a
mine, one for an invalid action.  The episode ends on an invalid action, on revealing a mine, or when
all safe squares are revealed.  The mine set (`flat_mine_locations`, flattened row-major indices) is
fixed at reset.
"""
from __future__ import annotations

import numpy as np

from vf.models.base import Model


def mine_grid(mines, R, C):
    """bool (R, C) grid of mines; out-of-range entries are ignored (and reported elsewhere)."""
    g = np.zeros(R * C, bool)
    m = np.asarray(mines).astype(np.int64).reshape(-1)
    m = m[(m >= 0) & (m < R * C)]
    g[m] = True
    return g.reshape(R, C)


def neighbour_counts(grid):
    """Number of mines among the 8 neighbours of every cell."""
    R, C = grid.shape
    g = grid.astype(np.int64)
    out = np.zeros((R, C), np.int64)
    for dr in (-1, 0, 1):
        for dc in (-1, 0, 1):
            if dr == 0 and dc == 0:
                continue
            r0, r1 = max(0, dr), R + min(0, dr)
            c0, c1 = max(0, dc), C + min(0, dc)
            # cell (r, c) gains g[r + dr, c + dc]
            out[r0 - dr:r1 - dr, c0 - dc:c1 - dc] += g[r0:r1, c0:c1]
    return out


class M(Model):
    ENV = "Minesweeper"
    DETERMINISTIC_CONFIGS = {"r5c3m0"}  # no mines: every key yields the same instance

    def __init__(self, b):
        super().__init__(b)
        self.R, self.C, self.K = int(b.env.num_rows), int(b.env.num_cols), int(b.env.num_mines)
        rw = b.meta.get("rewards")
        if rw is None:
            rf = b.env.reward_function
            rw = (float(rf.revealed_empty_square_reward), float(rf.revelead_mine_reward),
                  float(rf.invalid_action_reward))
        self.r_empty, self.r_mine, self.r_invalid = (float(x) for x in rw)

    def _rc(self, a):
        a = np.asarray(a).reshape(-1)
        return int(a[0]), int(a[1])

    # ---- C04 / C05
    def legal(self, s):
        return np.asarray(s.board) == -1

    def reacted_invalid(self, s, a, s2, ts2, agent=None):
        r = float(ts2.reward)
        if self.r_invalid in (self.r_empty, self.r_mine):
            # the reward does not single out the invalid event (default rewards: mine == invalid == 0)
            if int(ts2.step_type) != 2:
                return False
            return None if r == self.r_invalid else False
        return r == self.r_invalid

    def check_illegal(self, s, a, s2, ts2, agent=None):
        out = []
        if int(ts2.step_type) != 2:
            out.append(("invalid action does not end the episode", f"step_type={int(ts2.step_type)}"))
        if float(ts2.reward) != self.r_invalid:
            out.append(("invalid action does not carry the configured invalid reward",
                        f"reward={float(ts2.reward)} configured={self.r_invalid}"))
        return out

    # ---- C07
    def _mine_problems(self, s):
        out = []
        m = np.asarray(s.flat_mine_locations).astype(np.int64).reshape(-1)
        if m.size != self.K:
            out.append(("number of mines differs from the configuration", f"{m.size} vs {self.K}"))
        if m.size and (m.min() < 0 or m.max() >= self.R * self.C):
            out.append(("mine location outside the board", str(m.tolist())))
        if np.unique(m).size != m.size:
            out.append(("mine locations are not distinct", str(sorted(m.tolist()))))
        return out

    def invariants(self, prev, a, s, ts):
        board = np.asarray(s.board)
        if board.shape != (self.R, self.C):
            return [("board shape", str(board.shape))]
        out = self._mine_problems(s)
        if prev is not None and not np.array_equal(np.sort(np.asarray(prev.flat_mine_locations).reshape(-1)),
                                                   np.sort(np.asarray(s.flat_mine_locations).reshape(-1))):
            out.append(("mine set changed during the episode",
                        f"{np.asarray(prev.flat_mine_locations).tolist()} -> {np.asarray(s.flat_mine_locations).tolist()}"))
        grid = mine_grid(s.flat_mine_locations, self.R, self.C)
        counts = neighbour_counts(grid)
        explored = board != -1
        if ((board < -1) | (board > 8)).any():
            out.append(("board value outside -1..8", str(board.tolist())))
        bad = np.argwhere(explored & (board != counts))
        if bad.size:
            r, c = bad[0]
            out.append(("explored cell does not show its true neighbour-mine count",
                        f"cell ({r},{c}) shows {int(board[r, c])}, true count {int(counts[r, c])}; "
                        f"mines {sorted(np.asarray(s.flat_mine_locations).tolist())}"))
        # the episode continues: no mine has been revealed and the board is not solved yet
        if (explored & grid).any():
            out.append(("episode continues with a revealed mine", str(np.argwhere(explored & grid)[0].tolist())))
        if int(explored.sum()) >= self.R * self.C - self.K and self.R * self.C - self.K > 0:
            out.append(("episode continues although every safe square is revealed", f"explored={int(explored.sum())}"))
        # audit: "only the selected cell changes", "explored cells stay", step_count increments and
        # explored-count == step_count are transition rules / bookkeeping (C09 predicts board and step_count), not the
        # physical consistency or mine conservation C07 lists - removed from the C07 oracle
        return out

    # ---- C08
    def objective(self, ep):
        fs = ep.states[-1] if ep.states else ep.s0
        # the property quantifies over legal action sequences: an episode cut short by an invalid action
        # (the C08 'survive' plans contain raw actions) has no documented objective
        prev = [ep.s0] + list(ep.states[:-1])
        for p_, a in zip(prev, ep.actions):
            r, c = self._rc(a)
            if not (0 <= r < self.R and 0 <= c < self.C) or np.asarray(p_.board)[r, c] != -1:
                return None
        board = np.asarray(fs.board)
        grid = mine_grid(fs.flat_mine_locations, self.R, self.C)
        explored = board != -1
        safe = int((explored & ~grid).sum())
        mines = int((explored & grid).sum())
        return safe * self.r_empty + mines * self.r_mine, 1e-6

    # ---- C09
    def predict(self, s, a):
        r, c = self._rc(a)
        if not (0 <= r < self.R and 0 <= c < self.C):
            return None
        board = np.asarray(s.board).astype(np.int64)
        if board[r, c] != -1:
            return {"last": True, "reward": self.r_invalid}
        grid = mine_grid(s.flat_mine_locations, self.R, self.C)
        nb = board.copy()
        nb[r, c] = neighbour_counts(grid)[r, c]
        solved = int((nb != -1).sum()) == self.R * self.C - self.K
        # audit: the mine *set* is fixed, its storage order is not a documented rule -> judged as a set in stochastic_ok
        st = {"board": nb, "step_count": int(s.step_count) + 1}
        return {"state": st, "reward": self.r_mine if grid[r, c] else self.r_empty,
                "last": bool(grid[r, c] or solved)}

    def stochastic_ok(self, s, a, s2):
        """Not stochastic: the mine set is unchanged by a valid move (compared as a set)."""
        r, c = self._rc(a)
        if not (0 <= r < self.R and 0 <= c < self.C) or np.asarray(s.board)[r, c] != -1:
            return []
        m1 = np.sort(np.asarray(s.flat_mine_locations).astype(np.int64).reshape(-1))
        m2 = np.sort(np.asarray(s2.flat_mine_locations).astype(np.int64).reshape(-1))
        if not np.array_equal(m1, m2):
            return [("mine set changed by a move", f"{m1.tolist()} -> {m2.tolist()}")]
        return []

    # ---- C10
    def validate_instance(self, s0):
        out = self._mine_problems(s0)
        board = np.asarray(s0.board)
        if board.shape != (self.R, self.C) or (board != -1).any():
            out.append(("initial board is not fully unexplored", str(board.tolist())))
        if int(s0.step_count) != 0:
            out.append(("initial step_count != 0", str(int(s0.step_count))))
        return out

    # ---- C12
    def observe_check(self, s, obs):
        out = []
        board = np.asarray(s.board)
        if not np.array_equal(np.asarray(obs.board), board):
            out.append(("board differs from the state", ""))
        if not np.array_equal(np.asarray(obs.action_mask).astype(bool), board == -1):
            out.append(("action_mask is not the set of unexplored squares", ""))
        if int(obs.num_mines) != self.K:
            out.append(("num_mines differs from the configured number of mines", f"{int(obs.num_mines)} vs {self.K}"))
        if int(obs.num_mines) != np.asarray(s.flat_mine_locations).size:
            out.append(("num_mines differs from the number of mines in the state", f"{int(obs.num_mines)}"))
        if int(obs.step_count) != int(s.step_count):
            out.append(("step_count differs from the state", f"{int(obs.step_count)} vs {int(s.step_count)}"))
        return out

    # ---- constructive moves for the 'solve' plan mode
    def solve_action(self, s, r=0):
        """An unexplored safe square (r picks which) - the 'solve' plan mode reaches solved boards with it."""
        board = np.asarray(s.board)
        if board.shape != (self.R, self.C):
            return None
        safe = np.argwhere((board == -1) & ~mine_grid(s.flat_mine_locations, self.R, self.C))
        if len(safe) == 0:
            return None
        rr, cc = safe[int(r) % len(safe)]
        return [int(rr), int(cc)]


# ------------------------------------------------------------------- synthetic tables (C09)
SYNTHETIC_SHARDS = {"quick": 1, "thorough": 2}
_SHAPES_QUICK = [(2, 2, 1), (2, 2, 3), (3, 5, 4), (5, 3, 0), (4, 4, 15), (6, 7, 9)]
_SHAPES_THOROUGH = _SHAPES_QUICK + [(2, 9, 5), (9, 2, 17), (3, 3, 8), (10, 10, 10), (10, 10, 60), (7, 4, 1)]
_JIT = {}


def _count_fn(R, C):
    """vmapped utils.count_adjacent_mines over (mine sets, all actions) for one board shape."""
    key = (R, C)
    if key not in _JIT:
        import jax
        import jax.numpy as jnp

        from jumanji.environments.logic.minesweeper.types import State
        from jumanji.environments.logic.minesweeper.utils import count_adjacent_mines, explored_mine

        acts = jnp.asarray([(r, c) for r in range(R) for c in range(C)], jnp.int32)

        def one(mines):
            st = State(board=jnp.full((R, C), -1, jnp.int32), step_count=jnp.array(0, jnp.int32),
                       flat_mine_locations=mines, key=jnp.zeros(2, jnp.uint32))
            cnt = jax.vmap(lambda a: count_adjacent_mines(state=st, action=a))(acts)
            hit = jax.vmap(lambda a: explored_mine(state=st, action=a))(acts)
            return cnt.reshape(R, C), hit.reshape(R, C)

        _JIT[key] = jax.jit(jax.vmap(one))
    return _JIT[key]


def _check_counts(R, C, mines, got_cnt, got_hit):
    grid = mine_grid(mines, R, C)
    want = neighbour_counts(grid)
    out = []
    if not np.array_equal(np.asarray(got_cnt).astype(np.int64), want):
        bad = np.argwhere(np.asarray(got_cnt) != want)[0]
        out.append(("synthetic.counts", "count_adjacent_mines differs from the number of mines among the 8 neighbours",
                    f"{R}x{C} mines {sorted(int(x) for x in mines)} cell {bad.tolist()}: env "
                    f"{int(np.asarray(got_cnt)[tuple(bad)])} model {int(want[tuple(bad)])}"))
    if not np.array_equal(np.asarray(got_hit).astype(bool), grid):
        out.append(("synthetic.counts", "explored_mine differs from membership in the mine set",
                    f"{R}x{C} mines {sorted(int(x) for x in mines)}"))
    return out


def synthetic_c09(ctx, item, seed, tier):
    import jax

    from vf import hyp
    from vf.hyp import st

    shard, shards = item.get("shard", 0), item.get("shards", 1)
    shapes = _SHAPES_QUICK if tier == "quick" else _SHAPES_THOROUGH
    shapes = [sh for i, sh in enumerate(shapes) if i % shards == shard]
    batch = 24

    for R, C, K in shapes:
        fn = _count_fn(R, C)

        def one(sets, R=R, C=C, K=K, fn=fn):
            arr = np.asarray(sets, np.int32).reshape(batch, K)
            cnt, hit = jax.device_get(fn(arr))
            for i in range(batch):
                ctx.evals()
                ctx.nontrivial("mines", R, C, np.sort(arr[i]))
                for o, sig, msg in _check_counts(R, C, arr[i], cnt[i], hit[i]):
                    ctx.fail(o, "Minesweeper", sig, msg,
                             {"env": "Minesweeper", "synthetic": True, "rows": R, "cols": C,
                              "mines": arr[i].tolist()}, size=K)
            ctx.count("synthetic_mine_sets", batch)

        one_set = st.permutations(list(range(R * C))).map(lambda p, K=K: list(p[:K]))
        hyp.drive({"sets": st.lists(one_set, min_size=batch, max_size=batch)}, one, seed + 31 * (R * 100 + C) + K,
                  6 if tier == "quick" else 30)


def synthetic_replay(case):
    import jax

    R, C = int(case["rows"]), int(case["cols"])
    mines = np.asarray(case["mines"], np.int32)
    cnt, hit = jax.device_get(_count_fn(R, C)(mines[None]))
    return _check_counts(R, C, mines, cnt[0], hit[0])

"""BinPack reference model (from docs/environments/bin_pack.md and the class / generator docstrings).

Geometry: the container is the box [0,X]x[0,Y]x[0,Z] (integers, millimetres).  An item is a box of
size (x_len, y_len, z_len); action (ems_id, item_id) places the item with its bottom-left corner at
the bottom-left corner (x1, y1, z1) of the `ems_id`-th *observed* EMS.  The observation shows the
`obs_num_ems` largest EMSs by volume; `state.sorted_ems_indexes` is the env's own statement of which
state EMS stands at which observed position, so the mask's EMS axis is read through it (and C12
checks that this order really is a top-k-by-volume order and that the shown coordinates are those
EMSs).  Nothing else of the env's bookkeeping is trusted: legality is recomputed *physically* (the
box must lie inside the container and be interior-disjoint from every placed item) in addition to
the documented "item valid, unplaced, EMS valid, dimensions fit".

Invalid action: documented as "the state is not updated, the episode terminates, extras.invalid_action
is True"; dense reward 0, sparse reward = current utilisation.
Objective: volume of placed items / container volume.
"""
from __future__ import annotations

import numpy as np

from vf.models.base import Model

EMS_F = ("x1", "x2", "y1", "y2", "z1", "z2")
LAST = 2


def _ems(e):
    """Space tree -> int64 array (..., 6) in the order x1 x2 y1 y2 z1 z2."""
    return np.stack([np.asarray(getattr(e, f)).astype(np.int64) for f in EMS_F], -1)


def _ems_f(e):
    return np.stack([np.asarray(getattr(e, f)).astype(np.float64) for f in EMS_F], -1)


def _items(it):
    return np.stack([np.asarray(it.x_len), np.asarray(it.y_len), np.asarray(it.z_len)], -1).astype(np.int64)


def _locs(loc):
    return np.stack([np.asarray(loc.x), np.asarray(loc.y), np.asarray(loc.z)], -1).astype(np.int64)


def _vol(e6):
    d = np.stack([e6[..., 1] - e6[..., 0], e6[..., 3] - e6[..., 2], e6[..., 5] - e6[..., 4]], -1)
    return np.where((d > 0).all(-1), np.prod(np.maximum(d, 0).astype(np.float64), -1), 0.0)


def _overlap(lo1, hi1, lo2, hi2):
    """interiors intersect (broadcasting over leading dims, last dim = 3 axes)."""
    return (np.maximum(lo1, lo2) < np.minimum(hi1, hi2)).all(-1)


class M(Model):
    ENV = "BinPack"
    EPISODE_CAP = 80

    @property
    def DETERMINISTIC_CONFIGS(self):
        """Toy and CSV generators ignore the key: whatever entry this bundle is, it is deterministic."""
        return (self.b.entry,) if self.gen_kind in ("ToyGenerator", "CSVGenerator") else ()

    def __init__(self, b):
        super().__init__(b)
        env = b.env
        self.K = int(env.obs_num_ems)
        self.E = int(env.generator.max_num_ems)
        self.N = int(env.generator.max_num_items)
        self.norm = bool(env.normalize_dimensions)
        self.debug = bool(env.debug)
        self.sparse = type(env.reward_fn).__name__ == "SparseReward"
        self.dims = tuple(int(x) for x in env.generator.container_dims)
        self.gen_kind = type(env.generator).__name__
        self._pair = None

    @property
    def REWARD_TWINS(self):
        """dense <-> sparse entries with otherwise identical configuration, if the menu has them."""
        from vf import envs

        have = set(envs.entries("BinPack"))
        cand = {"r10e20s2": "r10e20s2_sparse", "r5e10s1o6": "r5e10s1o6_dense", "r20e40": "r20e40_sparse",
                "r20e60o25": "r20e60o25_dense", "toy": "toy_sparse", "csvtiny": "csvtiny_sparse"}
        out = {}
        for a, t in cand.items():
            if a in have and t in have:
                out[a] = t
                out[t] = a
        return out

    # ------------------------------------------------------------------------------- raw geometry
    def _geom(self, s):
        c = _ems(s.container)
        clo, chi = c[[0, 2, 4]], c[[1, 3, 5]]
        ems = _ems(s.ems)
        ems_mask = np.asarray(s.ems_mask).astype(bool)
        items = _items(s.items)
        imask = np.asarray(s.items_mask).astype(bool)
        placed = np.asarray(s.items_placed).astype(bool)
        loc = _locs(s.items_location)
        return clo, chi, ems, ems_mask, items, imask, placed, loc

    def _order(self, s):
        """state EMS index standing at each observed position (defensive: clipped into range)."""
        idx = np.asarray(s.sorted_ems_indexes).astype(np.int64).reshape(-1)[: self.K]
        if idx.size < self.K:
            idx = np.concatenate([idx, np.zeros(self.K - idx.size, np.int64)])
        return np.clip(idx, 0, self.E - 1)

    def _fits(self, s, ems_idx):
        """bool (len(ems_idx), N): documented legality + physical feasibility of placing item i at
        the corner of state EMS e."""
        clo, chi, ems, ems_mask, items, imask, placed, loc = self._geom(s)
        e = ems[ems_idx]                                  # (K, 6)
        elo, ehi = e[:, [0, 2, 4]], e[:, [1, 3, 5]]
        esize = ehi - elo
        dims_fit = (items[None, :, :] <= esize[:, None, :]).all(-1) & (items > 0).all(-1)[None, :]
        lo = np.broadcast_to(elo[:, None, :], (len(ems_idx), self.N, 3))
        hi = lo + items[None, :, :]
        inside = ((lo >= clo) & (hi <= chi)).all(-1)
        pj = np.flatnonzero(placed)
        if pj.size:
            plo, phi = loc[pj], loc[pj] + items[pj]
            clash = _overlap(lo[:, :, None, :], hi[:, :, None, :], plo[None, None], phi[None, None]).any(-1)
        else:
            clash = np.zeros((len(ems_idx), self.N), bool)
        ok = ems_mask[ems_idx][:, None] & imask[None, :] & ~placed[None, :] & dims_fit & inside & ~clash
        return ok

    # ---------------------------------------------------------------------------------- C04 / C05
    def legal(self, s):
        return self._fits(s, self._order(s))

    def reacted_invalid(self, s, a, s2, ts2, agent=None):
        ex = ts2.extras
        if ex is None or "invalid_action" not in ex:
            return None
        return bool(np.asarray(ex["invalid_action"]))

    def utilisation(self, s):
        clo, chi, ems, ems_mask, items, imask, placed, loc = self._geom(s)
        cv = float(np.prod((chi - clo).astype(np.float64)))
        return float(np.prod(items[placed].astype(np.float64), -1).sum() / cv) if cv > 0 else 0.0

    PROBLEM_FIELDS = ("items_placed", "items_location", "ems", "ems_mask", "items", "items_mask", "container")

    def check_illegal(self, s, a, s2, ts2, agent=None):
        import jax

        out = []
        if int(ts2.step_type) != LAST:
            out.append(("illegal action does not end the episode", f"step_type={int(ts2.step_type)}"))
        want = self.utilisation(s) if self.sparse else 0.0
        got = float(np.asarray(ts2.reward))
        if not np.isclose(got, want, rtol=1e-5, atol=1e-7):
            out.append((f"reward after an illegal action is not the documented value ({'sparse' if self.sparse else 'dense'})",
                        f"reward={got} expected={want}"))
        for f in self.PROBLEM_FIELDS:
            la = jax.tree_util.tree_leaves(getattr(s, f))
            lb = jax.tree_util.tree_leaves(getattr(s2, f))
            # audit: values must be untouched; leaf dtypes are not part of C05 - dtype equality no longer demanded
            same = len(la) == len(lb) and all(np.array_equal(np.asarray(x), np.asarray(y)) for x, y in zip(la, lb))
            if not same:
                out.append((f"state field {f} changed by an illegal action", ""))
        ex = ts2.extras
        if ex is not None and "invalid_action" in ex and not bool(np.asarray(ex["invalid_action"])):
            out.append(("illegal action not flagged in extras.invalid_action", ""))
        return out

    # ---------------------------------------------------------------------------------------- C06
    def constraints(self, s):
        out = []
        clo, chi, ems, ems_mask, items, imask, placed, loc = self._geom(s)
        pj = np.flatnonzero(placed)
        # audit: C06 = hard constraints only (inside the container, never overlapping): "a masked-out item is marked
        # placed", "placed item has a non-positive size" and the debug-mode EMS bookkeeping (EMS inside the container /
        # disjoint from items) are not among them - removed from the C06 oracle
        lo, hi = loc[pj], loc[pj] + items[pj]
        if pj.size:
            bad = ~((lo >= clo) & (hi <= chi)).all(-1)
            if bad.any():
                j = int(pj[np.flatnonzero(bad)[0]])
                out.append(("placed item sticks out of the container",
                            f"item {j} at {loc[j].tolist()} size {items[j].tolist()} container {chi.tolist()}"))
            ov = _overlap(lo[:, None], hi[:, None], lo[None], hi[None])
            np.fill_diagonal(ov, False)
            if ov.any():
                i, j = np.argwhere(ov)[0]
                i, j = int(pj[i]), int(pj[j])
                out.append(("two placed items overlap",
                            f"items {i} at {loc[i].tolist()} size {items[i].tolist()} and {j} at {loc[j].tolist()} size {items[j].tolist()}"))
        return out

    def complete(self, s, ts):
        """Episode ended without an invalid action = 'no action can be performed': no (shown valid
        EMS, valid unplaced item) pair fits any more (which includes 'all items packed')."""
        ex = ts.extras
        if ex is not None and "invalid_action" in ex and bool(np.asarray(ex["invalid_action"])):
            return []
        ok = self._fits(s, self._order(s))
        if ok.any():
            o, i = np.argwhere(ok)[0]
            return [("episode ended although an item still fits into a shown EMS",
                     f"observed ems {int(o)} (state ems {int(self._order(s)[o])}), item {int(i)}")]
        return []

    # ---------------------------------------------------------------------------------------- C08
    def objective(self, ep):
        if not ep.states:
            return None
        return self.utilisation(ep.states[-1]), 1e-5

    # ------------------------------------------------------------------------ constructive solver
    SOLVE_BUDGET = 3000

    @staticmethod
    def _first_empty_point(size, los, his):
        """Smallest point in (z, y, x) lexicographic order that lies inside the container and in no
        placed box.  Its coordinates are 0 or upper faces of placed boxes; in every complete tiling
        the box covering it has its low corner exactly there."""
        cand = []
        for ax in range(3):
            v = {0}
            v.update(int(h[ax]) for h in his)
            cand.append(np.array(sorted(x for x in v if x < size[ax]), np.int64))
        if any(c.size == 0 for c in cand):
            return None
        xs, ys, zs = cand
        Z, Y, X = np.meshgrid(zs, ys, xs, indexing="ij")
        P = np.stack([X, Y, Z], -1).reshape(-1, 3)
        if len(los):
            lo, hi = np.asarray(los, np.int64), np.asarray(his, np.int64)
            inside = ((P[:, None, :] >= lo[None]) & (P[:, None, :] < hi[None])).all(-1).any(-1)
            free = np.flatnonzero(~inside)
        else:
            free = np.arange(len(P))
        return None if free.size == 0 else P[int(free[0])]

    def _tile_plan(self, s):
        """[(item, corner)] completing the packing from the current state, or None."""
        clo, chi, ems, ems_mask, items, imask, placed, loc = self._geom(s)
        size = chi - clo
        valid = np.flatnonzero(imask)
        if clo.any() or int(np.prod(items[valid], -1).sum()) != int(np.prod(size)):
            return None                                   # instance does not promise an exact tiling
        los = [loc[j] for j in np.flatnonzero(placed)]
        his = [loc[j] + items[j] for j in np.flatnonzero(placed)]
        remaining = [int(j) for j in valid if not placed[j]]
        nodes = [0]
        plan = []

        def rec():
            if not remaining:
                return True
            p = self._first_empty_point(size, los, his)
            if p is None:
                return False
            tried = set()
            # free extent of the ray from p along each axis (up to the next placed box / the wall)
            ext = size - p
            if los:
                lo_a, hi_a = np.asarray(los), np.asarray(his)
                for ax in range(3):
                    o = [k for k in range(3) if k != ax]
                    hit = ((lo_a[:, o] <= p[o]) & (p[o] < hi_a[:, o])).all(-1) & (lo_a[:, ax] >= p[ax])
                    if hit.any():
                        ext[ax] = min(ext[ax], int(lo_a[hit, ax].min()) - int(p[ax]))
            rem_dims = items[remaining]
            for j in list(remaining):
                d = tuple(items[j].tolist())
                if d in tried:
                    continue
                tried.add(d)
                hi = p + items[j]
                if (hi > size).any() or (items[j] > ext).any():
                    continue
                if los and _overlap(p[None], hi[None], np.asarray(los), np.asarray(his)).any():
                    continue
                # the box right behind this one along each ray starts exactly at its far face, so
                # the leftover of the ray must be 0 or long enough for some other remaining item
                if len(remaining) > 1:
                    others = np.delete(rem_dims, remaining.index(j), 0).min(0)
                    gap = ext - items[j]
                    if ((gap > 0) & (gap < others)).any():
                        continue
                nodes[0] += 1
                if nodes[0] > self.SOLVE_BUDGET:
                    return None
                remaining.remove(j)
                los.append(p)
                his.append(hi)
                plan.append((j, p))
                res = rec()
                if res:
                    return True
                plan.pop()
                los.pop()
                his.pop()
                remaining.append(j)
                remaining.sort()
                if res is None:
                    return None
            return False

        return list(plan) if rec() else None

    def solve_action(self, s, r=0):
        """Next step of an exact tiling of the container by the remaining items (depth-first search
        placing an item at the lowest-leftmost empty point), expressed as (observed EMS, item): the
        EMS must be shown, have its corner at that point and hold the item.  None otherwise."""
        if not hasattr(self, "_plans"):
            self._plans = {}
        placed = np.asarray(s.items_placed).astype(bool)
        loc = _locs(s.items_location)
        key = (_items(s.items).tobytes(), placed.tobytes(), (loc * placed[:, None]).tobytes())
        if key not in self._plans:
            if len(self._plans) > 4096:
                self._plans.clear()
                self._fails = {}
            # a search that fails is expensive: give up on an instance after two failures
            fails = self.__dict__.setdefault("_fails", {})
            plan = self._tile_plan(s) if fails.get(key[0], 0) < 2 else None
            if plan is None:
                fails[key[0]] = fails.get(key[0], 0) + 1
            self._plans[key] = plan
            if plan:
                pl, lc = placed.copy(), (loc * placed[:, None]).copy()
                for n, (j, p) in enumerate(plan[:-1]):
                    pl, lc = pl.copy(), lc.copy()
                    pl[j] = True
                    lc[j] = p
                    self._plans.setdefault((key[0], pl.tobytes(), lc.tobytes()), plan[n + 1:])
        plan = self._plans[key]
        if not plan:
            return None
        j, p = plan[0]
        idx = self._order(s)
        ems = _ems(s.ems)[idx]
        ok = self._fits(s, idx)[:, j] & (ems[:, [0, 2, 4]] == np.asarray(p)[None]).all(-1)
        o = np.flatnonzero(ok)
        if o.size == 0:
            return None
        return np.asarray([int(o[int(r) % o.size]), int(j)], np.int32)

    # ---------------------------------------------------------------------------------------- C10
    def _solution_pair(self):
        import jax

        if self._pair is None:
            g = self.env.generator
            self._pair = (jax.jit(lambda k: g(k)), jax.jit(lambda k: g.generate_solution(k)))
        return self._pair

    def _check_tiling(self, tag, clo, chi, items, imask, loc):
        out = []
        v = np.flatnonzero(imask)
        lo, hi = loc[v], loc[v] + items[v]
        if v.size == 0:
            return [(f"{tag}: no valid item", "")]
        if not (items[v] > 0).all():
            out.append((f"{tag}: a valid item has a non-positive dimension", f"items {items[v][~(items[v] > 0).all(-1)][:3].tolist()}"))
        bad = ~((lo >= clo) & (hi <= chi)).all(-1)
        if bad.any():
            j = int(v[np.flatnonzero(bad)[0]])
            out.append((f"{tag}: item outside the container", f"item {j} at {loc[j].tolist()} size {items[j].tolist()}"))
        ov = _overlap(lo[:, None], hi[:, None], lo[None], hi[None])
        np.fill_diagonal(ov, False)
        if ov.any():
            i, j = np.argwhere(ov)[0]
            out.append((f"{tag}: two items overlap", f"items {int(v[i])} and {int(v[j])}"))
        tot = int(np.prod(items[v], -1).sum())
        cv = int(np.prod(chi - clo))
        if tot != cv:
            out.append((f"{tag}: item volumes do not sum to the container volume", f"sum={tot} container={cv}"))
        return out

    def _csv_round_trip(self, s0, valid_items, dims):
        return _csv_round_trip_impl(self, s0, valid_items, dims)

    def validate_instance(self, s0):
        import jax

        out = []
        clo, chi, ems, ems_mask, items, imask, placed, loc = self._geom(s0)
        if tuple((chi - clo).tolist()) != self.dims or clo.any():
            out.append(("container is not the configured box at the origin", f"{clo.tolist()}..{chi.tolist()} vs {self.dims}"))
        # audit: which buffer slot holds the initial EMS and the location values of unplaced items are internal
        # representation - asserted slot-agnostically: the empty container has exactly one (maximal) empty space, itself
        c6 = _ems(s0.container)
        ev = np.flatnonzero(ems_mask)
        if ev.size != 1 or not np.array_equal(ems[ev[0]], c6):
            out.append(("reset state's valid EMSs are not exactly the container",
                        f"valid ems {ems[ev][:4].tolist()} container={c6.tolist()}"))
        if placed.any():
            out.append(("items already placed at reset", f"{np.flatnonzero(placed).tolist()[:6]}"))
        v = np.flatnonzero(imask)
        if v.size == 0:
            out.append(("no valid item", ""))
        else:
            if not (items[v] > 0).all():
                out.append(("a valid item has a non-positive dimension", f"{items[v][~(items[v] > 0).all(-1)][:3].tolist()}"))
            if (items[v] > (chi - clo)).any():
                out.append(("a valid item is larger than the container", ""))
        if self.gen_kind == "CSVGenerator":
            return out      # a CSV instance promises no tiling and has no generate_solution
        out += self._csv_round_trip(s0, items[v], tuple(int(x) for x in (chi - clo)))
        if v.size:
            tot, cv = int(np.prod(items[v], -1).sum()), int(np.prod(chi - clo))
            if tot != cv:
                out.append(("item volumes do not sum to the container volume", f"sum={tot} container={cv}"))
        # generator(key') vs generate_solution(key') for a fresh key derived from this instance
        # (the reset key itself is not part of the state; any key is as good as any other)
        gen, sol = self._solution_pair()
        k = np.asarray(s0.key).astype(np.uint32)
        inst = jax.device_get(gen(k))
        solv = jax.device_get(sol(k))
        iclo, ichi, iems, iems_mask, iitems, iimask, iplaced, iloc = self._geom(inst)
        sclo, schi, sems, sems_mask, sitems, simask, splaced, sloc = self._geom(solv)
        if not (np.array_equal(iitems, sitems) and np.array_equal(iimask, simask) and np.array_equal(ichi, schi)):
            out.append(("generator(key) and generate_solution(key) describe different instances", f"key={k.tolist()}"))
        if not np.array_equal(splaced, simask):
            out.append(("generate_solution: placed flags differ from the valid items", f"key={k.tolist()}"))
        iev = np.flatnonzero(iems_mask)
        if iplaced.any() or iev.size != 1 or not np.array_equal(iems[iev[0]], _ems(inst.container)):
            out.append(("generator(key) is not the unpacked solution with the container as its only EMS", f"key={k.tolist()}"))
        out += [(sig, f"{msg} key={k.tolist()}") for sig, msg in
                self._check_tiling("generate_solution", sclo, schi, sitems, simask, sloc)]
        return out

    # ---------------------------------------------------------------------------------------- C12
    def observe_check(self, s, obs):
        out = []
        clo, chi, ems, ems_mask, items, imask, placed, loc = self._geom(s)
        oe = _ems_f(obs.ems)
        om = np.asarray(obs.ems_mask).astype(bool)
        if oe.shape != (self.K, 6) or om.shape != (self.K,):
            return [("observed EMS arrays have the wrong shape", f"{oe.shape} {om.shape}")]
        # audit: `sorted_ems_indexes` being a full permutation of the buffer and the *order* in which the shown EMSs
        # appear are not part of C12 ("shows the obs_num_ems largest empty spaces"); the field is only used as the env's
        # own statement of which state EMS stands at which observed position.  Asserted: no valid EMS is shown twice and
        # no hidden valid EMS is larger than a shown slot (an empty / invalid slot counts as volume 0; ties tolerated).
        idx = self._order(s)
        vol = _vol(ems) * ems_mask
        shown_valid = om & ems_mask[idx]
        shown_vol = np.where(shown_valid, vol[idx], 0.0)
        tol = 1e-6
        hidden = ems_mask.copy()
        hidden[idx[shown_valid]] = False
        iv = idx[shown_valid]
        if len(set(iv.tolist())) != iv.size:
            out.append(("the same EMS is shown twice", f"{idx.tolist()[:12]}"))
        elif hidden.any() and vol[hidden].max() > shown_vol.min() * (1 + tol):
            h = int(np.flatnonzero(hidden)[np.argmax(vol[hidden])])
            out.append(("a hidden EMS is larger than a shown one",
                        f"hidden ems {h} volume {vol[h]:.0f} > smallest shown {shown_vol.min():.0f}"))
        if not np.array_equal(om, ems_mask[idx]):
            out.append(("observed ems_mask differs from the state's mask of the shown EMSs", ""))
        size = (chi - clo).astype(np.float64)
        scale6 = np.repeat(size, 2) if self.norm else np.ones(6)
        want = ems[idx].astype(np.float64) / scale6
        cmp = om & ems_mask[idx]
        if cmp.any() and not np.allclose(oe[cmp], want[cmp], rtol=1e-5, atol=1e-6):
            p = int(np.flatnonzero(cmp & ~np.isclose(oe, want, rtol=1e-5, atol=1e-6).all(-1))[0])
            out.append((f"shown EMS coordinates differ from the state EMS ({'normalised' if self.norm else 'raw'})",
                        f"position {p}: obs {oe[p].tolist()} expected {want[p].tolist()}"))
        oi = np.stack([np.asarray(obs.items.x_len), np.asarray(obs.items.y_len), np.asarray(obs.items.z_len)], -1).astype(np.float64)
        wi = items.astype(np.float64) / (size if self.norm else np.ones(3))
        # audit: compared on the valid items only (the values shown for padding items are not documented)
        if oi.shape != wi.shape or not np.allclose(oi[imask], wi[imask], rtol=1e-5, atol=1e-6):
            out.append((f"observed item sizes differ from the state items ({'normalised' if self.norm else 'raw'})", ""))
        # audit: integer dtype of the un-normalised observation is spec conformance (C01) - removed
        if not np.array_equal(np.asarray(obs.items_mask), np.asarray(s.items_mask)):
            out.append(("items_mask differs from the state", ""))
        if not np.array_equal(np.asarray(obs.items_placed), np.asarray(s.items_placed)):
            out.append(("items_placed differs from the state", ""))
        if s.action_mask is not None and not np.array_equal(np.asarray(obs.action_mask), np.asarray(s.action_mask)):
            out.append(("action_mask differs from the state", ""))
        return out


def _csv_round_trip_impl(model, s0, valid_items, dims):
    """`save_instance_to_csv` followed by `CSVGenerator` on that file reproduces the instance's items (the exporter
    and the CSV generator are the shipped pair for "active search" on a fixed instance).  First 4 instances only."""
    import os
    import tempfile

    import jax

    if getattr(model, "_csv_done", 0) >= 4:
        return []
    model._csv_done = getattr(model, "_csv_done", 0) + 1
    from jumanji.environments.packing.bin_pack.generator import CSVGenerator, save_instance_to_csv

    d = tempfile.mkdtemp(prefix="vf-csvrt-", dir="/dev/shm" if os.path.isdir("/dev/shm") else None)
    path = os.path.join(d, "inst.csv")
    try:
        save_instance_to_csv(s0, path)
        gen = CSVGenerator(path, max_num_ems=int(np.asarray(s0.ems_mask).shape[0]), container_dims=dims)
        s1 = jax.device_get(gen(jax.random.PRNGKey(0)))
    finally:
        try:
            os.remove(path)
            os.rmdir(d)
        except OSError:
            pass
    it = np.stack([np.asarray(s1.items.x_len), np.asarray(s1.items.y_len), np.asarray(s1.items.z_len)], -1).astype(np.int64)
    got = sorted(map(tuple, it[np.asarray(s1.items_mask).astype(bool)].tolist()))
    want = sorted(map(tuple, np.asarray(valid_items, np.int64).tolist()))
    if got != want:
        return [("CSV round trip (save_instance_to_csv -> CSVGenerator) does not reproduce the instance's items",
                 f"{len(want)} items saved, {len(got)} items read back; extra {sorted(set(got) - set(want))[:3]} "
                 f"missing {sorted(set(want) - set(got))[:3]}")]
    return []


def _extra(dims, items=6, ems=20, same=2):
    def f():
        from jumanji.environments import BinPack
        from jumanji.environments.packing.bin_pack.generator import RandomGenerator

        return BinPack(generator=RandomGenerator(items, ems, split_num_same_items=same, container_dims=dims),
                       obs_num_ems=ems)
    return f


EXTRA_INSTANCE_CONFIGS = {
    "rand_c2x2x2": _extra((2, 2, 2)),
    "rand_c3x5x7": _extra((3, 5, 7), items=10, ems=20, same=3),
    "rand_c1x1x9_i12s5": _extra((1, 1, 9), items=12, ems=20, same=5),
}

"""GraphColoring reference model (from docs/environments/graph_coloring.md and the class docstring).

Rules: nodes are coloured one at a time in index order (`current_node_index` is the node being
coloured); an action is the colour (0..num_nodes-1) given to it.  A colour is allowed iff no
already-coloured neighbour of the current node has it ("the allowed colour set for each node is
updated after every action", i.e. it includes the colour assigned by the step that produced the
present observation).  An invalid action ends the episode with reward -num_nodes.  The episode
ends when all nodes are coloured; the reward is then minus the number of distinct colours used
(0 on every other step).
"""
from __future__ import annotations

import numpy as np

from vf.models.base import Model

LAST = 2



def _gc(n, p):
    def f():
        from jumanji.environments import GraphColoring
        from jumanji.environments.logic.graph_coloring.generator import RandomGenerator

        return GraphColoring(generator=RandomGenerator(num_nodes=n, edge_probability=p))
    return f


# extra generator configurations for C10: minimum size with a random edge, sparse / dense larger graphs
EXTRA_INSTANCE_CONFIGS = {"x_n2p5": _gc(2, 0.5), "x_n50p1": _gc(50, 0.1), "x_n13p9": _gc(13, 0.9)}

class M(Model):
    ENV = "GraphColoring"

    def __init__(self, b):
        super().__init__(b)
        self.N = int(b.env.num_nodes)

    # ---- helpers
    def _arrays(self, s):
        adj = np.asarray(s.adj_matrix).astype(bool)
        col = np.asarray(s.colors).astype(np.int64)
        node = int(s.current_node_index)
        return adj, col, node

    def _legal(self, adj, col, node):
        L = np.ones(self.N, bool)
        if not (0 <= node < self.N):
            return L
        for n in np.flatnonzero(adj[node]):
            c = int(col[n])
            if 0 <= c < self.N:
                L[c] = False
        return L

    # ---- plan bias ('solve' mode of the drivers)
    def solve_action(self, s, r=0):
        """First-fit colouring (smallest allowed colour); every fourth call takes the r-th allowed
        colour instead, so that colourings with more colours are reached too."""
        L = np.flatnonzero(self._legal(*self._arrays(s)))
        if L.size == 0:
            return None
        r = int(r)
        return np.asarray(L[0] if r % 4 else L[(r // 4) % L.size], np.int32)

    # ---- C04 / C05
    def legal(self, s):
        return self._legal(*self._arrays(s))

    def reacted_invalid(self, s, a, s2, ts2, agent=None):
        adj, col, node = self._arrays(s)
        if int(ts2.step_type) != LAST:
            return False
        r = float(ts2.reward)
        if r != -float(self.N):
            return False  # ended by completion with fewer colours
        col2 = col.copy()
        if 0 <= node < self.N:
            col2[node] = int(a)
        if (col2 >= 0).all() and len(set(col2.tolist())) == self.N:
            return None  # completion with num_nodes distinct colours earns the same reward
        return True

    def check_illegal(self, s, a, s2, ts2, agent=None):
        out = []
        if int(ts2.step_type) != LAST:
            out.append(("illegal move does not end the episode", f"step_type={int(ts2.step_type)}"))
        if float(ts2.reward) != -float(self.N):
            out.append(("illegal move: reward is not -num_nodes", f"reward={float(ts2.reward)} num_nodes={self.N}"))
        return out

    # ---- C06
    def constraints(self, s):
        adj, col, _ = self._arrays(s)
        same = (col[:, None] == col[None, :]) & (col[:, None] >= 0)
        bad = np.argwhere(adj & same)
        if bad.size:
            i, j = bad[0].tolist()
            return [("adjacent nodes share a colour", f"nodes {i} and {j} both have colour {int(col[i])}; colors={col.tolist()}")]
        return []

    def complete(self, s, ts):
        _, col, _ = self._arrays(s)
        if (col < 0).any():
            return [("episode ended under legal play with uncoloured nodes", f"colors={col.tolist()}")]
        if (col >= self.N).any():
            return [("colour out of range", f"colors={col.tolist()}")]
        return []

    # ---- C08
    def objective(self, ep):
        if not ep.states:
            return None
        prev = ep.states[-2] if len(ep.states) >= 2 else ep.s0
        a = int(ep.actions[-1])
        if not (0 <= a < self.N and bool(self.legal(prev)[a])):
            return -float(self.N), 1e-6  # episode ended by an invalid action: documented penalty
        _, col, _ = self._arrays(ep.states[-1])
        if (col < 0).any():
            return None
        return -float(len(set(col.tolist()))), 1e-6

    # ---- C09
    def predict(self, s, a):
        a = int(a)
        adj, col, node = self._arrays(s)
        if not (0 <= node < self.N) or not (0 <= a < self.N):
            return None
        if col[node] >= 0:
            return None  # wrapped around after the end of an episode: not defined
        if not self._legal(adj, col, node)[a]:
            return {"last": True, "reward": -float(self.N)}  # audit: discount is C03's, not part of C09 - not predicted
        col2 = col.copy()
        col2[node] = a
        done = bool((col2 >= 0).all())
        # audit: the docs only say "the environment iteratively assigns colors to nodes" / "current_node_index: the
        # current node being colored" - the visiting order (node + 1) is not a documented rule, so the next index is
        # not predicted as one value; stochastic_ok demands that it names a node that is still uncoloured
        st = {"colors": col2.astype(np.asarray(s.colors).dtype), "adj_matrix": adj}
        reward = -float(len(set(col2.tolist()))) if done else 0.0
        return {"state": st, "reward": reward, "last": done}

    def stochastic_ok(self, s, a, s2):
        """Not stochastic: while the episode continues the next current node must be an uncoloured node."""
        a = int(a)
        adj, col, node = self._arrays(s)
        if not (0 <= node < self.N) or not (0 <= a < self.N) or col[node] >= 0 or not self._legal(adj, col, node)[a]:
            return []
        _, col2, node2 = self._arrays(s2)
        if (col2 < 0).any() and not (0 <= node2 < self.N and col2[node2] < 0):
            return [("next current_node_index does not name an uncoloured node",
                     f"current_node_index {node2} colors {col2.tolist()}")]
        return []

    # ---- C10
    def validate_instance(self, s0):
        out = []
        adj = np.asarray(s0.adj_matrix)
        # audit: the dtype of adj_matrix is spec conformance (C01) - removed
        if adj.shape != (self.N, self.N):
            return out + [("adjacency shape", str(adj.shape))]
        adj = adj.astype(bool)
        if not np.array_equal(adj, adj.T):
            out.append(("adjacency matrix not symmetric", str(np.argwhere(adj != adj.T)[0].tolist())))
        if np.diag(adj).any():
            out.append(("self-loop in the graph", f"node {int(np.flatnonzero(np.diag(adj))[0])}"))
        if (np.asarray(s0.colors) != -1).any():
            out.append(("node coloured at reset", str(np.asarray(s0.colors).tolist())))
        # audit: which node is coloured first is not advertised ("an initial current_node_index might be 0") - it only
        # has to name a node of the graph
        if not (0 <= int(s0.current_node_index) < self.N):
            out.append(("current_node_index at reset is not a node of the graph", str(int(s0.current_node_index))))
        return out

    # ---- C12
    def observe_check(self, s, obs):
        out = []
        for f in ("adj_matrix", "colors", "action_mask", "current_node_index"):
            x, y = np.asarray(getattr(obs, f)), np.asarray(getattr(s, f))
            if x.shape != y.shape or not np.array_equal(x, y):
                out.append((f"{f} differs from the state", f"obs {x.tolist()} state {y.tolist()}"[:300]))
        return out

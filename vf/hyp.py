"""Thin layer over Hypothesis: seeded, database-free, deadline-free drivers.

`drive` runs a generator-only campaign (the property code *collects* failures through Ctx.fail and
never raises, so one run enumerates every failure bucket instead of stopping at the first);
`minimise` then shrinks one bucket with Hypothesis' own shrinker by re-running the same strategies
against a predicate "this bucket fails".
"""
from __future__ import annotations

import hypothesis
from hypothesis import HealthCheck, Phase, given, settings
from hypothesis import strategies as st  # noqa: F401  (re-export)


def _settings(max_examples: int, shrink: bool = False, steps: int = 50) -> settings:
    phases = [Phase.generate] + ([Phase.shrink] if shrink else [])
    return settings(
        max_examples=max(1, int(max_examples)), database=None, deadline=None, derandomize=False,
        report_multiple_bugs=False, suppress_health_check=list(HealthCheck), phases=phases,
        stateful_step_count=steps, print_blob=False,
    )


def drive(strategies: dict, fn, seed: int, max_examples: int) -> None:
    """Run `fn(**drawn)` on `max_examples` generated cases.  `fn` must not raise for property
    failures (use Ctx.fail); exceptions propagate as harness / repo errors."""

    @hypothesis.seed(seed)
    @_settings(max_examples)
    @given(**strategies)
    def _t(**kw):
        fn(**kw)

    _t()


class _Found(Exception):
    pass


def minimise(strategies: dict, predicate, seed: int, max_examples: int = 400):
    """Smallest (by Hypothesis' shrink order) drawn kwargs for which predicate(**kw) is true, or
    None if the campaign does not hit it again."""
    last = {}

    @hypothesis.seed(seed)
    @_settings(max_examples, shrink=True)
    @given(**strategies)
    def _t(**kw):
        if predicate(**kw):
            last.clear()
            last.update(kw)
            raise _Found()

    try:
        _t()
    except _Found:
        return dict(last)
    except BaseException:  # noqa: BLE001 - flaky / multiple errors: fall back to what we saw last
        return dict(last) if last else None
    return None


def run_machine(machine_cls, seed: int, max_examples: int, steps: int) -> None:
    from hypothesis.stateful import run_state_machine_as_test

    run_state_machine_as_test(hypothesis.seed(seed)(machine_cls),
                              settings=_settings(max_examples, steps=steps))

"""Process-isolation differential for C02: the trace of one configuration in a process that built nothing else vs the
trace of the same configuration in a process that first built (and traced) other configurations of the same environment.

Run as a subprocess:  python -m vf.isolate '<json spec>'   ->  one line "ISOLATE <json>".
spec = {"env", "build": [entries constructed and abstractly traced first], "targets": [entries], "key": [a, b], "rs": [ints]}
"""
from __future__ import annotations

import json
import os
import subprocess
import sys

from vf import common


def trace(b, key_words, rs):
    """[{leaf path: digest}] for reset(key) followed by len(rs) legal steps (legal action number r)."""
    import jax
    import numpy as np

    from vf import envs, episodes

    out = []

    def rec(tree):
        leaves = jax.tree_util.tree_flatten_with_path(episodes.host(tree))[0]
        out.append({jax.tree_util.keystr(p): common.digest(np.asarray(x)) for p, x in leaves})

    s, ts = b.reset(envs.make_key(tuple(key_words)))
    rec((s, ts))
    for r in rs:
        a = np.asarray(b.pick_action(s, ts, "legal", r))
        s, ts = b.step(s, a)
        rec((s, ts))
    return out


def touch(name, entry):
    """Construct a configuration and trace its reset/step abstractly (no compilation, no execution)."""
    import jax

    from vf import envs

    env = envs.make_env(name, entry)
    key = envs.make_key((0, 1))
    s, _ = jax.eval_shape(env.reset, key)
    a = env.action_spec.generate_value()
    jax.eval_shape(env.step, s, a)
    return env


def spawn(spec):
    env = dict(os.environ)
    if spec.get("hashseed") is not None:    # another string-hash salt: set / dict iteration orders differ
        env["PYTHONHASHSEED"] = str(int(spec["hashseed"]))
    return subprocess.Popen([sys.executable, "-W", "ignore", "-m", "vf.isolate", json.dumps(spec)], cwd=common.VERIF_ROOT,
                            env=env, stdout=subprocess.PIPE, stderr=subprocess.PIPE, text=True)


def collect(proc, timeout=900):
    out, err = proc.communicate(timeout=timeout)
    for line in out.splitlines():
        if line.startswith("ISOLATE "):
            return json.loads(line[8:])
    raise RuntimeError(f"isolated process failed (exit {proc.returncode}): {err[-1500:]}")


def main():
    spec = json.loads(sys.argv[1])
    common.setup_process()
    from vf import envs

    keep = []
    try:
        for e in spec["build"]:
            keep.append(touch(spec["env"], e))
        res = {"traces": {}}
        for t in spec["targets"]:
            res["traces"][t] = trace(envs.Bundle(spec["env"], t), spec["key"], spec["rs"])
    except Exception as exc:  # reported to the parent, which decides whose frame it is
        import traceback

        res = {"error": f"{type(exc).__name__}: {exc}", "tb": traceback.format_exc()[-3000:]}
    print("ISOLATE " + json.dumps(res))


if __name__ == "__main__":
    main()

"""Scaffold shared by the history-driven property modules (one work item = one (env, entry))."""
from __future__ import annotations

from vf import envs, episodes, hyp
from vf.runner import Ctx


# environments whose jitted step is cheap get proportionally more episodes (rare-event coverage, e.g. a Snake
# fruit spawning under the head needs many eaten fruits)
CHEAP = {"Snake": 4, "Knapsack": 2, "TSP": 2, "CVRP": 2, "Maze": 2, "Game2048": 2, "Minesweeper": 2,
         "SlidingTilePuzzle": 2, "GraphColoring": 2, "Tetris": 2, "Cleaner": 2, "Sokoban": 3, "MMST": 6, "MultiCVRP": 4, "RobotWarehouse": 3}


def work_items(env_names, tier, flt, n_quick, n_thorough, cost=None):
    scale = (flt or {}).get("scale", 1.0)
    items = []
    for env in envs.select_envs(env_names, flt):
        for entry in envs.tier_entries(env, tier, flt):
            n = n_quick if tier == "quick" else n_thorough
            if isinstance(n, dict):
                n = n.get(env, n["*"])
            n = n * CHEAP.get(env, 1)
            items.append({"env": env, "entry": entry, "n": max(1, int(n * scale)),
                          "cost": (cost or {}).get(env, 1.0)})
    return items


def run_item(prop, item, seed, make_monitor, max_len=60, styles=None, after_last=0,
             legal_fn_factory=None, per_episode=None, stop_at_last=True, setup=None, deep=False):
    """Generic driver: Hypothesis draws (key, plan); the plan is played with the jitted env and
    the property's monitor is evaluated at every step.  `per_episode(ctx, b, rec, summary)` can
    add classification counters / non-triviality digests."""
    ctx = Ctx(prop, item)
    with ctx.guard(item["env"], {"env": item["env"], "entry": item["entry"], "stage": "construct"}):
        b = envs.bundle(item["env"], item["entry"])
        shared = setup(ctx, b) if setup else None
        legal_fn = legal_fn_factory(b) if legal_fn_factory else None
        solve_fn = episodes.solve_fn_for(b)
        kw = {"max_len": max_len}
        if styles:
            kw["styles"] = styles

        counter = {"i": 0}

        def one(key, plan):
            plan = episodes.restyle(plan, counter["i"], b.name)
            dp = b.meta.get("deep") if deep else None
            if dp and counter["i"] % 3 == 2:
                # deep start (every third case): the number of scripted steps comes from the drawn plan
                lo, hi = dp["steps"]
                plan = dict(plan, prefix={"policy": dp["policy"], "steps": lo + plan["steps"][0][1] % (hi - lo + 1),
                                          "salt": int(plan["u"][0]) if plan.get("u") else 0})
                ctx.count("deep_starts")
            counter["i"] += 1
            rec = episodes.Recorder(ctx, b, key)
            mon = make_monitor(b, ctx, shared)
            with ctx.guard(item["env"], rec.case(), size=10**6):
                try:
                    summ = episodes.run_plan(b, rec, plan, mon, after_last=after_last,
                                             legal_fn=legal_fn, stop_at_last=stop_at_last, solve_fn=solve_fn)
                except Exception:
                    # the case recorded by guard must contain the actions played so far
                    rec.extra["partial"] = True
                    _reraise_with_case(ctx, item["env"], rec)
                    return
            ctx.count("episodes")
            ctx.count(f"style_{plan['style']}")
            ctx.count(f"end_{summ['cause'] or 'none'}")
            ctx.count("steps", summ["steps"])
            if per_episode:
                per_episode(ctx, b, rec, summ, mon)
            if len(ctx.samples) < 3:
                ctx.sample({"env": b.name, "entry": b.entry, "key": rec.key_words, "style": plan["style"],
                            "actions": [a.tolist() for a in rec.actions[:12]],
                            "steps": summ["steps"], "end": summ["cause"]})

        hyp.drive({"key": episodes.keys(), "plan": episodes.plans(**kw)}, one, seed, item["n"])
    return ctx.result()


def _reraise_with_case(ctx, env, rec):
    import sys

    from vf.runner import classify_exception, exc_sig
    import traceback

    exc = sys.exc_info()[1]
    if classify_exception(exc) != "repo":
        raise exc
    ctx.fail("exception", env, exc_sig(exc), "".join(traceback.format_exception(exc))[-1500:],
             rec.case(), size=len(rec.actions))


def replay(prop, case, make_monitor, setup=None):
    ctx = Ctx(prop, {})
    b = envs.bundle(case["env"], case["entry"], **case.get("overrides", {}))
    shared = setup(ctx, b) if setup else None
    rec = episodes.Recorder(ctx, b, case["key"], extra={"prefix": case["prefix"]} if case.get("prefix") else None)
    mon = make_monitor(b, ctx, shared)
    with ctx.guard(case["env"], case):
        episodes.run_actions(b, rec, case["actions"], mon)
    return list(ctx.failures.values())

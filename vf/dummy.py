"""Recording dummy entry points for the registry checks (C18).

`jumanji.registration.load("vf.dummy:Recorder")` imports this module and returns the class; `make`
then calls it with the positional arguments of the caller and the merged keyword arguments.  The
instance only remembers what it was constructed with.
"""
from __future__ import annotations


class Recorder:
    def __init__(self, *args, **kwargs):
        self.args = args
        self.kwargs = kwargs


class Recorder2(Recorder):
    """A second, distinguishable class: `make` must build the class that was registered."""


_UNSET = object()


class Named(Recorder):
    """An entry point with *named* constructor parameters (like every real environment): positional arguments of the
    caller bind to a, b, c in this order, so `make(id, 7)` on an id whose registered kwargs contain `a` must fail with
    the constructor's own TypeError, and registered kwargs for parameters the caller did not bind must still arrive."""

    def __init__(self, a=_UNSET, b=_UNSET, c=_UNSET, *rest, **kwargs):
        bound = {k: v for k, v in (("a", a), ("b", b), ("c", c)) if v is not _UNSET}
        self.args = rest
        self.kwargs = dict(bound, **kwargs)

"""Recording dummy entry points for the registry checks (C18).

`jumanji.registration.load("vf.dummy:Recorder")` imports this module and returns the class; `make`
then calls it with the positional arguments of the caller and the merged keyword arguments.  The
instance only remembers what it was constructed with.
"""
from __future__ import annotations


class Recorder:
    def __init__(self, *args, **kwargs):
        self.args = args
        self.kwargs = kwargs


class Recorder2(Recorder):
    """A second, distinguishable class: `make` must build the class that was registered."""

"""Environment adapters: finite constructor-configuration menus, cached jitted functions, mask
layouts and the mask-relative action picker shared by all history-driven properties.

Menus only use constructor arguments that the constructors document and accept (soundness first);
each entry is identified by a short string so that replay files can name it.
"""
from __future__ import annotations

import functools
import os
import tempfile

import numpy as np

ENV_NAMES = [
    "Game2048", "GraphColoring", "Minesweeper", "RubiksCube", "SlidingTilePuzzle", "Sudoku",
    "BinPack", "FlatPack", "JobShop", "Knapsack", "Tetris",
    "Cleaner", "Connector", "CVRP", "LevelBasedForaging", "Maze", "MMST", "MultiCVRP", "PacMan",
    "RobotWarehouse", "Snake", "Sokoban", "TSP",
]

# mask layout: 'flat' (Discrete action, mask (n,)), 'nd' (MultiDiscrete action, mask shape == nvec),
# 'agents' (action (A,), mask (A, n)), None (no mask in the observation)
MASK_LAYOUT = {
    "Game2048": "flat", "GraphColoring": "flat", "Minesweeper": "nd", "RubiksCube": None,
    "SlidingTilePuzzle": "flat", "Sudoku": "nd", "BinPack": "nd", "FlatPack": "nd",
    "JobShop": "agents", "Knapsack": "flat", "Tetris": "nd", "Cleaner": "agents",
    "Connector": "agents", "CVRP": "flat", "LevelBasedForaging": "agents", "Maze": "flat",
    "MMST": "agents", "MultiCVRP": "agents", "PacMan": "flat", "RobotWarehouse": "agents",
    "Snake": "flat", "Sokoban": None, "TSP": "flat",
}

# envs whose constructor takes `time_limit`; value = constructor default
TIME_LIMITED = {
    "RubiksCube": 200, "SlidingTilePuzzle": 500, "Tetris": 400, "Cleaner": None, "Connector": 50,
    "LevelBasedForaging": 100, "Maze": None, "MMST": 70, "PacMan": None, "RobotWarehouse": 500,
    "Snake": 4000, "Sokoban": 120,
}

TERMINATE_ON_INVALID = ["TSP", "CVRP", "Knapsack", "BinPack", "JobShop", "GraphColoring", "Sudoku",
                        "Minesweeper", "Snake", "Tetris", "Cleaner"]
IGNORE_INVALID = ["Maze", "PacMan", "Sokoban", "SlidingTilePuzzle", "Game2048", "FlatPack",
                  "Connector", "RobotWarehouse", "LevelBasedForaging"]


# hand-made 11x13 ASCII map (format of AsciiGenerator: X wall, G ghost spawn, P player, O power-up, T ghost
# initial target, S scatter target; the open row 5 is a wrap-around tunnel like the default map's row 14)
PACMAN_SMALL_MAZE = [
    "XXXXXXXXXXXXX",
    "XS    T    SX",
    "X XXX X XXX X",
    "XO   G G   OX",
    "X XXX X XXX X",
    "    T P T    ",
    "X XXX X XXX X",
    "XO   G G   OX",
    "X XXX X XXX X",
    "XS    T    SX",
    "XXXXXXXXXXXXX",
]


# 11x15 map whose tunnel (row 5) is open at both ends; the player starts one cell from the left mouth and the ghosts
# far away on the right, so that random play crosses the wrap-around within a few steps
PACMAN_TUNNEL_MAZE = [
    "XXXXXXXXXXXXXXX",
    "XS     T     SX",
    "X XXXX X XXXX X",
    "XO          GOX",
    "X XXXX X XXXX X",
    " P   T   T  G  ",
    "X XXXX X XXXX X",
    "XO          GOX",
    "X XXXX X XXXX X",
    "XS     T    GSX",
    "XXXXXXXXXXXXXXX",
]


# taller than wide (like the shipped 31 x 28 maze), wrap-around tunnel in the middle row
PACMAN_TALL_MAZE = [
    "XXXXXXXXXXX",
    "XS   T   SX",
    "X XX X XX X",
    "XO  G G  OX",
    "X XX X XX X",
    "X    T    X",
    "X XX X XX X",
    "     P     ",
    "X XX X XX X",
    "X    T    X",
    "X XX X XX X",
    "XO  G G  OX",
    "X XX X XX X",
    "XS   T   SX",
    "XXXXXXXXXXX",
]


def _E():
    import jumanji.environments as E

    return E


# ------------------------------------------------------------------------------------------ menus
def _sokoban_open_generator():
    """Like the random-level generator below but WITHOUT the ring of border walls: boxes, targets and the agent may
    touch the edge of the 10x10 grid (the environment has explicit in-grid checks for exactly this case)."""
    import chex
    import jax
    import jax.numpy as jnp

    from jumanji.environments.routing.sokoban.generator import Generator

    class OpenLevels(Generator):
        def __call__(self, rng_key: chex.PRNGKey):
            from jumanji.environments.routing.sokoban.types import State

            k1, k2, key = jax.random.split(rng_key, 3)
            order = jax.random.permutation(k1, 100)
            rank = jnp.zeros(100, jnp.int32).at[order].set(jnp.arange(100))
            nwalls = jax.random.randint(k2, (), 0, 10)
            fixed = jnp.zeros(100, jnp.uint8)
            fixed = jnp.where((rank >= 9) & (rank < 9 + nwalls), 1, fixed)
            fixed = jnp.where(rank < 4, 2, fixed).astype(jnp.uint8)
            variable = jnp.zeros(100, jnp.uint8)
            variable = jnp.where((rank >= 4) & (rank < 8), 4, variable)
            variable = jnp.where(rank == 8, 3, variable).astype(jnp.uint8)
            agent = order[8]
            return State(key=key, fixed_grid=fixed.reshape(10, 10), variable_grid=variable.reshape(10, 10),
                         agent_location=jnp.array([agent // 10, agent % 10], jnp.int32),
                         step_count=jnp.array(0, jnp.int32))

        def get_solutions(self, *a, **k):  # pragma: no cover - not used
            raise NotImplementedError

    return OpenLevels()


def _sokoban_random_generator():
    """Harness-side subclass of the public abstract Generator: random 10x10 levels with border
    walls, a few interior walls, 4 targets, 4 boxes and the agent on distinct free cells."""
    import chex
    import jax
    import jax.numpy as jnp

    from jumanji.environments.routing.sokoban.generator import Generator

    class RandomLevels(Generator):
        def __call__(self, rng_key: chex.PRNGKey):
            from jumanji.environments.routing.sokoban.types import State

            k1, k2, key = jax.random.split(rng_key, 3)
            inner = jnp.zeros((10, 10), bool).at[1:9, 1:9].set(True).reshape(-1)
            perm = jax.random.permutation(k1, 100)
            order = perm[jnp.argsort(~inner[perm], stable=True)]  # interior cells first, shuffled
            nwalls = jax.random.randint(k2, (), 0, 12)
            fixed = jnp.where(inner, 0, 1).astype(jnp.uint8)  # 0 empty, 1 wall
            idx = jnp.arange(100)
            rank = jnp.zeros(100, jnp.int32).at[order].set(idx)
            fixed = jnp.where(inner & (rank >= 9) & (rank < 9 + nwalls), 1, fixed)
            fixed = jnp.where(rank < 4, 2, fixed).astype(jnp.uint8)  # 4 targets
            variable = jnp.zeros(100, jnp.uint8)
            variable = jnp.where((rank >= 4) & (rank < 8), 4, variable)  # 4 boxes
            variable = jnp.where(rank == 8, 3, variable).astype(jnp.uint8)  # agent
            agent = order[8]
            return State(
                key=key, fixed_grid=fixed.reshape(10, 10), variable_grid=variable.reshape(10, 10),
                agent_location=jnp.array([agent // 10, agent % 10], jnp.int32),
                step_count=jnp.array(0, jnp.int32),
            )

        def get_solutions(self, *a, **k):  # pragma: no cover - not used
            raise NotImplementedError

    return RandomLevels()


_CSV_DIR = None


def _binpack_tiny_csv_path():
    """A catalogue of three small boxes that never fill the container: every episode packs *all* items while the
    utilisation stays far below one."""
    global _CSV_DIR
    if _CSV_DIR is None:
        _CSV_DIR = tempfile.mkdtemp(prefix="vf-csv-", dir="/dev/shm" if os.path.isdir("/dev/shm") else None)
    p = os.path.join(_CSV_DIR, "tiny.csv")
    if not os.path.exists(p):
        with open(p, "w") as f:
            f.write("Item_Name,Length,Width,Height,Quantity\nshape_1,1000,800,500,2\nshape_2,600,600,600,1\n")
    return p


def _binpack_csv_path():
    """CSV instance written at run time into a scratch dir (format from CSVGenerator docstring)."""
    global _CSV_DIR
    if _CSV_DIR is None:
        _CSV_DIR = tempfile.mkdtemp(prefix="vf-csv-", dir="/dev/shm" if os.path.isdir("/dev/shm") else None)
    p = os.path.join(_CSV_DIR, "instance.csv")
    if not os.path.exists(p):
        rows = ["Item_Name,Length,Width,Height,Quantity",
                "shape_1,1080,760,300,5", "shape_2,1100,430,250,3", "shape_3,900,600,500,4",
                "shape_4,500,500,500,2"]
        with open(p, "w") as f:
            f.write("\n".join(rows) + "\n")
    return p


_DEEP_LEGAL = {
    ("Game2048", "b4"): (60, 700), ("Game2048", "b3"): (20, 200), ("Tetris", "r10c10t400"): (40, 395),
    ("Tetris", "r6c5t400"): (20, 395), ("RobotWarehouse", "s1x3h3a2r1q2t500"): (50, 495),
    ("Sokoban", "randomt120"): (20, 115), ("SlidingTilePuzzle", "g4m200t500d"): (50, 495),
    ("RubiksCube", "n3s100t200"): (30, 195), ("LevelBasedForaging", "g8a3f3v3l3nGRp5t100"): (20, 96),
    ("Maze", "r13c13tNone"): (30, 160), ("Cleaner", "r13c13a3tNone"): (20, 160), ("PacMan", "small200"): (40, 195),
    ("Minesweeper", "r12c12m20"): (10, 120), ("Connector", "g12a48t50rw"): (10, 45), ("MMST", "n12e18a3k2t30"): (5, 28),
}


def _menus():
    """env -> {entry_id: (factory(**overrides) -> env, meta)}.  Built lazily (imports jumanji)."""
    E = _E()
    m = {n: {} for n in ENV_NAMES}

    def add(env, eid, factory, **meta):
        m[env][eid] = (factory, meta)

    # ---- logic
    for b in (2, 3, 4, 5):
        add("Game2048", f"b{b}", lambda b=b, **k: E.Game2048(board_size=b), board=b)
    from jumanji.environments.logic.graph_coloring.generator import RandomGenerator as GCGen
    for n, p in ((3, 0.8), (5, 0.3), (8, 0.8), (20, 0.8), (20, 0.3), (6, 0.8), (40, 0.3), (130, 0.1)):
        add("GraphColoring", f"n{n}p{int(p*10)}",
            lambda n=n, p=p, **k: E.GraphColoring(generator=GCGen(num_nodes=n, edge_probability=p)))
    from jumanji.environments.logic.minesweeper.generator import UniformSamplingGenerator as MSGen
    from jumanji.environments.logic.minesweeper.reward import DefaultRewardFn as MSRew
    for r, c, k_ in ((2, 2, 1), (3, 5, 3), (5, 3, 0), (4, 4, 15), (10, 10, 10), (6, 7, 8), (12, 12, 20)):
        add("Minesweeper", f"r{r}c{c}m{k_}",
            lambda r=r, c=c, k_=k_, **k: E.Minesweeper(
                generator=MSGen(num_rows=r, num_cols=c, num_mines=k_),
                reward_function=MSRew(revealed_empty_square_reward=1.0, revealed_mine_reward=-2.0,
                                      invalid_action_reward=-3.0)),
            rows=r, cols=c, mines=k_, rewards=(1.0, -2.0, -3.0))
    add("Minesweeper", "default", lambda **k: E.Minesweeper(), rows=10, cols=10, mines=10,
        rewards=(1.0, 0.0, 0.0))
    from jumanji.environments.logic.rubiks_cube.generator import ScramblingGenerator
    for n, s, t in ((3, 100, 200), (2, 1, 3), (3, 7, 7), (4, 0, 2), (5, 100, 1), (2, 7, 200), (3, 1, 3)):
        add("RubiksCube", f"n{n}s{s}t{t}",
            lambda n=n, s=s, t=t, time_limit=None, **k: E.RubiksCube(
                generator=ScramblingGenerator(cube_size=n, num_scrambles_on_reset=s),
                time_limit=t if time_limit is None else time_limit),
            cube=n, scrambles=s, time_limit=t)
    from jumanji.environments.logic.sliding_tile_puzzle.generator import RandomWalkGenerator as STGen
    from jumanji.environments.logic.sliding_tile_puzzle.reward import DenseRewardFn as STDense
    from jumanji.environments.logic.sliding_tile_puzzle.reward import SparseRewardFn as STSparse
    for g, mv, t, rw in ((3, 50, 7, "dense"), (2, 1, 3, "sparse"), (4, 200, 500, "dense"),
                         (5, 100, 500, "dense"), (3, 0, 2, "dense"), (3, 200, 50, "sparse"),
                         (2, 50, 1, "dense"), (12, 300, 60, "dense")):
        add("SlidingTilePuzzle", f"g{g}m{mv}t{t}{rw[0]}",
            lambda g=g, mv=mv, t=t, rw=rw, time_limit=None, **k: E.SlidingTilePuzzle(
                generator=STGen(grid_size=g, num_random_moves=mv),
                reward_fn=STDense() if rw == "dense" else STSparse(),
                time_limit=t if time_limit is None else time_limit),
            grid=g, moves=mv, time_limit=t, reward=rw)
    from jumanji.environments.logic.sudoku.generator import DatabaseGenerator, DummyGenerator

    def _sudoku_db(name):
        from jumanji.environments.logic.sudoku import data as sd

        path = os.path.join(os.path.dirname(sd.__file__), sd.DATABASES[name])
        return np.load(path)

    def _sudoku_near_db():
        """64 nearly solved puzzles (2-4 empty cells) for the shipped DatabaseGenerator: solved grids obtained from the
        standard pattern by digit relabelling and row swaps inside a band, so that *solved* endings are reached in a
        few steps."""
        base = np.array([[(3 * (r % 3) + r // 3 + c) % 9 + 1 for c in range(9)] for r in range(9)], np.int32)
        out = []
        for i in range(64):
            g = base.copy()
            perm = np.roll(np.arange(1, 10), i % 9)
            g = perm[g - 1]
            if i % 2:
                g[[0, 1]] = g[[1, 0]]
            if i % 3 == 0:
                g[[3, 5]] = g[[5, 3]]
            for j in range(2 + i % 3):
                g[(i * 7 + j * 4) % 9, (i * 5 + j * 3) % 9] = 0
            out.append(g)
        return np.stack(out, 0)

    add("Sudoku", "near", lambda **k: E.Sudoku(generator=DatabaseGenerator(_sudoku_near_db())))
    add("Sudoku", "dummy", lambda **k: E.Sudoku(generator=DummyGenerator()))
    add("Sudoku", "veryeasy", lambda **k: E.Sudoku(generator=DatabaseGenerator(_sudoku_db("very-easy"))))
    add("Sudoku", "mixed", lambda **k: E.Sudoku())
    # the DatabaseGenerator docstring only asks for an (N, 9, 9) array with 0 = empty, 1..9 = clues: also as uint8
    add("Sudoku", "veryeasy_u8", lambda **k: E.Sudoku(generator=DatabaseGenerator(_sudoku_db("very-easy").astype(np.uint8))))

    # ---- packing
    from jumanji.environments.packing.bin_pack import generator as bpg
    from jumanji.environments.packing.bin_pack.reward import DenseReward as BPDense
    from jumanji.environments.packing.bin_pack.reward import SparseReward as BPSparse

    def bp(gen, obs=None, norm=True, rw="dense", debug=False):
        def f(**k):
            g = gen()
            return E.BinPack(generator=g, obs_num_ems=obs if obs is not None else g.max_num_ems,
                             reward_fn=BPDense() if rw == "dense" else BPSparse(),
                             normalize_dimensions=norm, debug=debug)
        return f

    add("BinPack", "toy", bp(lambda: bpg.ToyGenerator(), obs=None), gen="toy")
    add("BinPack", "r10e20s2", bp(lambda: bpg.RandomGenerator(10, 20, split_num_same_items=2,
                                                               container_dims=(10, 7, 5)), obs=20, norm=False),
        gen="random", items=10, ems=20)
    add("BinPack", "r5e10s1o6", bp(lambda: bpg.RandomGenerator(5, 10, split_num_same_items=1,
                                                                container_dims=(10, 7, 5)), obs=6, rw="sparse"),
        gen="random", items=5, ems=10)
    add("BinPack", "r20e40", bp(lambda: bpg.RandomGenerator(20, 40), obs=40, debug=True),
        gen="random", items=20, ems=40)
    add("BinPack", "r20e60o25", bp(lambda: bpg.RandomGenerator(20, 60, split_num_same_items=5),
                                   obs=25, norm=False, rw="sparse"), gen="random", items=20, ems=60)
    add("BinPack", "csv", bp(lambda: bpg.CSVGenerator(_binpack_csv_path(), max_num_ems=30), obs=30),
        gen="csv")
    # scale: a footprint of 2.4e9 mm^2 (beyond int32) with fewer observed than stored EMSs
    add("BinPack", "r10e30o8huge", bp(lambda: bpg.RandomGenerator(10, 30, split_num_same_items=2,
                                                                   container_dims=(60000, 40000, 5000)), obs=8),
        gen="random", items=10, ems=30)
    # obs_num_ems left at its default (40) with a generator that keeps fewer EMSs (10)
    add("BinPack", "r5e10dflt", lambda **k: E.BinPack(generator=bpg.RandomGenerator(5, 10, split_num_same_items=1,
                                                                                   container_dims=(10, 7, 5))),
        gen="random", items=5, ems=10)
    add("BinPack", "csvtiny", bp(lambda: bpg.CSVGenerator(_binpack_tiny_csv_path(), max_num_ems=20), obs=20), gen="csv")
    add("BinPack", "csvtiny_sparse", bp(lambda: bpg.CSVGenerator(_binpack_tiny_csv_path(), max_num_ems=20), obs=20,
                                        rw="sparse"), gen="csv")
    # exact dense/sparse twins (C08)
    add("BinPack", "r10e20s2_sparse", bp(lambda: bpg.RandomGenerator(10, 20, split_num_same_items=2,
                                                                      container_dims=(10, 7, 5)), obs=20, norm=False,
                                         rw="sparse"), gen="random", items=10, ems=20)
    add("BinPack", "r5e10s1o6_dense", bp(lambda: bpg.RandomGenerator(5, 10, split_num_same_items=1,
                                                                      container_dims=(10, 7, 5)), obs=6, rw="dense"),
        gen="random", items=5, ems=10)
    add("BinPack", "toy_sparse", bp(lambda: bpg.ToyGenerator(), obs=None, rw="sparse"), gen="toy")
    from jumanji.environments.packing.flat_pack import generator as fpg
    from jumanji.environments.packing.flat_pack.reward import BlockDenseReward, CellDenseReward
    for r, c, rw in ((2, 2, "cell"), (2, 3, "block"), (3, 2, "cell"), (3, 3, "block"), (5, 5, "cell")):
        add("FlatPack", f"r{r}c{c}{rw[0]}",
            lambda r=r, c=c, rw=rw, **k: E.FlatPack(
                generator=fpg.RandomFlatPackGenerator(num_row_blocks=r, num_col_blocks=c),
                reward_fn=CellDenseReward() if rw == "cell" else BlockDenseReward()),
            rows=r, cols=c, reward=rw)
    add("FlatPack", "toyrot", lambda **k: E.FlatPack(generator=fpg.ToyFlatPackGeneratorWithRotation()),
        reward="cell")
    add("FlatPack", "toynorot", lambda **k: E.FlatPack(generator=fpg.ToyFlatPackGeneratorNoRotation(),
                                                       reward_fn=BlockDenseReward()), reward="block")
    from jumanji.environments.packing.job_shop import generator as jsg
    add("JobShop", "toy", lambda **k: E.JobShop(generator=jsg.ToyGenerator()))
    for j, mch, o, d in ((3, 2, 3, 2), (5, 4, 4, 4), (20, 10, 8, 6), (4, 3, 2, 5), (40, 4, 3, 4), (130, 3, 2, 3)):
        add("JobShop", f"j{j}m{mch}o{o}d{d}",
            lambda j=j, mch=mch, o=o, d=d, **k: E.JobShop(generator=jsg.RandomGenerator(j, mch, o, d)),
            jobs=j, machines=mch, ops=o, dur=d)
    from jumanji.environments.packing.knapsack.generator import RandomGenerator as KGen
    from jumanji.environments.packing.knapsack.reward import DenseReward as KDense
    from jumanji.environments.packing.knapsack.reward import SparseReward as KSparse
    for n, b, rw in ((5, 4.0, "dense"), (5, 4.0, "sparse")):     # roomy bag: every item fits, budget to spare at the end
        add("Knapsack", f"n{n}b{int(b)}{rw[0]}",
            lambda n=n, b=b, rw=rw, **k: E.Knapsack(
                generator=KGen(num_items=n, total_budget=b),
                reward_fn=KDense() if rw == "dense" else KSparse()), items=n, budget=b, reward=rw)
    for n, b, rw in ((3, 0.5, "dense"), (10, 2.0, "sparse"), (50, 12.5, "dense"), (10, 2.0, "dense"),
                     (50, 12.5, "sparse"), (130, 20.0, "dense")):
        add("Knapsack", f"n{n}{rw[0]}",
            lambda n=n, b=b, rw=rw, **k: E.Knapsack(
                generator=KGen(num_items=n, total_budget=b),
                reward_fn=KDense() if rw == "dense" else KSparse()), items=n, budget=b, reward=rw)
    def _knapsack_quantised(n, budget, denom=8):
        """Harness-side subclass of the public abstract Generator: weights are multiples of 1/8 (exactly
        representable), so items that fill the remaining budget *exactly* occur all the time - a boundary the
        uniform RandomGenerator never produces.  With denom=10 the weights are decimal fractions, which are *not*
        representable: an item whose weight equals what is left up to rounding is then the common case, so anything
        that depends on how the remaining budget was accumulated shows."""
        import jax
        import jax.numpy as jnp

        from jumanji.environments.packing.knapsack.generator import Generator
        from jumanji.environments.packing.knapsack.types import State

        class Quantised(Generator):
            def __call__(self, key):
                key, k1, k2 = jax.random.split(key, 3)
                weights = jax.random.randint(k1, (self.num_items,), 1, denom + 1).astype(jnp.float32) / denom
                values = jax.random.randint(k2, (self.num_items,), 1, denom + 1).astype(jnp.float32) / denom
                return State(weights=weights, values=values, packed_items=jnp.zeros(self.num_items, dtype=bool),
                             remaining_budget=jnp.array(self.total_budget, float), key=key)

        return Quantised(n, budget)

    for n, b, rw in ((8, 2.0, "dense"), (8, 2.0, "sparse")):
        add("Knapsack", f"q{n}{rw[0]}",
            lambda n=n, b=b, rw=rw, **k: E.Knapsack(generator=_knapsack_quantised(n, b),
                                                    reward_fn=KDense() if rw == "dense" else KSparse()),
            items=n, budget=b, reward=rw, gen="quantised")
    for n, b, rw in ((12, 2.0, "dense"), (12, 2.0, "sparse")):
        add("Knapsack", f"t{n}{rw[0]}",
            lambda n=n, b=b, rw=rw, **k: E.Knapsack(generator=_knapsack_quantised(n, b, 10),
                                                    reward_fn=KDense() if rw == "dense" else KSparse()),
            items=n, budget=b, reward=rw, gen="decimal")
    for r, c, t in ((10, 10, 400), (4, 4, 3), (6, 5, 7), (5, 12, 2), (10, 10, 1), (6, 5, 400)):
        add("Tetris", f"r{r}c{c}t{t}",
            lambda r=r, c=c, t=t, time_limit=None, **k: E.Tetris(
                num_rows=r, num_cols=c, time_limit=t if time_limit is None else time_limit),
            rows=r, cols=c, time_limit=t)

    # ---- routing
    from jumanji.environments.routing.cleaner.generator import RandomGenerator as CLGen
    for r, c, a, t in ((5, 5, 1, None), (3, 7, 1, 7), (5, 11, 2, 3), (11, 5, 3, 2), (10, 10, 3, None),
                       (7, 3, 2, 1), (10, 10, 3, 20), (3, 3, 2, None), (5, 11, 2, None), (13, 13, 3, None)):
        add("Cleaner", f"r{r}c{c}a{a}t{t}",
            lambda r=r, c=c, a=a, t=t, time_limit="dflt", **k: E.Cleaner(
                generator=CLGen(num_rows=r, num_cols=c, num_agents=a),
                time_limit=t if time_limit == "dflt" else time_limit),
            rows=r, cols=c, agents=a, time_limit=t if t is not None else r * c)
    # the step penalty is a constructor argument of its own (boundary value 0 included)
    for r, c, a, t, pen in ((4, 6, 2, 12, 0.0), (6, 4, 1, None, 0.25)):
        add("Cleaner", f"r{r}c{c}a{a}t{t}p{int(pen*100)}",
            lambda r=r, c=c, a=a, t=t, pen=pen, time_limit="dflt", **k: E.Cleaner(
                generator=CLGen(num_rows=r, num_cols=c, num_agents=a),
                time_limit=t if time_limit == "dflt" else time_limit, penalty_per_timestep=pen),
            rows=r, cols=c, agents=a, time_limit=t if t is not None else r * c, penalty=pen)
    from jumanji.environments.routing.connector import generator as cng
    for g, a, t, gen in ((5, 2, 7, "rw"), (4, 1, 3, "uni"), (6, 3, 50, "rw"), (10, 10, 50, "rw"),
                         (6, 3, 2, "uni"), (5, 2, 1, "uni"), (10, 10, 50, "uni"), (8, 4, 50, "rw"),
                         (12, 48, 50, "rw"), (12, 60, 30, "uni"), (6, 5, 30, "uni")):
        add("Connector", f"g{g}a{a}t{t}{gen}",
            lambda g=g, a=a, t=t, gen=gen, time_limit=None, **k: E.Connector(
                generator=(cng.RandomWalkGenerator if gen == "rw" else cng.UniformRandomGenerator)(
                    grid_size=g, num_agents=a),
                time_limit=t if time_limit is None else time_limit),
            grid=g, agents=a, time_limit=t, gen=gen)
    from jumanji.environments.routing.connector.reward import DenseRewardFn as CNDense
    for g, a, t, cr, tr in ((5, 2, 12, 2.0, 0.0), (6, 3, 20, 0.0, -0.5)):
        add("Connector", f"g{g}a{a}t{t}rwc{int(cr*10)}s{int(-tr*100)}",
            lambda g=g, a=a, t=t, cr=cr, tr=tr, time_limit=None, **k: E.Connector(
                generator=cng.RandomWalkGenerator(grid_size=g, num_agents=a),
                reward_fn=CNDense(connected_reward=cr, timestep_reward=tr),
                time_limit=t if time_limit is None else time_limit),
            grid=g, agents=a, time_limit=t, gen="rw", connected_reward=cr, timestep_reward=tr)
    from jumanji.environments.routing.cvrp.generator import UniformGenerator as CVGen
    from jumanji.environments.routing.cvrp.reward import DenseReward as CVDense
    from jumanji.environments.routing.cvrp.reward import SparseReward as CVSparse
    for n, cap, dm, rw in ((3, 5, 5, "dense"), (5, 10, 4, "sparse"), (20, 30, 10, "dense"),
                           (5, 10, 4, "dense"), (20, 30, 10, "sparse"), (130, 40, 10, "dense")):
        add("CVRP", f"n{n}{rw[0]}",
            lambda n=n, cap=cap, dm=dm, rw=rw, **k: E.CVRP(
                generator=CVGen(num_nodes=n, max_capacity=cap, max_demand=dm),
                reward_fn=CVDense() if rw == "dense" else CVSparse()),
            nodes=n, capacity=cap, max_demand=dm, reward=rw)

    def _cvrp_boundary(n, cap):
        """Harness-side subclass of the public abstract Generator: integer demands over the whole range
        0..max_demand = max_capacity (customers that need nothing, customers that need a full vehicle - the
        UniformGenerator never emits either) and coordinates on a coarse lattice (coincident nodes, zero-length
        legs)."""
        import jax
        import jax.numpy as jnp

        from jumanji.environments.routing.cvrp.generator import Generator
        from jumanji.environments.routing.cvrp.types import State

        class Boundary(Generator):
            def __call__(self, key):
                key, k1, k2 = jax.random.split(key, 3)
                coordinates = jax.random.randint(k1, (self.num_nodes + 1, 2), 0, 4).astype(jnp.float32) / 4.0
                demands = jax.random.randint(k2, (self.num_nodes + 1,), 0, self.max_demand + 1).at[0].set(0)
                return State(coordinates=coordinates, demands=demands, position=jnp.array(0, jnp.int32),
                             capacity=jnp.array(self.max_capacity, jnp.int32),
                             visited_mask=jnp.zeros(self.num_nodes + 1, dtype=bool).at[0].set(True),
                             trajectory=jnp.full(2 * self.num_nodes, 0, jnp.int32),
                             num_total_visits=jnp.array(1, jnp.int32), key=key)

        return Boundary(n, cap, cap)

    for n, cap, rw in ((6, 5, "dense"), (6, 5, "sparse")):
        add("CVRP", f"zb{n}{rw[0]}",
            lambda n=n, cap=cap, rw=rw, **k: E.CVRP(generator=_cvrp_boundary(n, cap),
                                                    reward_fn=CVDense() if rw == "dense" else CVSparse()),
            nodes=n, capacity=cap, max_demand=cap, reward=rw, gen="boundary", harness_gen=True)
    from jumanji.environments.routing.lbf.generator import RandomGenerator as LBGen
    for g, a, f, fov, lvl, coop, grid_obs, norm, pen, t in (
            (5, 1, 1, 5, 2, False, False, True, 0.0, 7),
            (6, 2, 2, 2, 2, True, False, True, 0.0, 100),
            (8, 2, 2, 8, 2, True, False, True, 0.0, 100),
            (8, 3, 3, 3, 3, False, True, False, 0.5, 100),
            (6, 2, 2, 2, 2, True, True, True, 0.0, 3),
            (8, 3, 3, 3, 3, False, False, True, 0.5, 2),
            (7, 2, 3, 1, 2, False, False, False, 0.0, 1),
            (7, 3, 2, 2, 2, False, False, True, 0.0, 30),
            (5, 3, 1, 5, 2, False, False, True, 0.0, 40),      # crowded: 3 agents on the minimum grid
            (7, 2, 3, 7, 2, False, True, False, 0.0, 40),
            # mid-range fields of view: the window is wider than half the grid but does not cover it
            (8, 3, 3, 5, 2, False, False, True, 0.0, 40),
            (7, 2, 2, 4, 2, False, True, True, 0.0, 40),
            (9, 3, 4, 4, 3, False, False, False, 0.0, 30),
            (6, 4, 1, 6, 2, False, False, True, 0.0, 40),      # four agents, one food: all four sides can load at once
            (7, 5, 2, 7, 2, True, False, True, 0.0, 40)):
        add("LevelBasedForaging",
            f"g{g}a{a}f{f}v{fov}l{lvl}{'c' if coop else 'n'}{'G' if grid_obs else 'V'}{'N' if norm else 'R'}p{int(pen*10)}t{t}",
            lambda g=g, a=a, f=f, fov=fov, lvl=lvl, coop=coop, grid_obs=grid_obs, norm=norm, pen=pen, t=t,
            time_limit=None, **k: E.LevelBasedForaging(
                generator=LBGen(grid_size=g, num_agents=a, num_food=f, fov=fov, max_agent_level=lvl,
                                force_coop=coop),
                time_limit=t if time_limit is None else time_limit, grid_observation=grid_obs,
                normalize_reward=norm, penalty=pen),
            grid=g, agents=a, food=f, fov=fov, max_level=lvl, coop=coop, grid_obs=grid_obs,
            normalize=norm, penalty=pen, time_limit=t)
    from jumanji.environments.routing.maze import generator as mzg
    for r, c, t in ((5, 5, 7), (4, 7, None), (5, 8, 3), (8, 5, 2), (10, 10, None), (3, 3, 1), (10, 10, 30),
                    (13, 13, None)):
        add("Maze", f"r{r}c{c}t{t}",
            lambda r=r, c=c, t=t, time_limit="dflt", **k: E.Maze(
                generator=mzg.RandomGenerator(num_rows=r, num_cols=c),
                time_limit=t if time_limit == "dflt" else time_limit),
            rows=r, cols=c, time_limit=t if t is not None else r * c)
    add("Maze", "toy", lambda time_limit="dflt", **k: E.Maze(
        generator=mzg.ToyGenerator(), time_limit=None if time_limit == "dflt" else time_limit),
        time_limit=None)
    from jumanji.environments.routing.mmst.generator import SplitRandomGenerator
    for n, e, dg, a, npa, t in ((12, 18, 5, 2, 3, 7), (36, 72, 5, 3, 4, 70), (12, 18, 5, 2, 3, 2),
                                (12, 18, 5, 3, 2, 30), (12, 18, 5, 2, 3, 1)):
        add("MMST", f"n{n}e{e}a{a}k{npa}t{t}",
            lambda n=n, e=e, dg=dg, a=a, npa=npa, t=t, time_limit=None, max_step=None, **k: E.MMST(
                generator=SplitRandomGenerator(
                    num_nodes=n, num_edges=e, max_degree=dg, num_agents=a, num_nodes_per_agent=npa,
                    # max_step override (C11 only): the generator's route buffer decoupled from the time limit
                    max_step=max_step if max_step is not None else (t if time_limit is None else time_limit)),
                time_limit=t if time_limit is None else time_limit),
            nodes=n, edges=e, agents=a, per_agent=npa, time_limit=t)
    from jumanji.environments.routing.multi_cvrp.generator import UniformRandomGenerator as MCGen
    from jumanji.environments.routing.multi_cvrp.reward import DenseReward as MCDense
    from jumanji.environments.routing.multi_cvrp.reward import SparseReward as MCSparse
    for c, v, rw in ((6, 2, "dense"), (6, 3, "sparse"), (20, 2, "dense"), (20, 3, "sparse"), (6, 2, "sparse")):
        def mc(c=c, v=v, rw=rw, **k):
            g = MCGen(num_customers=c, num_vehicles=v)
            cls = MCDense if rw == "dense" else MCSparse
            return E.MultiCVRP(generator=g, reward_fn=cls(v, c, g._map_max))
        add("MultiCVRP", f"c{c}v{v}{rw[0]}", mc, customers=c, vehicles=v, reward=rw)
    for t in (None, 7, 3, 1, 40):
        add("PacMan", f"t{t}", lambda t=t, time_limit="dflt", **k: E.PacMan(
            time_limit=t if time_limit == "dflt" else time_limit), time_limit=t if t is not None else 1000)
    from jumanji.environments.routing.pac_man.generator import AsciiGenerator
    for t in (30, 200):
        add("PacMan", f"small{t}", lambda t=t, time_limit="dflt", **k: E.PacMan(
            generator=AsciiGenerator(PACMAN_SMALL_MAZE), time_limit=t if time_limit == "dflt" else time_limit),
            time_limit=t, maze="small")
    for t in (60, 120):
        add("PacMan", f"tunnel{t}", lambda t=t, time_limit="dflt", **k: E.PacMan(
            generator=AsciiGenerator(PACMAN_TUNNEL_MAZE), time_limit=t if time_limit == "dflt" else time_limit),
            time_limit=t, maze="tunnel")
    for t in (90,):
        add("PacMan", f"tall{t}", lambda t=t, time_limit="dflt", **k: E.PacMan(
            generator=AsciiGenerator(PACMAN_TALL_MAZE), time_limit=t if time_limit == "dflt" else time_limit),
            time_limit=t, maze="tall")
    from jumanji.environments.routing.robot_warehouse.generator import RandomGenerator as RWGen
    for sr, sc, ch, a, sens, q, t in ((1, 3, 2, 1, 1, 1, 7), (1, 3, 3, 2, 1, 2, 500), (1, 3, 3, 3, 2, 2, 3),
                                      (2, 3, 8, 4, 1, 8, 500), (1, 3, 3, 2, 1, 2, 2), (2, 3, 2, 2, 2, 2, 1),
                                      (1, 3, 3, 2, 1, 2, 40), (2, 3, 1, 2, 1, 2, 20),
                                      (1, 3, 2, 4, 1, 2, 60)):     # crowded: four robots in the smallest warehouse
        add("RobotWarehouse", f"s{sr}x{sc}h{ch}a{a}r{sens}q{q}t{t}",
            lambda sr=sr, sc=sc, ch=ch, a=a, sens=sens, q=q, t=t, time_limit=None, **k: E.RobotWarehouse(
                generator=RWGen(shelf_rows=sr, shelf_columns=sc, column_height=ch, num_agents=a,
                                sensor_range=sens, request_queue_size=q),
                time_limit=t if time_limit is None else time_limit),
            shelf_rows=sr, shelf_cols=sc, col_height=ch, agents=a, sensor=sens, queue=q, time_limit=t)
    for r, c, t in ((6, 4, 7), (3, 3, 4000), (4, 6, 3), (12, 12, 4000), (3, 3, 2), (5, 5, 1), (6, 6, 30),
                    (2, 2, 4000), (2, 3, 40), (4, 4, 4000)):      # tiny boards: games are won (board filled) all the time
        add("Snake", f"r{r}c{c}t{t}",
            lambda r=r, c=c, t=t, time_limit=None, **k: E.Snake(
                num_rows=r, num_cols=c, time_limit=t if time_limit is None else time_limit),
            rows=r, cols=c, time_limit=t)
    # deep starts: every third case begins after a scripted Hamiltonian-cycle prefix (snakes of 100+ cells on the
    # default board, nearly full small boards) - states that random or greedy play never reaches
    for r, c, t, lo, hi in ((12, 12, 20000, 4000, 7500), (6, 6, 4000, 100, 800), (4, 5, 4000, 20, 160)):
        add("Snake", f"r{r}c{c}t{t}deep",
            lambda r=r, c=c, t=t, time_limit=None, **k: E.Snake(
                num_rows=r, num_cols=c, time_limit=t if time_limit is None else time_limit),
            rows=r, cols=c, time_limit=t, deep={"policy": "hamilton", "steps": (lo, hi)})
    from jumanji.environments.routing.sokoban import generator as skg
    for gen, t in (("toy", 120), ("simple", 7), ("random", 3), ("random", 120), ("toy", 2), ("simple", 1),
                   ("random", 30), ("simple", 120), ("simple", 10), ("open", 60)):
        def sk(gen=gen, t=t, time_limit=None, **k):
            g = {"toy": skg.ToyGenerator, "simple": skg.SimpleSolveGenerator,
                 "random": _sokoban_random_generator, "open": _sokoban_open_generator}[gen]()
            return E.Sokoban(generator=g, time_limit=t if time_limit is None else time_limit)
        add("Sokoban", f"{gen}t{t}", sk, gen=gen, time_limit=t)
    from jumanji.environments.routing.tsp.generator import UniformGenerator as TSGen
    from jumanji.environments.routing.tsp.reward import DenseReward as TSDense
    from jumanji.environments.routing.tsp.reward import SparseReward as TSSparse
    for n, rw in ((5, "dense"), (2, "sparse"), (3, "dense"), (20, "dense"), (20, "sparse"), (5, "sparse"),
                  (130, "dense")):
        add("TSP", f"n{n}{rw[0]}", lambda n=n, rw=rw, **k: E.TSP(
            generator=TSGen(num_cities=n), reward_fn=TSDense() if rw == "dense" else TSSparse()),
            cities=n, reward=rw)

    def _tsp_lattice(n):
        """Harness-side subclass of the public abstract Generator: cities on a 4 x 4 lattice of the unit square
        (coincident cities, zero-length and equal-length legs - boundary values the UniformGenerator never emits)."""
        import jax
        import jax.numpy as jnp

        from jumanji.environments.routing.tsp.generator import Generator
        from jumanji.environments.routing.tsp.types import State

        class Lattice(Generator):
            def __call__(self, key):
                key, k1 = jax.random.split(key)
                coordinates = jax.random.randint(k1, (self.num_cities, 2), 0, 4).astype(jnp.float32) / 3.0
                return State(coordinates=coordinates, position=jnp.array(-1, jnp.int32),
                             visited_mask=jnp.zeros(self.num_cities, dtype=bool),
                             trajectory=jnp.full(self.num_cities, -1, jnp.int32),
                             num_visited=jnp.array(0, jnp.int32), key=key)

        return Lattice(n)

    for n, rw in ((6, "dense"), (6, "sparse")):
        add("TSP", f"lat{n}{rw[0]}", lambda n=n, rw=rw, **k: E.TSP(
            generator=_tsp_lattice(n), reward_fn=TSDense() if rw == "dense" else TSSparse()),
            cities=n, reward=rw, gen="lattice", harness_gen=True)
    # deep starts for long-horizon entries: every third case begins after a scripted prefix of pseudo-random
    # masked-in actions (policy legal_hash), steps drawn from the given range
    for (env, eid), rng in _DEEP_LEGAL.items():
        f, meta_ = m[env][eid]
        m[env][eid] = (f, dict(meta_, deep={"policy": "legal_hash", "steps": rng}))
    return m


@functools.lru_cache(maxsize=None)
def menus():
    return _menus()


def entries(env: str) -> list:
    return list(menus()[env].keys())


# entry ids are static strings: listing them must not require importing jumanji in the parent
QUICK = {
    "Game2048": ["b3", "b4"], "GraphColoring": ["n6p8", "n20p8", "n40p3", "n130p1"], "Minesweeper": ["r3c5m3", "default", "r2c2m1", "r12c12m20", "r4c4m15"],
    "RubiksCube": ["n2s1t3", "n3s7t7"], "SlidingTilePuzzle": ["g3m50t7d", "g2m1t3s", "g12m300t60d"],
    "Sudoku": ["veryeasy", "dummy", "veryeasy_u8", "near"], "BinPack": ["r10e20s2", "r5e10s1o6", "r10e30o8huge", "csvtiny_sparse"], "FlatPack": ["r2c3b", "r3c2c"],
    "JobShop": ["j3m2o3d2", "j5m4o4d4", "j40m4o3d4", "j130m3o2d3"], "Knapsack": ["n10s", "n50d", "q8d", "t12d", "n5b4s", "n130d"], "Tetris": ["r6c5t400", "r10c10t400", "r6c5t7"],
    "Cleaner": ["r3c7a1t7", "r5c11a2tNone", "r3c3a2tNone", "r4c6a2t12p0", "r13c13a3tNone"], "Connector": ["g5a2t7rw", "g6a3t50rw", "g5a2t12rwc20s0", "g12a48t50rw", "g6a5t30uni"],
    "CVRP": ["n5s", "n20d", "zb6d", "n130d"], "LevelBasedForaging": ["g6a2f2v2l2cVNp0t100", "g8a3f3v3l3nGRp5t100", "g7a2f3v7l2nGRp0t40", "g5a3f1v5l2nVNp0t40", "g8a3f3v5l2nVNp0t40", "g6a4f1v6l2nVNp0t40"],
    "Maze": ["r4c7tNone", "r5c5t7", "r13c13tNone"], "MMST": ["n12e18a2k3t7", "n12e18a3k2t30"], "MultiCVRP": ["c6v2d", "c6v3s"],
    "PacMan": ["t40", "small200", "tunnel120", "tall90"], "RobotWarehouse": ["s1x3h3a2r1q2t500", "s1x3h2a1r1q1t7", "s2x3h8a4r1q8t500"],
    "Snake": ["r6c4t7", "r3c3t4000", "r12c12t20000deep", "r6c6t4000deep", "r2c3t40", "r4c4t4000"], "Sokoban": ["simplet120", "randomt120", "simplet10", "opent60"], "TSP": ["n5d", "n3d", "lat6s", "n130d"],
}


def quick_entries(env: str) -> list:
    return list(QUICK[env])


def tier_entries(env: str, tier: str, flt=None) -> list:
    es = quick_entries(env) if tier == "quick" else entries(env)
    if flt and flt.get("entry"):
        es = [e for e in entries(env) if e in flt["entry"]]
    return es


def select_envs(names, flt) -> list:
    if flt and flt.get("env"):
        return [n for n in names if n in flt["env"]]
    return list(names)


def make_env(env: str, entry: str, **overrides):
    factory, _ = menus()[env][entry]
    return factory(**overrides)


def meta(env: str, entry: str) -> dict:
    return dict(menus()[env][entry][1])


def _scatter(r: int) -> int:
    """Deterministic multiplicative scatter of a drawn integer (Knuth), non-negative."""
    return ((int(r) * 2654435761) & 0xFFFFFFFF) >> 5


def make_key(words):
    import jax.numpy as jnp

    return jnp.asarray([int(words[0]) & 0xFFFFFFFF, int(words[1]) & 0xFFFFFFFF], dtype=jnp.uint32)


# ----------------------------------------------------------------------------------------- bundle
class Bundle:
    """One constructed environment + its jitted entry points + action-space knowledge."""

    def __init__(self, name: str, entry: str, env=None, **overrides):
        import jax

        self.name, self.entry = name, entry
        self.overrides = overrides
        self.env = env if env is not None else make_env(name, entry, **overrides)
        self.meta = meta(name, entry) if entry in menus()[name] else {}
        self.reset = jax.jit(self.env.reset)
        self.step = jax.jit(self.env.step)
        self._step_all = None
        spec = self.env.action_spec
        self.spec = spec
        self.act_shape = tuple(spec.shape)
        self.act_dtype = np.dtype(spec.dtype)
        self.amin = np.broadcast_to(np.asarray(spec.minimum), self.act_shape).astype(np.int64)
        self.amax = np.broadcast_to(np.asarray(spec.maximum), self.act_shape).astype(np.int64)
        self.nvec = (self.amax - self.amin + 1)
        self.layout = MASK_LAYOUT[name]

    # -- batched "every action in this state"
    @property
    def step_all(self):
        import jax

        if self._step_all is None:
            self._step_all = jax.jit(jax.vmap(self.env.step, in_axes=(None, 0)))
        return self._step_all

    def num_flat_actions(self) -> int:
        # exact Python integers: 5 ** 48 joint actions (Connector with 48 agents) overflow int64
        n = 1
        for x in np.asarray(self.nvec).reshape(-1).tolist():
            n *= int(x)
        return n

    def action_from_flat(self, idx: int):
        if self.act_shape == ():
            return np.asarray(self.amin + idx, self.act_dtype)
        comp = np.unravel_index(int(idx), tuple(int(x) for x in self.nvec))
        return (np.asarray(comp, np.int64) + self.amin).astype(self.act_dtype)

    def to_action(self, a):
        return np.asarray(a, self.act_dtype).reshape(self.act_shape)

    # -- mask access
    def mask(self, ts):
        if self.layout is None:
            return None
        return np.asarray(ts.observation.action_mask).astype(bool)

    def raw_action(self, r: int):
        """An arbitrary in-spec action decoded from the integer r."""
        if self.act_shape == ():
            return np.asarray(self.amin + r % int(self.nvec), self.act_dtype)
        out = np.zeros(self.act_shape, np.int64).reshape(-1)
        nv = self.nvec.reshape(-1)
        x = r
        for i in range(out.size):
            out[i] = x % int(nv[i])
            x = x // int(nv[i]) + (r >> (i + 1))
        return (out.reshape(self.act_shape) + self.amin).astype(self.act_dtype)

    def legal_action(self, mask, r: int):
        """r-th masked-in action (joint action for per-agent masks); None if nothing is legal."""
        if self.layout in ("flat", "nd"):
            idx = np.flatnonzero(mask.reshape(-1))
            if idx.size == 0:
                return None
            # Hypothesis favours small integers, above all in short campaigns: r is scattered multiplicatively so
            # that small r do not all select the first few legal actions (0 -> first and -1 -> last are kept)
            flat = int(idx[(r if r in (0, -1) else _scatter(r)) % idx.size])
            if self.layout == "flat":
                return np.asarray(flat, self.act_dtype)
            return np.asarray(np.unravel_index(flat, mask.shape), self.act_dtype)
        # agents
        out = np.zeros(mask.shape[0], np.int64)
        rs = r if r in (0, -1) else _scatter(r)
        for a in range(mask.shape[0]):
            idx = np.flatnonzero(mask[a])
            out[a] = idx[(rs // (3 ** a) + a * (rs % 7)) % idx.size] if idx.size else 0
        return out.astype(self.act_dtype)

    def crowd_action(self, mask, r: int):
        """Per-agent masks only: a masked-in joint action biased towards same-step conflicts - a leader picks
        one of its legal values and a subset of the other agents (chosen by the bits of r) copy that value when
        their own mask allows it, e.g. [b, a, a].  Falls back to `legal_action` for other layouts."""
        if self.layout != "agents" or mask.shape[0] < 2:
            return self.legal_action(mask, r)
        base = self.legal_action(mask, r).astype(np.int64)
        A = mask.shape[0]
        leader = r % A
        target = int(base[leader])
        bits = (r // A) % (2 ** A)
        if bits == 0:
            bits = 2 ** A - 1
        # every third conflict also lets agents *without* a legal claim copy the leader's (legal) choice: an illegal
        # claimant contesting a legal one (e.g. [n (masked out for agent 0), n (masked in for agent 1)])
        forced = (r // 97) % 3 == 0
        for a in range(A):
            if a != leader and (bits >> a) & 1 and (mask[a, target] or (forced and 0 <= target < mask.shape[1])):
                base[a] = target
        return base.astype(self.act_dtype)

    def illegal_action(self, mask, r: int):
        """An in-spec action that the mask forbids (for per-agent masks: agent r%A plays a
        masked-out action, the others play masked-in ones); None if none exists."""
        if self.layout in ("flat", "nd"):
            idx = np.flatnonzero(~mask.reshape(-1))
            if idx.size == 0:
                return None
            flat = int(idx[r % idx.size])
            if self.layout == "flat":
                return np.asarray(flat, self.act_dtype)
            return np.asarray(np.unravel_index(flat, mask.shape), self.act_dtype)
        base = self.legal_action(mask, r).astype(np.int64)
        order = [(r + i) % mask.shape[0] for i in range(mask.shape[0])]
        for a in order:
            idx = np.flatnonzero(~mask[a])
            if idx.size:
                base[a] = idx[(r // 5) % idx.size]
                return base.astype(self.act_dtype)
        return None

    def pick_action(self, state, ts, mode: str, r: int, mask=None):
        """Interpret one (mode, r) element of an episode plan against the current state."""
        if mask is None:
            mask = self.mask(ts)
        a = None
        if mask is not None and mode == "crowd":
            a = self.crowd_action(mask, r)
        elif mask is not None and mode in ("legal", "survive", "solve"):
            a = self.legal_action(mask, r)
            if mode == "survive" and a is not None:
                for i in range(6):
                    cand = self.legal_action(mask, r + i)
                    _, t2 = self.step(state, cand)
                    if int(t2.step_type) != 2:
                        a = cand
                        break
        elif mask is not None and mode == "illegal":
            a = self.illegal_action(mask, r)
        if a is None:
            if mode == "survive":
                for i in range(6):
                    cand = self.raw_action(r + i * 7919)
                    _, t2 = self.step(state, cand)
                    if int(t2.step_type) != 2:
                        return cand
            a = self.raw_action(r)
        return a


def _snake_hamilton(env, state, ts=None, i=0, salt=0):
    """Next move along a fixed Hamiltonian cycle of the board (num_rows even): row 0 left to right, the other rows
    zig-zag over columns 1.., the last row runs back to column 0 and column 0 leads up.  A snake that follows it
    never hits a wall or itself.  Actions: 0 up, 1 right, 2 down, 3 left."""
    import jax.numpy as jnp

    r, c = state.head_position.row, state.head_position.col
    R, C = env.num_rows, env.num_cols
    col0 = jnp.where(r == 0, 1, 0)
    even = jnp.where(c < C - 1, 1, 2)
    odd = jnp.where(r == R - 1, 3, jnp.where(c > 1, 3, 2))
    return jnp.where(c == 0, col0, jnp.where(r % 2 == 0, even, odd)).astype(jnp.int32)


def _legal_hash_policy(layout, act_dtype, amin=None, amax=None):
    """Generic scripted policy: a pseudo-random masked-in action, a pure function of (mask, step index, salt) - the
    salt comes from the Hypothesis-drawn plan.  Used to fast-forward long-horizon environments (late 2048 boards,
    high Tetris stacks, long RobotWarehouse / PacMan / Sokoban episodes) before the monitors take over."""
    def pol(env, state, ts, i, salt):
        import jax
        import jax.numpy as jnp

        key = jax.random.fold_in(jax.random.PRNGKey(salt), i)
        if layout is None:   # no action mask (Sokoban): any in-spec action
            return jax.random.randint(key, amin.shape, jnp.asarray(amin), jnp.asarray(amax) + 1).astype(act_dtype)
        mask = ts.observation.action_mask.astype(bool)
        if layout == "agents":
            logits = jnp.where(mask, 0.0, -1e9)
            keys = jax.random.split(key, mask.shape[0])
            pick = jax.vmap(lambda k, l: jax.random.categorical(k, l))(keys, logits)
            return pick.astype(act_dtype)
        flat = mask.reshape(-1)
        idx = jax.random.categorical(key, jnp.where(flat, 0.0, -1e9))
        if layout == "flat":
            return idx.astype(act_dtype)
        return jnp.stack(jnp.unravel_index(idx, mask.shape)).astype(act_dtype)

    return pol


def _g2048_snake(env, state, ts, i=0, salt=0):
    """One-ply greedy 2048 player: the masked-in move whose resulting board scores best under boustrophedon
    ("snake") position weights plus a bonus per empty cell.  On the 5x5 board about one episode in eight builds the
    2048 tile within 1400 moves - late boards that random play never sees."""
    import jax
    import jax.numpy as jnp

    def row_left(row):
        r = row[jnp.argsort(row == 0, stable=True)]
        res, k, prev, gain = jnp.zeros_like(row), 0, jnp.zeros((), row.dtype), 0.0
        for i in range(row.shape[0]):
            x = r[i]
            merge = (x != 0) & (x == prev)
            flush = (x != 0) & ~merge & (prev != 0)
            res = jnp.where(merge, res.at[k].set(prev + 1), jnp.where(flush, res.at[k].set(prev), res))
            gain = gain + jnp.where(merge, 2.0 ** (prev + 1), 0.0)
            k = k + (merge | flush)
            prev = jnp.where(merge, 0, jnp.where(x != 0, x, prev))
        res = jnp.where(prev != 0, res.at[k].set(prev), res)
        return res, gain

    def left(bd):
        nb, g = jax.vmap(row_left)(bd)
        return nb, jnp.sum(g)

    def turned(k):
        def mv(bd):
            nb, g = left(jnp.rot90(bd, k))
            return jnp.rot90(nb, -k), g
        return mv

    n = state.board.shape[0]
    idx = np.arange(n * n).reshape(n, n)
    idx[1::2] = idx[1::2, ::-1]
    w = jnp.asarray(4.0 ** (idx / 2.0), jnp.float32)
    sc = []
    for mv in (turned(1), turned(2), turned(3), turned(0)):   # up, right, down, left
        nb, r = mv(state.board)
        v = jnp.where(nb > 0, 2.0 ** nb, 0.0)
        sc.append(jnp.sum(v * w) / jnp.sum(w) + 50.0 * jnp.sum(nb == 0) + r)
    sc = jnp.where(ts.observation.action_mask, jnp.stack(sc), -jnp.inf)
    return jnp.argmax(sc).astype(jnp.int32)


DEEP_POLICIES = {"Snake": {"hamilton": _snake_hamilton}, "Game2048": {"snake": _g2048_snake}}


def deep_policy(b, name):
    if name == "legal_hash":
        return _legal_hash_policy(b.layout, b.act_dtype, b.amin, b.amax)
    return DEEP_POLICIES[b.name][name]


_BUNDLES: dict = {}


def bundle(name: str, entry: str, **overrides) -> Bundle:
    key = (name, entry, tuple(sorted(overrides.items())))
    if key not in _BUNDLES:
        _BUNDLES[key] = Bundle(name, entry, **overrides)
    return _BUNDLES[key]


def drop_bundles():
    _BUNDLES.clear()

"""C06 - mask-respecting play never violates the hard constraints of the problem."""
from vf import modelprops as mp

PROPERTY = "C06"
TECHNIQUE = ("Hypothesis-generated keys x mask-following fill orders (first-legal, last-legal, random); hard constraints "
             "recomputed from raw state arrays in NumPy after every step, completeness at the end")
RULE = ("cases = (CO env, entry, key, fill order) where every action is taken from the environment's own mask; after "
        "every step the problem's hard constraints are recomputed from the raw state arrays (float64/int64 NumPy) and at "
        "a legally reached LAST the solution is checked for completeness; non-trivial = states at depth >= 2, distinct by "
        "state digest")
ASSUMPTIONS = ["feasibility is judged only along mask-respecting play, as the property states"]
_P = mp.HistoryProp(PROPERTY, "constraints", mp.C06Mon, n_quick=24, n_thorough=250, plan_strategy=mp.fill_plans(80))
_P.export(globals())

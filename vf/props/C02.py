"""C02 - reset/step are pure functions and commute with jit, vmap and scan."""
from __future__ import annotations

import numpy as np

from vf import envs, episodes, hyp, treecmp
from vf.hyp import st
from vf.props.C13 import SHORT_ENTRY
from vf.runner import Ctx

PROPERTY = "C02"
TECHNIQUE = ("Hypothesis-generated call histories; oracles: re-issued calls (same object after other calls, fresh instance, "
             "reverse order) are bitwise equal; argument snapshots (values and field identities) unchanged, also in eager "
             "mode; eager vs jit vs vmap vs lax.scan agree; jaxpr has no effects/callbacks; process-isolation differential "
             "(trace of a configuration in a process that built nothing else vs one that first built other configurations)")
RULE = ("cases = (env, entry, 2-4 reset keys, plan of <= 12 steps per key); every (args -> result) pair is stored and "
        "re-issued later on the same object, on a fresh instance of the same configuration in reverse order, eagerly (rationed), "
        "inside a vmap batch built from states of different episodes, and as one lax.scan rollout; non-trivial = "
        "comparisons whose state is >= 1 step deep (and, for vmap, whose batch elements differ); distinct by "
        "(env, entry, comparison kind, state digest); isolation cases = (env, drawn order in which all menu entries are built and "
        "abstractly traced, the last-built entries as targets, key, 3 legal steps): one subprocess with that history, one "
        "fresh subprocess per target, and the worker itself")
ASSUMPTIONS = [
    "float leaves compared with rtol 1e-5 / atol 1e-6 across transformations (measured 1e-7 differences on the unchanged "
    "tree), bitwise for repetitions under the same transformation and for int/bool/key leaves",
    "eager execution is rationed (seconds per call): per configuration one pure-eager chain (reset + 4 steps, 10 in thorough) "
    "plus 1 eager reset and 2 eager steps on stored calls in the quick tier",
]
SCAN_LEN = 10
VMAP_B = 3


# environments whose menus contain pairs that differ only in object-valued options (reward function, generator)
STATIC_ARG_ENVS = ("TSP", "Knapsack", "CVRP", "RubiksCube", "Sudoku", "Connector", "Maze", "GraphColoring", "JobShop")


def _sibling_entry(b):
    """Another menu entry of the same environment class, preferably the reward twin (same sizes, other reward_fn)."""
    from vf.models import base

    try:
        m = base.get_model(b)
    except Exception:  # noqa: BLE001
        m = None
    tw = getattr(m, "REWARD_TWINS", None) or {}
    if b.entry in tw:
        return tw[b.entry]
    if b.overrides:
        return None

    def scalars(env):
        return {k: v for k, v in vars(env).items() if isinstance(v, (bool, int, float, str))}

    es = [e for e in envs.entries(b.name) if e != b.entry][:10]
    mine = scalars(b.env)
    for e in es:    # prefer a configuration that differs in object-valued options only (generator, reward function)
        try:
            if scalars(envs.make_env(b.name, e)) == mine:
                return e
        except Exception:  # noqa: BLE001
            continue
    return es[0] if es else None


def snapshot(tree):
    """(host copy of leaves, identities of dataclass field objects) of an argument pytree."""
    import jax

    leaves = [np.array(x) for x in jax.tree_util.tree_leaves(tree)]
    ids = None
    if hasattr(tree, "__dataclass_fields__"):
        ids = {k: id(v) for k, v in vars(tree).items()}
    return leaves, ids


def unchanged(tree, snap, values_only=False):
    import jax

    leaves, ids = snap
    if values_only:
        ids = None
    now = [np.asarray(x) for x in jax.tree_util.tree_leaves(tree)]
    if len(now) != len(leaves):
        return f"number of leaves changed {len(leaves)} -> {len(now)}"
    for i, (a, b) in enumerate(zip(leaves, now)):
        if a.shape != b.shape or a.dtype != b.dtype or not np.array_equal(a, b, equal_nan=a.dtype.kind == "f"):
            return f"leaf {i} of the argument changed"
    if ids is not None:
        cur = {k: id(v) for k, v in vars(tree).items()}
        if set(cur) != set(ids):
            return f"argument object gained/lost attributes: {sorted(set(cur) ^ set(ids))}"
        for k in ids:
            if cur[k] != ids[k]:
                return f"field '{k}' of the argument object was rebound"
    return None


def jaxpr_problems(closed):
    out = []
    if closed.effects:
        out.append(f"effects={closed.effects}")

    def walk(jaxpr):
        for eqn in jaxpr.eqns:
            if "callback" in eqn.primitive.name or eqn.primitive.name in ("debug_print",):
                out.append(f"primitive {eqn.primitive.name}")
            for v in eqn.params.values():
                for sub in (v if isinstance(v, (list, tuple)) else [v]):
                    j = getattr(sub, "jaxpr", None)
                    if j is not None:
                        walk(j if hasattr(j, "eqns") else j.jaxpr)
                    elif hasattr(sub, "eqns"):
                        walk(sub)

    walk(closed.jaxpr)
    return out


class Rig:
    def __init__(self, name, entry):
        import jax

        self.b = envs.bundle(name, entry)
        self.fresh = envs.Bundle(name, entry)  # independent instance of the same configuration
        env = self.b.env
        self.vstep = jax.jit(jax.vmap(env.step))

        def rollout(s, acts):
            def body(st_, a):
                st2, ts2 = env.step(st_, a)
                return st2, (st2, ts2)
            return jax.lax.scan(body, s, acts)

        self.scan = jax.jit(rollout)
        self.eager_budget = {"reset": 1, "step": 2, "chain": 4, "event": 2}
        self.event_sigs_done = set()
        self.interfered = False


_FOREIGN_DONE = []


def run_case(ctx, rig, keys, plans, picks, fail, eager_first):
    import jax

    from jumanji.tree_utils import tree_transpose

    b = rig.b
    calls = []  # (kind, args(device), result(host), depth)
    per_key_states = []
    first_actions, first_outs, s_first0 = [], [], None
    for ki, (kw, plan) in enumerate(zip(keys, plans)):
        key = envs.make_key(kw)
        snap = snapshot(key)
        s, ts = b.reset(key)
        d = unchanged(key, snap)
        if d:
            fail("args.reset", "reset modified its argument", d)
        calls.append(("reset", (key,), episodes.host((s, ts)), 0))
        if ki == 0:
            s_first0 = s
        states = [s]
        for t, (mode, r) in enumerate(plan["steps"][:SCAN_LEN]):
            a = np.asarray(b.pick_action(s, ts, "legal" if mode == "survive" else mode, r))
            snap_s, snap_a = snapshot(s), snapshot(a)
            s2, ts2 = b.step(s, a)
            ctx.evals()
            d = unchanged(s, snap_s) or unchanged(a, snap_a)
            if d:
                fail("args.step.jit", "jitted step modified its arguments", d)
            calls.append(("step", (s, a), episodes.host((s2, ts2)), t + 1))
            if ki == 0:
                first_actions.append(a)
                first_outs.append(episodes.host((s2, ts2)))
            s, ts = s2, ts2
            states.append(s)
        per_key_states.append(states)
    # spec property reads in between (cached properties must not disturb anything)
    _ = (b.env.observation_spec, b.env.action_spec, b.env.reward_spec, b.env.discount_spec)

    # 0. interference (once per configuration): other library code is run on the same environment object between
    # the stored calls and their re-issue - the auto-reset wrapper (both settings of next_obs_in_extras), the batched
    # wrapper and the dm_env adapter, in plain Python - "calling in a different order ... gives the same result"
    if not rig.interfered:
        rig.interfered = True
        from jumanji.wrappers import AutoResetWrapper, JumanjiToDMEnvWrapper, VmapWrapper

        k_i = envs.make_key((int(keys[0][0]) ^ 0x5A5A, int(keys[0][1])))
        for w in (AutoResetWrapper(b.env, next_obs_in_extras=True), AutoResetWrapper(b.env, next_obs_in_extras=False)):
            w.reset(k_i)
        VmapWrapper(b.env).reset(jax.random.split(k_i, 2))
        JumanjiToDMEnvWrapper(b.env, key=k_i).reset()
        ctx.count("interference_rounds")
        # once per worker process: every *other* environment class is constructed with its default configuration
        # (Sokoban needs its dataset and is left out) between the stored calls and their re-issue - building an
        # environment must not change what another one computes (process-global JAX configuration, module state)
        if not _FOREIGN_DONE:
            _FOREIGN_DONE.append(True)
            import inspect

            import jumanji.environments as _E
            from jumanji.env import Environment as _Env

            for n_ in sorted(dir(_E)):
                c_ = getattr(_E, n_)
                if inspect.isclass(c_) and issubclass(c_, _Env) and c_ is not _Env and n_ != "Sokoban":
                    try:
                        c_()
                        ctx.count("foreign_constructions")
                    except Exception:  # a constructor that fails here is not this property's subject
                        ctx.count("foreign_constructions_failed")
        # the environment object as a *static* jit argument (the library's own rollout helpers in jumanji/testing do
        # this): two live environments of one class that differ in their configuration must not share a compiled
        # program - each call must equal that environment's own reset
        sib = _sibling_entry(b)
        if sib is not None and b.name in STATIC_ARG_ENVS:
            other = envs.bundle(b.name, sib)
            f_static = jax.jit(lambda env_, k_: env_.reset(k_), static_argnums=0)
            f_static_step = jax.jit(lambda env_, s_, a_: env_.step(s_, a_), static_argnums=0)
            try:
                hash(b.env), hash(other.env)
            except TypeError:
                other = None     # unhashable environments cannot be static arguments at all: nothing to compare
            if other is not None:
                for tag, bb in (("first", b), ("second", other), ("first again", b)):
                    got = episodes.host(f_static(bb.env, k_i))
                    want = episodes.host(bb.reset(k_i))
                    ctx.evals()
                    d = treecmp.diff(got, want, exact=False)
                    if d:
                        fail("transform.static_arg", "reset through jit with the environment as a static argument differs "
                             "from that environment's own reset", f"{tag} environment ({bb.entry}; the other one is "
                             f"{other.entry if bb is b else b.entry}): {d}")
                    s_own, _ = bb.reset(k_i)
                    a_gen = bb.env.action_spec.generate_value()
                    d = treecmp.diff(episodes.host(f_static_step(bb.env, s_own, a_gen)), episodes.host(bb.step(s_own, a_gen)),
                                     exact=False)
                    ctx.evals()
                    if d:
                        fail("transform.static_arg", "step through jit with the environment as a static argument differs "
                             "from that environment's own step", f"{tag} environment ({bb.entry}; the other one is "
                             f"{other.entry if bb is b else b.entry}): {d}")
                ctx.count("static_arg_pairs")
        # a sibling environment built on the *same generator object* with another time limit (a training and an
        # evaluation environment sharing their instance generator): constructing it must leave the caller's generator,
        # and with it the behaviour of the environment under test, untouched
        import inspect

        gen = getattr(b.env, "generator", None)
        gen = gen if gen is not None else getattr(b.env, "_generator", None)
        params = inspect.signature(type(b.env).__init__).parameters
        if gen is not None and "generator" in params and "time_limit" in params and getattr(b.env, "time_limit", None):
            def attrs(g):
                return {k: repr(v)[:200] for k, v in sorted(vars(g).items())}

            before = attrs(gen)
            try:
                type(b.env)(generator=gen, time_limit=int(b.env.time_limit) + 3)
                ctx.count("sibling_constructions")
            except Exception:  # noqa: BLE001 - a constructor that needs more arguments: nothing to compare
                ctx.count("sibling_construction_skipped")
            after = attrs(gen)
            ctx.evals()
            if before != after:
                changed = sorted(k for k in set(before) | set(after) if before.get(k) != after.get(k))
                fail("args.constructor", "constructing an environment modified the generator object passed by the caller",
                     f"attributes {changed}: {[(before.get(k), after.get(k)) for k in changed][:3]}")

    # 1. re-issue stored calls: same object (after all the other calls), fresh instance in reverse order
    chosen = sorted({p % len(calls) for p in picks})
    for where, bundle, order in (("same_object", b, chosen), ("fresh_instance", rig.fresh, chosen[::-1])):
        for ci in order:
            kind, args, res, depth = calls[ci]
            out = bundle.reset(*args) if kind == "reset" else bundle.step(*args)
            ctx.evals()
            d = treecmp.diff(episodes.host(out), res, exact=True)
            if depth >= 1:
                ctx.nontrivial(b.name, b.entry, where, ci, [np.asarray(x) for x in jax.tree_util.tree_leaves(res[0])][:3])
            if d:
                fail(f"determinism.{where}", f"re-issued {kind} call gives a different result ({where})", f"call #{ci} depth {depth}: {d}")

    # 2./3a. eager vs jit, with argument snapshots in eager mode (rationed)
    for ci in chosen:
        kind, args, res, depth = calls[ci]
        if rig.eager_budget[kind] <= 0 or (kind == "step" and depth < 1):
            continue
        if kind == "step" and eager_first and rig.eager_budget["step"] == 3 and depth < 2 and len(chosen) > 2:
            pass
        rig.eager_budget[kind] -= 1
        snaps = [snapshot(x) for x in args]
        out = b.env.reset(*args) if kind == "reset" else b.env.step(*args)
        ctx.evals()
        ctx.count(f"eager_{kind}_calls")
        for x, sn in zip(args, snaps):
            d = unchanged(x, sn)
            if d:
                fail(f"args.{kind}.eager", f"eager {kind} modified its arguments", d)
        # eager results may hold Python scalars (weakly typed); JAX canonicalises them on the next call,
        # so they are compared after jnp.asarray (int -> int32, float -> float32), not as NumPy int64
        import jax.numpy as jnp
        out = jax.tree_util.tree_map(lambda x: np.asarray(jnp.asarray(x)), out)
        d = treecmp.diff(out, res, exact=False)
        if depth >= 1:
            ctx.nontrivial(b.name, b.entry, "eager", ci)
        if d:
            fail("transform.eager_vs_jit", f"eager {kind} differs from jitted {kind}", f"call #{ci} depth {depth}: {d}")

    # 3a'. one pure-eager chain per configuration: eager reset, then eager steps fed with the *eager* outputs
    # (plain per-call Python execution; states may then hold Python scalars), compared with the jitted chain
    if rig.eager_budget.get("chain", 0) > 0 and len(first_actions) >= 1:
        import jax.numpy as jnp

        n_chain = min(rig.eager_budget["chain"], len(first_actions))
        rig.eager_budget["chain"] = 0
        key0 = envs.make_key(keys[0])
        canon = lambda t: jax.tree_util.tree_map(lambda x: np.asarray(jnp.asarray(x)), t)  # noqa: E731
        s_e, ts_e = b.env.reset(key0)
        d = treecmp.diff(canon((s_e, ts_e)), calls[0][2], exact=False)
        ctx.evals()
        if d:
            fail("transform.eager_chain", "pure-eager chain differs from the jitted chain", f"reset: {d}")
        # results are values, not views: what a plain-Python reset returned must not change when reset is called
        # again with another key (a generator handing out one cached State object and re-keying it in place)
        snap_r = (snapshot(s_e), snapshot(ts_e))
        b.env.reset(envs.make_key((int(keys[0][0]) ^ 0x2222, (int(keys[0][1]) + 1) % 2**32)))
        ctx.evals()
        ctx.count("eager_alias_checks")
        # values only: a generator may hand out one cached State object whose fields reset rebinds to equal values
        # (BinPack's CSVGenerator does) - unobservable, hence not a violation
        d = unchanged(s_e, snap_r[0], values_only=True) or unchanged(ts_e, snap_r[1], values_only=True)
        if d:
            fail("results.reset.eager", "a later reset call changed the state returned by an earlier one", d)
        for t in range(n_chain):
            snap_s, prev_s = snapshot(s_e), s_e
            s_e, ts_e = b.env.step(s_e, first_actions[t])
            d = unchanged(prev_s, snap_s)
            if d:
                fail("args.step.eager", "eager step modified its arguments", f"chain step {t + 1}: {d}")
            ctx.evals()
            ctx.count("eager_chain_steps")
            ctx.nontrivial(b.name, b.entry, "eager_chain", keys[0], t)
            d = treecmp.diff(canon((s_e, ts_e)), first_outs[t], exact=False)
            if d:
                fail("transform.eager_chain", "pure-eager chain differs from the jitted chain", f"step {t + 1}: {d}")
                break

    # 3a''. event-directed eager first steps: the eager budget is tiny, so it is spent where something happens.
    # A pool of (key, first action) pairs is evaluated with the jitted step (32 keys derived from the drawn key x
    # up to 64 actions); pairs are grouped by what the step did (step type, sign and magnitude of the reward) and one
    # representative of the rarest groups is re-executed in plain Python (eager reset, eager step on the eager state).
    if rig.eager_budget.get("event", 0) > 0:
        import jax.numpy as jnp

        nact = b.num_flat_actions()
        if nact <= 64:
            cand_actions = [b.action_from_flat(i) for i in range(nact)]
        else:
            cand_actions = [b.raw_action(picks[0] * 131 + 7919 * i) for i in range(64)]
        ca = np.stack([np.asarray(a) for a in cand_actions], 0)
        groups = {}
        for i in range(32):
            kw = ((int(keys[0][0]) + i) % 2**32, int(keys[0][1]))
            s0, _ = b.reset(envs.make_key(kw))
            _, tsv = episodes.host(b.step_all(s0, ca))
            rew = np.asarray(tsv.reward, np.float64).reshape(len(cand_actions), -1).sum(1)
            typ = np.asarray(tsv.step_type).reshape(len(cand_actions), -1)[:, 0]
            for j in range(len(cand_actions)):
                sig = (int(typ[j]), int(np.sign(rew[j])), int(np.round(np.log2(abs(rew[j]) + 1.0))))
                groups.setdefault(sig, []).append((kw, j))
        ctx.count("event_groups", len(groups))
        for sig in sorted(groups, key=lambda g: (len(groups[g]), g)):
            if rig.eager_budget["event"] <= 0:
                break
            if sig in rig.event_sigs_done:
                continue
            rig.event_sigs_done.add(sig)
            rig.eager_budget["event"] -= 1
            kw, j = groups[sig][picks[0] % len(groups[sig])]
            a = cand_actions[j]
            key_e = envs.make_key(kw)
            ref_s, ref_ts = b.reset(key_e)
            ref2 = episodes.host(b.step(ref_s, a))
            canon = lambda t: jax.tree_util.tree_map(lambda x: np.asarray(jnp.asarray(x)), t)  # noqa: E731
            s_e, ts_e = b.env.reset(key_e)
            out_e = b.env.step(s_e, a)
            ctx.evals()
            ctx.count("eager_event_steps")
            ctx.nontrivial(b.name, b.entry, "eager_event", sig)
            d = treecmp.diff(canon(out_e), ref2, exact=False)
            if d:
                fail("transform.eager_event", "plain Python reset+step differs from the jitted reset+step",
                     f"key {list(kw)} action {np.asarray(a).tolist()} (event {sig}): {d}")

    # 3b. vmap: batch of states from different episodes / depths
    step_calls = [c for c in calls if c[0] == "step"]
    if len(step_calls) >= VMAP_B:
        idx = [(picks[i % len(picks)] + i * 7) % len(step_calls) for i in range(VMAP_B)]
        bs = tree_transpose([step_calls[i][1][0] for i in idx])
        ba = np.stack([step_calls[i][1][1] for i in idx], 0)
        vs, vts = episodes.host(rig.vstep(bs, ba))
        distinct = len({i for i in idx}) > 1
        for j, i in enumerate(idx):
            sl = jax.tree_util.tree_map(lambda x: x[j], (vs, vts))
            d = treecmp.diff(sl, step_calls[i][2], exact=False)
            ctx.evals()
            if distinct:
                ctx.nontrivial(b.name, b.entry, "vmap", idx, j)
            if d:
                fail("transform.vmap", "vmapped step slice differs from the single jitted step", f"batch index {j}: {d}")
                break
    # 3c. scan of the first key's concrete actions vs the per-step loop
    if len(first_actions) == SCAN_LEN:
        _, (ss, tss) = rig.scan(s_first0, np.stack(first_actions, 0))
        hss = episodes.host((ss, tss))
        for t in range(SCAN_LEN):
            sl = jax.tree_util.tree_map(lambda x: x[t], hss)
            d = treecmp.diff(sl, first_outs[t], exact=False)
            ctx.evals()
            ctx.nontrivial(b.name, b.entry, "scan", keys[0], t)
            if d:
                fail("transform.scan", "lax.scan rollout differs from the per-step jitted loop", f"step {t}: {d}")
                break
    return [[np.asarray(a).tolist() for a in first_actions]]


def static_checks(ctx, rig):
    import jax

    b = rig.b
    key = envs.make_key((0, 1))
    s, ts = b.reset(key)
    a = b.env.action_spec.generate_value()
    case = {"env": b.name, "entry": b.entry, "static": True}
    for name, closed in (("reset", jax.make_jaxpr(b.env.reset)(key)), ("step", jax.make_jaxpr(b.env.step)(s, a))):
        ctx.evals()
        for p in jaxpr_problems(closed):
            ctx.fail("jaxpr.effects", b.name, f"{name} trace contains an effect or callback", p, case)


def isolation_case(ctx, env, targets, build, key, rs, fail):
    """Process-isolation differential: the trace of each target configuration must be the same in (a) a process that
    builds nothing else, (b) a process that first builds and abstractly traces all configurations in `build` (in that
    order), (c) this worker (arbitrary history)."""
    from vf import isolate

    spec = {"env": env, "key": list(key), "rs": list(rs)}
    polluted = isolate.spawn(dict(spec, build=list(build), targets=list(targets)))
    # the fresh processes also run under other string-hash salts than this worker (PYTHONHASHSEED 0): a result that
    # depends on set / dict iteration order of strings differs between two ordinary interpreter runs
    alone_p = [isolate.spawn(dict(spec, build=[], targets=[t], hashseed=1 + i)) for i, t in enumerate(targets)]
    here = {t: isolate.trace(envs.bundle(env, t), key, rs) for t in targets[:1]}
    res = [isolate.collect(p) for p in [polluted] + alone_p]
    for which, r in zip(["after_others"] + [f"alone:{t}" for t in targets], res):
        if "error" in r:
            if "jumanji/" in r.get("tb", "").replace("/verif/", ""):
                fail("exception", f"isolated:{r['error'].split(':')[0]}", f"{which}: {r['error']}")
                return
            raise RuntimeError(f"isolated process ({which}): {r['error']}\n{r.get('tb', '')}")
    for ti, t in enumerate(targets):
        alone = res[1 + ti]["traces"][t]
        others = [("after_other_configurations", res[0]["traces"][t])]
        if t in here:
            others.append(("this_worker", here[t]))
        for name, other in others:
            for c, (x, y) in enumerate(zip(alone, other)):
                ctx.evals()
                bad = sorted(k for k in x if x[k] != y.get(k))
                if bad or set(x) != set(y):
                    kind = "reset" if c == 0 else "step"
                    fail(f"isolation.{name}", f"{kind} result differs between processes (built-before history or string-hash salt)",
                         f"call #{c} ({kind}) of {t} differs from a fresh process (other string-hash salt) that built nothing else (configurations built "
                         f"first: {build if name != 'this_worker' else 'worker history'}): leaves {bad[:4]}")
                    break
        ctx.nontrivial(env, t, "isolation", tuple(build), tuple(key))
    ctx.count("isolation_cases")


def work_items(tier, flt):
    scale = (flt or {}).get("scale", 1.0)
    items = []
    for env in envs.select_envs(envs.ENV_NAMES, flt):
        if not (flt and flt.get("entry")) and len(envs.entries(env)) > 1:
            items.append({"env": env, "entry": "*", "kind": "isolation", "n": 1 if tier == "quick" else 3,
                          "targets": 3 if tier == "quick" else 99,
                          "cost": {"BinPack": 6, "MMST": 6, "PacMan": 5, "Sudoku": 3}.get(env, 2)})
    for env in envs.select_envs(envs.ENV_NAMES, flt):
        es = [SHORT_ENTRY[env]]
        if tier == "thorough":
            es = list(dict.fromkeys(es + envs.quick_entries(env)))
        if flt and flt.get("entry"):
            es = flt["entry"]
        for e in es:
            items.append({"env": env, "entry": e, "n": max(2, int((8 if tier == "quick" else 40) * scale)),
                          "eager_steps": 3 if tier == "quick" else 8,
                          "cost": {"BinPack": 9, "MMST": 9, "PacMan": 6, "Connector": 4, "RubiksCube": 3, "JobShop": 3}.get(env, 1)})
    return items


def run_isolation_item(item, seed):
    ctx = Ctx(PROPERTY, item)
    env = item["env"]
    names = envs.entries(env)

    def one(order, key, rs):
        build = list(order)
        targets = build[::-1][:item.get("targets", 3)]      # the configurations built last have the most predecessors
        case = {"env": env, "kind": "isolation", "targets": targets, "build": build, "key": list(key), "rs": list(rs)}

        def fail(oracle, sig, msg):
            ctx.fail(oracle, env, sig, msg, case, size=len(build) * 10 + len(rs))

        with ctx.guard(env, case, size=10**6):
            isolation_case(ctx, env, targets, build, key, rs, fail)
            if len(ctx.samples) < 2:
                ctx.sample(case)

    hyp.drive({"order": st.permutations(names), "key": episodes.keys(),
               "rs": st.lists(st.integers(0, 10**6), min_size=3, max_size=3)}, one, seed, item["n"])
    return ctx.result()


def run_item(item, seed, tier):
    if item.get("kind") == "isolation":
        return run_isolation_item(item, seed)
    ctx = Ctx(PROPERTY, item)
    env, entry = item["env"], item["entry"]
    with ctx.guard(env, {"env": env, "entry": entry, "stage": "construct"}):
        rig = Rig(env, entry)
        rig.eager_budget = {"reset": 1, "step": max(1, item.get("eager_steps", 3) - 1),
                            "chain": 4 if tier == "quick" else 10, "event": 2 if tier == "quick" else 6}
        static_checks(ctx, rig)
        counter = {"n": 0}

        def one(keys, plans, picks):
            case = {"env": env, "entry": entry, "keys": [list(k) for k in keys], "plans": plans, "picks": picks}

            def fail(oracle, sig, msg):
                ctx.fail(oracle, env, sig, f"{msg} [entry={entry} keys={case['keys']}]", case, size=sum(len(p["steps"]) for p in plans))

            counter["n"] += 1
            with ctx.guard(env, case, size=10**6):
                run_case(ctx, rig, keys, plans, picks, fail, eager_first=counter["n"] <= 2)
                ctx.count("histories")
                if len(ctx.samples) < 2:
                    ctx.sample({"env": env, "entry": entry, "keys": case["keys"], "picks": picks[:6],
                                "plan0": plans[0]["steps"][:6]})

        nk = st.integers(2, 4)
        strat = nk.flatmap(lambda k: st.tuples(
            st.lists(episodes.keys(), min_size=k, max_size=k),
            st.lists(episodes.plans(max_len=SCAN_LEN, min_len=SCAN_LEN, styles=("legalish", "chaos", "legal")),
                     min_size=k, max_size=k),
            st.lists(st.integers(0, 10**6), min_size=4, max_size=10)))

        def wrapped(triple):
            one(*triple)

        hyp.drive({"triple": strat}, wrapped, seed, item["n"])
    return ctx.result()


def replay(case):
    ctx = Ctx(PROPERTY, {})
    env = case["env"]
    if case.get("kind") == "isolation":
        def fail_i(oracle, sig, msg):
            ctx.fail(oracle, env, sig, msg, case)

        with ctx.guard(env, case):
            isolation_case(ctx, env, case["targets"], case["build"], case["key"], case["rs"], fail_i)
        return list(ctx.failures.values())
    with ctx.guard(env, case):
        rig = Rig(env, case["entry"])
        if case.get("stage") == "construct":
            return []
        if case.get("static"):
            static_checks(ctx, rig)
            return list(ctx.failures.values())
        rig.eager_budget = {"reset": 1, "step": 4, "chain": 10, "event": 99}

        def fail(oracle, sig, msg):
            ctx.fail(oracle, env, sig, msg, case)

        plans = [{"style": p["style"], "steps": [tuple(x) for x in p["steps"]]} for p in case["plans"]]
        run_case(ctx, rig, [tuple(k) for k in case["keys"]], plans, case["picks"], fail, eager_first=True)
    return list(ctx.failures.values())

"""C11 - episodes end exactly at the configured time limit (and within a known horizon)."""
from __future__ import annotations

import numpy as np

from vf import bulk, envs, episodes, hyp
from vf.hyp import st
from vf.models.base import get_model, supports
from vf.runner import Ctx

PROPERTY = "C11"
TECHNIQUE = ("metamorphic twin: same key and same concrete actions in env(time_limit=T) and env(T+5), "
             "Hypothesis-generated keys and survive-biased plans; structural-horizon bound for the others")
RULE = ("time-limited envs: cases = (env, entry, T in {1,2,3,7,default/None}, key, survive-biased plan or a plan mixing "
        "illegal/raw actions); the plan is "
        "played in env(T+5), the concrete actions are replayed in env(T); step types must agree before step T, "
        "env(T) must return LAST at step T exactly and env(T+5) at T+5; non-trivial = episodes that survive to step "
        "T; horizon envs: first LAST no later than the structural bound computed from the reset state, non-trivial "
        "= episodes of >= 2 steps; distinct by (env, entry, T, key); sweep batches (counters sweep_*) screen 10^2..4*10^3 "
        "scripted-policy episodes per env on the device (both twins in one scan / fixed structural bound) and re-judge "
        "flagged episodes with the same twin / horizon code")
ASSUMPTIONS = [
    "the time limit influences nothing but termination (the twin with T+5 is the reference for 'other reasons')",
    "documented defaults: Maze/Cleaner None -> rows*cols, PacMan None -> 1000",
    "MultiCVRP horizon is 2*num_customers + 1 steps (its step counter must exceed 2*num_customers)",
]

TIME_ENVS = list(envs.TIME_LIMITED)
HORIZON_ENVS = ["TSP", "CVRP", "MultiCVRP", "Knapsack", "BinPack", "FlatPack", "JobShop", "GraphColoring",
                "Sudoku", "Minesweeper"]
NONE_DEFAULT = {"Maze": lambda b: b.env.num_rows * b.env.num_cols,
                "Cleaner": lambda b: b.env.num_rows * b.env.num_cols,
                "PacMan": lambda b: 1000}
SMALL_T = [1, 2, 3, 7]
# base entries (their own time limit is overridden)
BASE = {
    "RubiksCube": ["n2s7t200", "n3s100t200"], "SlidingTilePuzzle": ["g3m50t7d", "g4m200t500d"],
    "Tetris": ["r10c10t400", "r6c5t7"], "Cleaner": ["r5c11a2t3", "r10c10a3tNone"],
    "Connector": ["g6a3t50rw", "g10a10t50uni"], "LevelBasedForaging": ["g8a2f2v8l2cVNp0t100", "g8a3f3v3l3nGRp5t100"],
    "Maze": ["r10c10tNone", "r4c7tNone"], "MMST": ["n12e18a2k3t7", "n12e18a3k2t30"], "PacMan": ["tNone"],
    "RobotWarehouse": ["s1x3h3a2r1q2t500", "s2x3h8a4r1q8t500"], "Snake": ["r12c12t4000", "r6c4t7"],
    "Sokoban": ["randomt120", "toyt120"],
}


# The MMST generator's `max_step` sizes the route buffer (`connected_nodes`); the constructor accepts a generator
# whose max_step differs from time_limit, and the documented end of the episode is still `time_limit`.
MID_T = {"RobotWarehouse": 30, "Snake": 25, "Tetris": 25, "LevelBasedForaging": 25, "Connector": 15, "PacMan": 30,
         "Cleaner": 20, "Maze": 20, "Sokoban": 25, "SlidingTilePuzzle": 20, "MMST": 15, "RubiksCube": 9}
EXTRA_TIME = {"MMST": [(7, {"max_step": 4}), (3, {"max_step": 30})]}


# bulk sweeps (vf/bulk.py): episodes per batch of the twin sweep (time-limited envs, T = MID_T and 7) and of the
# horizon sweep (envs whose structural bound is a constant of the configuration)
TWIN_SWEEP = {"RubiksCube": 512, "SlidingTilePuzzle": 1024, "Tetris": 512, "Cleaner": 1024, "Connector": 512,
              "LevelBasedForaging": 512, "Maze": 1024, "MMST": 256, "PacMan": 48, "RobotWarehouse": 256, "Snake": 1024,
              "Sokoban": 256}
TWIN_SWEEP_QUICK = ("SlidingTilePuzzle", "Tetris", "Cleaner", "Maze", "Snake", "Connector", "LevelBasedForaging", "RubiksCube")
HORIZON_SWEEP = {"TSP": ("n5d", 4096), "CVRP": ("n5s", 4096), "MultiCVRP": ("c6v2d", 1024), "Knapsack": ("n10s", 4096),
                 "GraphColoring": ("n6p8", 4096), "Minesweeper": ("r3c5m3", 4096)}


def horizon_bound(b, st_):
    n = b.name
    if n == "TSP":
        return b.env.num_cities
    if n == "CVRP":
        return 2 * b.env.num_nodes
    if n == "MultiCVRP":
        return 2 * b.env._num_customers + 1
    if n == "Knapsack":
        return b.env.num_items
    if n == "GraphColoring":
        return b.env.num_nodes
    if n == "BinPack":
        return int(np.asarray(st_.items_mask).shape[0])
    if n == "FlatPack":
        return int(st_.num_blocks)
    if n == "Minesweeper":
        return b.env.num_rows * b.env.num_cols - b.env.num_mines
    if n == "Sudoku":
        return int((np.asarray(st_.board) < 0).sum()) if (np.asarray(st_.board) < 0).any() else int((np.asarray(st_.board) == 0).sum())
    if n == "JobShop":
        dur = np.asarray(st_.ops_durations)
        mask = np.asarray(st_.ops_mask)
        return int(dur[mask].sum() + mask.sum() + 1)
    raise KeyError(n)


def twin(ctx, env, entry, T, T_arg, key_words, plan=None, actions=None, extra=None):
    """Returns (types_long, types_short, actions, explained).  Either plays a plan in the long env or
    replays concrete actions in both.  explained: verdict of the model's documented-other-reasons
    predicate on the short env's LAST when it came before step T (None = no model / cannot tell /
    not applicable)."""
    extra = extra or {}
    long_b = envs.bundle(env, entry, time_limit=T + 5, **extra)
    short_b = envs.bundle(env, entry, time_limit=T_arg, **extra)
    key = envs.make_key(key_words)
    sl, tl = long_b.reset(key)
    ss, ts_ = short_b.reset(key)
    types_l, types_s, acts = [], [], []
    short_done = False
    model = _reason_model(short_b)
    hist = [episodes.host(ss)] if model is not None else None
    explained = None
    horizon = T + 5 + 2
    i = 0
    while i < horizon:
        if actions is not None:
            if i >= len(actions):
                break
            a = long_b.to_action(actions[i])
        else:
            mode, r = plan["steps"][i % len(plan["steps"])]
            r = r + 7919 * (i // len(plan["steps"]))
            a = None
            if mode == "solve":
                if id(long_b) not in _SOLVERS:
                    _SOLVERS[id(long_b)] = (long_b, episodes.solve_fn_for(long_b))
                a = episodes.solved_action(long_b, _SOLVERS[id(long_b)][1], episodes.host(sl), r)
            if a is None:
                a = long_b.pick_action(sl, tl, mode, r)
        acts.append(np.asarray(a))
        sl, tl = long_b.step(sl, a)
        types_l.append(int(tl.step_type))
        if not short_done:
            ss, ts_ = short_b.step(ss, a)
            types_s.append(int(ts_.step_type))
            short_done = types_s[-1] == episodes.LAST
            if hist is not None:
                hist.append(episodes.host(ss))
                if short_done and len(types_s) < T:
                    explained = model.early_end_explained(hist, [np.asarray(x) for x in acts])
        if types_l[-1] == episodes.LAST:
            break
        i += 1
    return types_l, types_s, acts, explained


_REASON_MODELS: dict = {}
_SOLVERS: dict = {}


def _reason_model(b):
    k = id(b)
    if k not in _REASON_MODELS:
        m = get_model(b)
        _REASON_MODELS[k] = (b, m if supports(m, "early_end_explained") else None)
    return _REASON_MODELS[k][1]


def judge(env, T, types_l, types_s, explained=None):
    """-> list of (oracle, sig, msg), survived_to_T"""
    out = []
    L = episodes.LAST
    if explained is False and L in types_s and types_s.index(L) + 1 < T:
        k = types_s.index(L) + 1
        out.append(("time_limit.early_unexplained", "LAST before the time limit although no documented reason holds",
                    f"T={T}: LAST at step {k}; solved / finished / collision predicate of the reference model is False"))
        return out, False
    # agreement strictly before step T (1-based step number k = index + 1)
    for k in range(1, min(T, len(types_s) + 1, len(types_l) + 1)):
        if k - 1 < len(types_s) and k - 1 < len(types_l) and types_s[k - 1] != types_l[k - 1]:
            out.append(("time_limit.early", f"env(T) differs from env(T+5) at a step before T",
                        f"T={T} step {k}: env(T) type {types_s[k-1]} vs env(T+5) type {types_l[k-1]}"))
            return out, False
    survived = len(types_l) >= T and all(t != L for t in types_l[:T - 1]) and \
        (len(types_l) < T or True)
    long_alive_through_T_minus_1 = len(types_l) >= T - 1 and all(t != L for t in types_l[:T - 1])
    if not long_alive_through_T_minus_1 or len(types_s) < T:
        return out, False
    if types_s[T - 1] != L:
        out.append(("time_limit.not_last_at_T", "env(T) does not return LAST at step T",
                    f"T={T}: env(T) step types {types_s[:T+2]}"))
    if len(types_s) > T:
        out.append(("time_limit.late", "env(T) produced steps after T without LAST", f"T={T} types {types_s}"))
    # the long twin must stop at T+5 if it gets there
    if len(types_l) >= T + 5 and all(t != L for t in types_l[:T + 4]) and types_l[T + 4] != L:
        out.append(("time_limit.not_last_at_T", "env(T+5) does not return LAST at step T+5",
                    f"T+5={T+5}: types tail {types_l[-4:]}"))
    if len(types_l) > T + 5:
        out.append(("time_limit.late", "env(T+5) ran past T+5", f"len={len(types_l)}"))
    del survived
    return out, True


def work_items(tier, flt):
    scale = (flt or {}).get("scale", 1.0)
    items = []
    for env in envs.select_envs(TIME_ENVS, flt):
        bases = BASE[env][:1] if tier == "quick" else BASE[env]
        for entry in bases:
            Ts = list(SMALL_T)
            if tier == "thorough":
                Ts += [12, 25]
            for T in Ts:
                items.append({"kind": "time", "env": env, "entry": entry, "T": T, "T_arg": T,
                              "n": max(2, int((10 if tier == "quick" else 60) * scale)), "cost": 2})
            if env in MID_T and entry == BASE[env][0]:
                # purposeful play (the model's constructive policy) up to a mid-sized limit: progress events -
                # a delivery, a fruit, a cleared line, a loaded food, a connected agent - happen before step T
                items.append({"kind": "time", "env": env, "entry": entry, "T": MID_T[env], "T_arg": MID_T[env],
                              "styles": ["solve", "solveish", "solve", "survive"],
                              "n": max(2, int((6 if tier == "quick" else 40) * scale)), "cost": 3})
            for T, extra in EXTRA_TIME.get(env, []) if entry == BASE[env][0] else []:
                items.append({"kind": "time", "env": env, "entry": entry, "T": T, "T_arg": T, "extra": extra,
                              "n": max(2, int((10 if tier == "quick" else 60) * scale)), "cost": 2})
            dflt = envs.TIME_LIMITED[env]
            if dflt is None:
                items.append({"kind": "time", "env": env, "entry": entry, "T": "none_default", "T_arg": None,
                              "n": max(2, int((3 if tier == "quick" else 12) * scale)), "cost": 6})
            elif tier == "thorough" or dflt <= 200:
                items.append({"kind": "time", "env": env, "entry": entry, "T": dflt, "T_arg": dflt,
                              "n": max(2, int((3 if tier == "quick" else 10) * scale)), "cost": 4 + dflt / 100})
    # coincidence cases (see C03): a constructive episode that ends by completion on step k under a generous limit is
    # replayed with time_limit = k and k + 1: step k must then be LAST in both (limit reached / game over)
    from vf.props import C03 as _c03

    for env in envs.select_envs([e for e in _c03.COINCIDE if e in TIME_ENVS], flt):
        es = _c03.COINCIDE[env][:1] if tier == "quick" else _c03.COINCIDE[env]
        for e in es:
            if flt and flt.get("entry") and e not in flt["entry"]:
                continue
            items.append({"kind": "coincide", "env": env, "entry": e, "n": max(2, int((6 if tier == "quick" else 30) * scale)),
                          "cost": 3})
    for env in envs.select_envs(HORIZON_ENVS, flt):
        for entry in envs.tier_entries(env, tier, flt):
            items.append({"kind": "horizon", "env": env, "entry": entry,
                          "n": max(2, int((25 if tier == "quick" else 200) * scale)), "cost": 1})
    nb = 1 if tier == "quick" else 3
    for env in envs.select_envs([e for e in TWIN_SWEEP if tier == "thorough" or e in TWIN_SWEEP_QUICK], flt):
        entry = BASE[env][0]
        if flt and flt.get("entry") and entry not in flt["entry"]:
            continue
        mid = 12 if env == "Tetris" else MID_T[env]   # random placements top out a 10x10 Tetris board before step 25
        for T in ([mid] if tier == "quick" else [mid, 7]):
            items.append({"kind": "tsweep", "env": env, "entry": entry, "T": T, "episodes": TWIN_SWEEP[env],
                          "batches": nb, "cost": 4})
    # long limits on levels where random play makes progress: endings before the limit must be explained
    for env, entry, T, n in (("Sokoban", "simplet120", 60, 1024),):
        if envs.select_envs([env], flt) and not (flt and flt.get("entry") and entry not in flt["entry"]):
            items.append({"kind": "tsweep", "env": env, "entry": entry, "T": T, "episodes": n, "batches": nb, "cost": 6})
    for env in envs.select_envs(list(HORIZON_SWEEP), flt):
        entry, n = HORIZON_SWEEP[env]
        if flt and flt.get("entry") and entry not in flt["entry"]:
            continue
        items.append({"kind": "hsweep", "env": env, "entry": entry, "episodes": n, "batches": nb, "cost": 2})
    return items


def run_sweep(item, seed):
    """Bulk sweeps: candidates are found on the device, every flagged episode is replayed on the host through the
    ordinary twin / horizon code and judged there."""
    ctx = Ctx(PROPERTY, item)
    env, entry = item["env"], item["entry"]
    with ctx.guard(env, {"env": env, "entry": entry, "stage": "construct", "item": item}):
        if item["kind"] == "tsweep":
            T = int(item["T"])
            long_b, short_b = envs.bundle(env, entry, time_limit=T + 5), envs.bundle(env, entry, time_limit=T)
            rm = _reason_model(short_b)
            expl_fn = getattr(type(rm), "early_end_explained_jnp", None) if rm is not None else None

            def one(key, salt):
                with ctx.guard(env, {"kind": "time", "env": env, "entry": entry, "T": T, "T_arg": T, "key": list(key),
                                     "actions": [], "stage": "sweep"}):
                    first, reached, kws, acts = bulk.twin_sweep(long_b, short_b, T, key, salt, item["episodes"],
                                                                explained=expl_fn)
                ctx.evals(len(first))
                ctx.count("sweep_twin_episodes", len(first))
                ctx.count(f"sweep_survived_to_T_{env}", int(reached.sum()))
                ctx.nontrivial(env, entry, "tsweep", T, int(reached.sum()))
                for e in np.flatnonzero(first >= 0)[:3]:
                    kw = [int(kws[e][0]), int(kws[e][1])]
                    case = {"kind": "time", "env": env, "entry": entry, "T": T, "T_arg": T, "key": kw,
                            "actions": [np.asarray(a).tolist() for a in acts[e]], "extra": None}
                    before = sum(f["hits"] for f in ctx.failures.values())
                    with ctx.guard(env, case, size=10**6):
                        tl, ts_, _, expl = twin(ctx, env, entry, T, T, kw, actions=case["actions"])
                        for o, s, m in judge(env, T, tl, ts_, expl)[0]:
                            ctx.fail(o, env, s, m + f" [entry={entry} key={kw}]", case, size=len(case["actions"]))
                    ctx.count("sweep_flagged")
                    if sum(f["hits"] for f in ctx.failures.values()) == before:
                        ctx.count("sweep_unconfirmed")
                if len(ctx.samples) < 2:
                    ctx.sample({"env": env, "entry": entry, "T": T, "sweep_base_key": list(key), "salt": salt,
                                "episodes": int(len(first)), "both_twins_running_on_step_T": int(reached.sum())})
        else:
            b = envs.bundle(env, entry)
            bound = int(horizon_bound(b, None))
            if not hasattr(b, "_c11_flag"):
                b._c11_flag = lambda s, ts, is_reset, step: ((step == bound) & ~ts.last(), ts.last())

            def one(key, salt):
                with ctx.guard(env, {"kind": "horizon", "env": env, "entry": entry, "key": list(key), "actions": [],
                                     "stage": "sweep"}):
                    first, n, aux, kws, acts = bulk.sweep(b, key, salt, item["episodes"], bound + 1, b._c11_flag)
                ctx.evals(len(first))
                ctx.count("sweep_horizon_episodes", len(first))
                ctx.count(f"sweep_reached_bound_{env}", int((n - 1 >= bound).sum()))
                ctx.nontrivial(env, entry, "hsweep", int(n.max()))
                for e in np.flatnonzero(first >= 0)[:3]:
                    kw = [int(kws[e][0]), int(kws[e][1])]
                    case = {"kind": "horizon", "env": env, "entry": entry, "key": kw,
                            "actions": [np.asarray(a).tolist() for a in acts[e]]}
                    before = sum(f["hits"] for f in ctx.failures.values())
                    with ctx.guard(env, case, size=10**6):
                        res = horizon_episode(b, kw, actions=case["actions"])
                        if not res["ended"] and res["steps"] > res["bound"]:
                            ctx.fail("horizon.exceeded", env, "no LAST within the structural bound",
                                     f"bound={res['bound']} steps played={res['steps']} [entry={entry} key={kw}]", case,
                                     size=len(case["actions"]))
                    ctx.count("sweep_flagged")
                    if sum(f["hits"] for f in ctx.failures.values()) == before:
                        ctx.count("sweep_unconfirmed")
                if len(ctx.samples) < 2:
                    ctx.sample({"env": env, "entry": entry, "bound": bound, "sweep_base_key": list(key), "salt": salt,
                                "episodes": int(len(first)), "longest": int(n.max()) - 1})

        hyp.drive({"key": episodes.keys(), "salt": st.integers(0, 2**20)}, one, seed, item["batches"])
    return ctx.result()


def _resolve_T(item):
    if item["T"] == "none_default":
        b0 = envs.bundle(item["env"], item["entry"], time_limit=None)
        return int(NONE_DEFAULT[item["env"]](b0))
    return int(item["T"])


def run_coincide(item, seed):
    from vf.props import C03 as _c03

    ctx = Ctx(PROPERTY, item)
    env, entry = item["env"], item["entry"]
    with ctx.guard(env, {"env": env, "entry": entry, "stage": "construct", "item": item}):
        big = envs.bundle(env, entry, time_limit=_c03.BIG_T)
        solve_fn = episodes.solve_fn_for(big)
        seen_k = set()

        def one(key, plan):
            st_, ts = big.reset(envs.make_key(key))
            acts, k = [], None
            for i in range(60):
                mode, r = plan["steps"][i % len(plan["steps"])]
                a = episodes.solved_action(big, solve_fn, episodes.host(st_), r) if mode == "solve" else None
                if a is None:
                    a = big.pick_action(st_, ts, "legal" if mode == "solve" else mode, r)
                acts.append(np.asarray(a))
                st_, ts = big.step(st_, a)
                if int(ts.step_type) == episodes.LAST:
                    k = i + 1
                    break
            ctx.count("coincide_attempts")
            if k is None or k >= _c03.BIG_T or (len(seen_k) >= 5 and k not in seen_k):
                return
            seen_k.add(k)
            for T in (k, k + 1):
                b = envs.bundle(env, entry, time_limit=T)
                case = {"kind": "coincide", "env": env, "entry": entry, "T": T, "key": list(key),
                        "actions": [a.tolist() for a in acts]}
                with ctx.guard(env, case, size=10**6):
                    s2, t2 = b.reset(envs.make_key(key))
                    types = []
                    for a in acts:
                        s2, t2 = b.step(s2, a)
                        types.append(int(t2.step_type))
                        if types[-1] == episodes.LAST:
                            break
                    ctx.evals()
                    ctx.nontrivial(env, entry, "coincide", list(key), T)
                    if episodes.LAST not in types:
                        ctx.fail("time_limit.not_last_at_T", env, "no LAST although the game is over and the time limit is reached",
                                 f"time_limit={T}, completion on step {k}: step types {types[-6:]} [entry={entry} key={list(key)}]",
                                 case, size=len(acts))
                    elif types.index(episodes.LAST) + 1 != k:
                        ctx.fail("time_limit.early", env, "LAST before the completion / limit step of the coincidence case",
                                 f"time_limit={T}, completion on step {k}: LAST at step {types.index(episodes.LAST) + 1}", case,
                                 size=len(acts))
            ctx.count("coincide_cases")

        hyp.drive({"key": episodes.keys(),
                   "plan": episodes.plans(max_len=30, min_len=6, styles=("solve", "solveish", "solve", "legal"))},
                  one, seed, item["n"])
    return ctx.result()


def run_item(item, seed, tier):
    if item.get("kind") == "coincide":
        return run_coincide(item, seed)
    if item.get("kind") in ("tsweep", "hsweep"):
        return run_sweep(item, seed)
    ctx = Ctx(PROPERTY, item)
    env, entry = item["env"], item["entry"]
    with ctx.guard(env, {"env": env, "entry": entry, "stage": "construct", "item": item}):
        if item["kind"] == "time":
            T = _resolve_T(item)

            def one(key, plan):
                case = {"kind": "time", "env": env, "entry": entry, "T": T, "T_arg": item["T_arg"],
                        "key": list(key), "actions": [], "extra": item.get("extra")}
                with ctx.guard(env, case, size=10**6):
                    tl, ts_, acts, expl = twin(ctx, env, entry, T, item["T_arg"], key, plan=plan, extra=item.get("extra"))
                    case["actions"] = [a.tolist() for a in acts]
                    fails, survived = judge(env, T, tl, ts_, expl)
                    if expl is not None:
                        ctx.count(f"early_end_{'explained' if expl else 'unexplained'}_{env}")
                    ctx.evals()
                    ctx.count("episodes_time")
                    if survived:
                        ctx.nontrivial(env, entry, T, list(key))
                        ctx.count(f"survived_to_T_{env}")
                    else:
                        ctx.count(f"ended_early_{env}")
                    ctx.sample({"env": env, "entry": entry, "T": T, "key": list(key),
                                "types_env_T": ts_[:12], "types_env_T+5": tl[:12]})
                    for o, s, m in fails:
                        ctx.fail(o, env, s, m + f" [entry={entry} key={list(key)}]", case, size=len(acts))

            hyp.drive({"key": episodes.keys(),
                       "plan": episodes.plans(max_len=24 if not item.get("styles") else max(24, T + 6),
                                              styles=tuple(item.get("styles") or
                                                           ("survive", "legal", "survive", "chaos", "legalish", "solveish")),
                                              min_len=4 if not item.get("styles") else T + 6)},
                      one, seed, item["n"])
        else:
            b = envs.bundle(env, entry)

            def one_h(key, plan):
                case = {"kind": "horizon", "env": env, "entry": entry, "key": list(key), "actions": []}
                with ctx.guard(env, case, size=10**6):
                    res = horizon_episode(b, key, plan=plan)
                    case["actions"] = res["actions"]
                    ctx.evals()
                    ctx.count("episodes_horizon")
                    ctx.count(f"horizon_end_{'last' if res['ended'] else 'bound_exceeded'}")
                    if res["steps"] >= 2:
                        ctx.nontrivial(env, entry, "h", list(key))
                    if res["steps"] == res["bound"]:
                        ctx.count(f"reached_bound_{env}")
                    ctx.sample({"env": env, "entry": entry, "key": list(key), "bound": res["bound"],
                                "first_last_at": res["steps"] if res["ended"] else None})
                    if not res["ended"]:
                        ctx.fail("horizon.exceeded", env, "no LAST within the structural bound",
                                 f"bound={res['bound']} steps played={res['steps']} [entry={entry} key={list(key)}]",
                                 case, size=len(res["actions"]))

            hyp.drive({"key": episodes.keys(),
                       "plan": episodes.plans(max_len=40, styles=("legal", "legalish", "survive", "chaos"), min_len=4)},
                      one_h, seed, item["n"])
    return ctx.result()


def horizon_episode(b, key, plan=None, actions=None):
    st_, ts = b.reset(envs.make_key(key))
    bound = horizon_bound(b, episodes.host(st_))
    acts, ended, i = [], False, 0
    while i < bound + 2:
        if actions is not None:
            if i >= len(actions):
                break
            a = b.to_action(actions[i])
        else:
            mode, r = plan["steps"][i % len(plan["steps"])]
            a = b.pick_action(st_, ts, mode, r + 7919 * (i // len(plan["steps"])))
        acts.append(np.asarray(a).tolist())
        st_, ts = b.step(st_, a)
        i += 1
        if int(ts.step_type) == episodes.LAST:
            ended = i <= bound
            break
    return {"bound": bound, "steps": i, "ended": ended, "actions": acts}


def replay(case):
    ctx = Ctx(PROPERTY, {})
    env, entry = case["env"], case["entry"]
    if case.get("stage") == "construct":
        run = run_item(case["item"], 1, "quick")
        return run["failures"]
    with ctx.guard(env, case):
        if case["kind"] == "coincide":
            b = envs.bundle(env, entry, time_limit=case["T"])
            s2, t2 = b.reset(envs.make_key(case["key"]))
            types = []
            for a in case["actions"]:
                s2, t2 = b.step(s2, b.to_action(a))
                types.append(int(t2.step_type))
                if types[-1] == episodes.LAST:
                    break
            if episodes.LAST not in types:
                ctx.fail("time_limit.not_last_at_T", env, "no LAST although the game is over and the time limit is reached",
                         f"time_limit={case['T']}: step types {types[-6:]}", case)
        elif case["kind"] == "time":
            tl, ts_, acts, expl = twin(ctx, env, entry, case["T"], case["T_arg"], case["key"], actions=case["actions"],
                                       extra=case.get("extra"))
            for o, s, m in judge(env, case["T"], tl, ts_, expl)[0]:
                ctx.fail(o, env, s, m, case)
        else:
            res = horizon_episode(envs.bundle(env, entry), case["key"], actions=case["actions"])
            if not res["ended"] and res["steps"] > res["bound"]:
                ctx.fail("horizon.exceeded", env, "no LAST within the structural bound",
                         f"bound={res['bound']} steps={res['steps']}", case)
    return list(ctx.failures.values())

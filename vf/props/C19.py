"""C19 - pytree helpers satisfy their algebraic laws.

Generated domain: JSON-able *descriptions* of pytrees (structure + per-leaf dtype/shape + values);
the real trees are built from the description inside the check, so a replay file is just the
description.  Oracles are written directly from the statement of the property and use only
`.tolist()` comparisons of Python lists (never jumanji's or numpy's own equality helpers).
"""
from __future__ import annotations

import collections
import functools

import numpy as np

from vf import hyp
from vf.hyp import st
from vf.runner import Ctx

PROPERTY = "C19"
TECHNIQUE = "Hypothesis-generated pytree descriptions; round-trip / frame / reference-predicate oracles"
RULE = ("cases are Hypothesis-drawn pytree descriptions (dict/list/tuple/namedtuple/chex-dataclass "
        "nests, leaves of dtype bool/int8/int16/int32/uint8/float16/float32 and rank 0-3 incl. size 0) "
        "plus stacked real environment states/timesteps; a case is non-trivial when the batch has >= 2 "
        "trees whose values differ and the tree has >= 2 leaves (stack/slice/set), or when the pair "
        "of nests has >= 2 leaves or differs in exactly the mutated leaf (equality helper); distinct by "
        "digest of the description")
ASSUMPTIONS = [
    "NaN leaves are outside the generated domain (reflexivity of element-wise equality is undefined for NaN)",
    "the equality helper is exercised on pairs of identical structure only, as its docstring requires",
    "JAX default 32-bit mode (the configuration the repository's suite runs in)",
]

DTYPES = ["bool", "int8", "int16", "int32", "uint8", "float16", "float32"]
FLOATS = [0.0, 1.0, -1.0, 0.5, 2.0, 3.0, -2.5, 100.0, float("inf"), float("-inf")]


# ------------------------------------------------------------------------------------- strategies
def _leaf():
    return st.fixed_dictionaries({
        "k": st.just("leaf"), "dtype": st.sampled_from(DTYPES),
        "shape": st.lists(st.integers(0, 3), min_size=0, max_size=3),
    })


_names = st.sampled_from(["a", "b", "c", "key", "x1", "obs"])


def _structure(allow_dc: bool):
    kinds = ["dict", "list", "tuple", "nt"] + (["dc"] if allow_dc else [])

    def extend(children):
        named = st.dictionaries(_names, children, min_size=1, max_size=3)
        seq = st.lists(children, min_size=0, max_size=3)
        return st.one_of(
            st.builds(lambda c: {"k": "dict", "c": c}, st.dictionaries(_names, children, max_size=3)),
            st.builds(lambda c: {"k": "list", "c": c}, seq),
            st.builds(lambda c: {"k": "tuple", "c": c}, seq),
            st.builds(lambda c: {"k": "nt", "c": c}, named),
            *( [st.builds(lambda c: {"k": "dc", "c": c}, named)] if allow_dc else [] ),
        )

    del kinds
    return st.recursive(_leaf(), extend, max_leaves=6)


def leaves_of(s):
    if s["k"] == "leaf":
        return [s]
    cs = s["c"].values() if isinstance(s["c"], dict) else s["c"]
    out = []
    for c in (sorted(s["c"].items()) if isinstance(s["c"], dict) else enumerate(cs)):
        out.extend(leaves_of(c[1]))
    return out


def _values_for(draw, leaf):
    n = int(np.prod(leaf["shape"])) if leaf["shape"] else 1
    dt = leaf["dtype"]
    if dt == "bool":
        el = st.booleans()
    elif dt == "uint8":
        el = st.integers(0, 5)
    elif dt.startswith("int"):
        el = st.integers(-3, 3)
    else:
        el = st.sampled_from(FLOATS)
    return draw(st.lists(el, min_size=n, max_size=n))


@st.composite
def batch_case(draw):
    s = draw(_structure(allow_dc=True))
    b = draw(st.integers(1, 8))
    lv = leaves_of(s)
    trees = [[_values_for(draw, lf) for lf in lv] for _ in range(b)]
    elem = [_values_for(draw, lf) for lf in lv]
    i = draw(st.integers(-b, b - 1))     # all indices i, negative ones included (x[i] / .at[i] semantics)
    # "Its leaves are scalars or arrays whose dimension is one less than `tree`": per leaf, the element may also be
    # a scalar (0-d array or Python number) that fills the whole row
    scalar = [draw(st.sampled_from(["full", "full", "full", "scalar0d", "pyscalar"])) for _ in lv]
    # some trees of the list may be one and the same Python object (a state kept from earlier, "there and back"
    # lists): (dst, src) pairs, the pair (last, first) is favoured
    alias = draw(st.lists(st.one_of(st.just((b - 1, 0)), st.tuples(st.integers(0, b - 1), st.integers(0, b - 1))),
                          max_size=2)) if b >= 2 else []
    return {"structure": s, "trees": trees, "element": elem, "index": i, "elem_kind": scalar, "alias": [list(p) for p in alias],
            "index_kind": draw(st.sampled_from(["int", "np", "jnp"]))}


@st.composite
def pair_case(draw):
    s = draw(_structure(allow_dc=False))
    lv = leaves_of(s)
    va = [_values_for(draw, lf) for lf in lv]
    muts = [draw(st.sampled_from(["same"] * 5 + ["tweak", "tiny", "append1", "bcast", "recast", "lossy", "fresh", "none_b", "none_ab", "str_ab", "str_diff", "negzero"]))
            for _ in lv]
    fresh = [_values_for(draw, lf) if m == "fresh" else None for lf, m in zip(lv, muts)]
    pos = [draw(st.integers(0, 1000)) for _ in lv]
    return {"structure": s, "a": va, "mut": muts, "fresh": fresh, "pos": pos,
            "leaf_kind": draw(st.sampled_from(["np", "jnp", "py"]))}


# ------------------------------------------------------------------------------------- builders
@functools.lru_cache(maxsize=None)
def _nt(fields):
    return collections.namedtuple("NT_" + "_".join(fields), fields)


@functools.lru_cache(maxsize=None)
def _dc(fields):
    import chex

    cls = type("DC_" + "_".join(fields), (), {"__annotations__": {f: object for f in fields}})
    return chex.dataclass(cls)


def build(s, leaf_iter, mk):
    k = s["k"]
    if k == "leaf":
        return mk(s, next(leaf_iter))
    if k == "dict":
        return {n: build(c, leaf_iter, mk) for n, c in sorted(s["c"].items())}
    if k == "list":
        return [build(c, leaf_iter, mk) for c in s["c"]]
    if k == "tuple":
        return tuple(build(c, leaf_iter, mk) for c in s["c"])
    names = tuple(sorted(s["c"]))
    vals = {n: build(s["c"][n], leaf_iter, mk) for n in names}
    return _nt(names)(**vals) if k == "nt" else _dc(names)(**vals)


def mk_np(leaf, vals):
    return np.asarray(vals, dtype=leaf["dtype"]).reshape(leaf["shape"])


def mk_jnp(leaf, vals):
    import jax.numpy as jnp

    return jnp.asarray(mk_np(leaf, vals))


def same(a, b) -> bool:
    """Reference equality of two leaves: shape, dtype and elements (Python comparison)."""
    a, b = np.asarray(a), np.asarray(b)
    return a.shape == b.shape and a.dtype == b.dtype and a.tolist() == b.tolist()


# ------------------------------------------------------------------------------------- oracles
def eval_batch(case):
    """-> (failures[(oracle, sig, msg)], nontrivial: bool)"""
    import jax
    import jax.numpy as jnp

    from jumanji import tree_utils

    s, b, i = case["structure"], len(case["trees"]), case["index"]
    idx = {"int": i, "np": np.int32(i), "jnp": jnp.asarray(i, jnp.int32)}[case["index_kind"]]
    ts = [build(s, iter(v), mk_jnp) for v in case["trees"]]
    for dst, src in case.get("alias") or []:
        ts[dst % b] = ts[src % b]        # the same tree object (same leaf objects) at two positions of the list
    kinds = iter(case.get("elem_kind") or [])

    def mk_elem(leaf, vals):
        kind = next(kinds, "full")
        n_el = int(np.prod(leaf["shape"])) if leaf["shape"] else 1
        if kind == "full" or n_el == 0:
            return mk_jnp(leaf, vals)
        v0 = np.asarray(vals[:1], dtype=leaf["dtype"])[0]
        return jnp.asarray(v0) if kind == "scalar0d" else v0.item()

    elem = build(s, iter(case["element"]), mk_elem)
    fails = []
    stacked = tree_utils.tree_transpose(ts)
    ref_leaves = [jax.tree_util.tree_leaves(t) for t in ts]
    sdef = jax.tree_util.tree_structure(ts[0])
    if jax.tree_util.tree_structure(stacked) != sdef:
        fails.append(("transpose.structure", "treedef changed", f"{jax.tree_util.tree_structure(stacked)} vs {sdef}"))
        return fails, False
    for li, lf in enumerate(jax.tree_util.tree_leaves(stacked)):
        want = np.stack([np.asarray(r[li]) for r in ref_leaves], 0)
        if not same(lf, want):
            fails.append(("transpose.leaf", "stacked leaf != np.stack of inputs",
                          f"leaf {li}: got {np.asarray(lf).tolist()} dtype {lf.dtype} want {want.tolist()} {want.dtype}"))
    for j in range(-b, b):
        jdx = j if case["index_kind"] == "int" else jnp.asarray(j, jnp.int32)
        sl = tree_utils.tree_slice(stacked, jdx)
        if jax.tree_util.tree_structure(sl) != sdef:
            fails.append(("slice.structure", "treedef changed", str(jax.tree_util.tree_structure(sl))))
            continue
        for li, lf in enumerate(jax.tree_util.tree_leaves(sl)):
            if not same(lf, ref_leaves[j][li]):
                fails.append(("slice.roundtrip", "slice(transpose(ts), i) != ts[i]",
                              f"i={j} leaf {li}: got {np.asarray(lf).tolist()} want {np.asarray(ref_leaves[j][li]).tolist()}"))
    new = tree_utils.tree_add_element(stacked, idx, elem)
    if jax.tree_util.tree_structure(new) != sdef:
        fails.append(("add.structure", "treedef changed", str(jax.tree_util.tree_structure(new))))
    else:
        el = jax.tree_util.tree_leaves(elem)
        for li, lf in enumerate(jax.tree_util.tree_leaves(new)):
            lf = np.asarray(lf)
            want = np.stack([np.asarray(r[li]) for r in ref_leaves], 0).copy()
            if want.shape[1:] != np.asarray(el[li]).shape and np.asarray(el[li]).shape != ():
                continue
            want[i] = np.asarray(el[li])     # NumPy applies the same (possibly negative) index; a scalar fills the row
            if lf.dtype != want.dtype or lf.shape != want.shape:
                fails.append(("add.dtype_shape", "dtype/shape changed", f"leaf {li}: {lf.dtype}{lf.shape} vs {want.dtype}{want.shape}"))
            elif lf[i].tolist() != want[i].tolist():
                fails.append(("add.target", "index i != element", f"i={i} leaf {li}: got {lf[i].tolist()} want {want[i].tolist()}"))
            elif lf.tolist() != want.tolist():
                fails.append(("add.frame", "an index other than i changed", f"i={i} leaf {li}: got {lf.tolist()} want {want.tolist()}"))
    nleaves = len(ref_leaves[0])
    nontrivial = b >= 2 and nleaves >= 2 and any(case["trees"][0] != t for t in case["trees"][1:])
    return fails, nontrivial


def _mutate(leaf, vals, mut, fresh, pos):
    a = mk_np(leaf, vals)
    if mut == "same" or (a.size == 0 and mut in ("tweak", "tiny", "bcast", "lossy")):
        return a.copy()
    if mut == "fresh":
        return mk_np(leaf, fresh)
    if mut == "negzero":
        # numerically equal, bitwise different: every zero of a float leaf carries the other sign (0.0 == -0.0)
        b = a.copy()
        if np.issubdtype(b.dtype, np.floating):
            b = np.where(a == 0, np.copysign(np.zeros_like(a), -np.copysign(1.0, a)), a).astype(a.dtype)
        return b
    if mut == "tweak" or (mut == "tiny" and not leaf["dtype"].startswith("float")):
        b = a.copy()
        flat = b.reshape(-1)
        p = pos % flat.size
        flat[p] = (not flat[p]) if b.dtype == bool else flat[p] + 1
        return b
    if mut == "tiny":
        b = a.copy()
        flat = b.reshape(-1)
        p = pos % flat.size
        flat[p] = np.nextafter(flat[p], np.asarray(np.inf, b.dtype))
        return b
    if mut == "append1":
        return a.reshape(a.shape + (1,))
    if mut == "bcast":
        return a[:1].copy() if a.ndim >= 1 else a.reshape((1,))
    if mut == "recast":
        return a.astype("float32" if not leaf["dtype"].startswith("float") else "float64")
    if mut == "lossy":
        # same leaf held in a wider dtype, with one element changed by an amount that a cast back to the
        # narrower dtype would erase (fraction / wrap-around / rounding / truthiness): different elements
        p = pos % a.size
        dt = leaf["dtype"]
        if dt == "bool":
            b = a.astype("int8")
            b.reshape(-1)[p] = 2 if a.reshape(-1)[p] else 0
            if not a.reshape(-1)[p]:
                b.reshape(-1)[p] = 0
                q = np.flatnonzero(a.reshape(-1))
                if q.size:
                    b.reshape(-1)[q[0]] = 2
        elif dt in ("uint8", "int8"):
            b = a.astype("int32")
            b.reshape(-1)[p] += 256
        elif dt == "int16":
            b = a.astype("int32")
            b.reshape(-1)[p] += 65536
        elif dt == "int32":
            b = a.astype("float32")
            b.reshape(-1)[p] += 0.5 if a.reshape(-1)[p] >= 0 else -0.5
        else:
            b = a.astype("float64")
            v = b.reshape(-1)[p]
            if np.isfinite(v):       # (an infinite entry stays as it is: inf - inf would be NaN, outside the domain)
                b.reshape(-1)[p] = v + (abs(v) + 1.0) * 2.0 ** -40
        return b
    raise AssertionError(mut)


def eval_pair(case):
    from jumanji.testing import pytrees

    s = case["structure"]
    lv = leaves_of(s)
    conv = {"np": lambda x: x, "jnp": None, "py": lambda x: x.tolist() if x.ndim == 0 else x}[case["leaf_kind"]]
    if conv is None:
        import jax.numpy as jnp

        def conv(x):  # noqa: E731
            return jnp.asarray(x) if x.dtype != np.float64 else x
    # "leaves that we can call np.asarray(leaf) on ... floats, strings, None etc." (module comment of pytrees.py):
    # optional (None) and string leaves are part of the documented domain
    SPECIAL = {"none_b": (False, None), "none_ab": (None, None), "str_ab": ("left", "left"), "str_diff": ("left", "right")}
    la = [mk_np(lf, v) for lf, v in zip(lv, case["a"])]
    lb = [x if m in SPECIAL else _mutate(lf, v, m, f, p)
          for x, lf, v, m, f, p in zip(la, lv, case["a"], case["mut"], case["fresh"], case["pos"])]
    for i, m in enumerate(case["mut"]):
        if m in SPECIAL:
            sa, sb = SPECIAL[m]
            if sa is not False:
                la[i] = sa
            lb[i] = sb
    conv0 = conv
    conv = lambda x: x if (x is None or isinstance(x, str)) else conv0(x)  # noqa: E731
    ita, itb = iter(la), iter(lb)
    ta = build(s, ita, lambda _l, v: conv(v))
    tb = build(s, itb, lambda _l, v: conv(v))

    def leaf_eq(x, y):
        if x is None or y is None or isinstance(x, str) or isinstance(y, str):
            return type(x) is type(y) and x == y
        return x.shape == y.shape and x.tolist() == y.tolist()

    expected = all(leaf_eq(x, y) for x, y in zip(la, lb))
    fails = []

    def call(f, *args):
        try:
            return f(*args), None
        except AssertionError as e:
            return None, e

    ab, _ = call(pytrees.is_equal_pytree, ta, tb)
    ba, _ = call(pytrees.is_equal_pytree, tb, ta)
    aa, _ = call(pytrees.is_equal_pytree, ta, ta)
    bb, _ = call(pytrees.is_equal_pytree, tb, tb)
    if aa is not True or bb is not True:
        fails.append(("equal.reflexive", "is_equal_pytree(t, t) is not True", f"aa={aa} bb={bb}"))
    if ab != ba:
        fails.append(("equal.symmetric", "eq(a,b) != eq(b,a)", f"ab={ab} ba={ba}"))
    if ab is not expected:
        fails.append(("equal.value", "expected %s got %s" % (expected, ab),
                      f"mut={case['mut']} a={[getattr(x, 'tolist', lambda: x)() for x in la]} "
                      f"b={[getattr(y, 'tolist', lambda: y)() for y in lb]}"))
    _, e1 = call(pytrees.assert_trees_are_different, ta, tb)
    if (e1 is not None) != expected:
        fails.append(("assert_different", "raises=%s but trees equal=%s" % (e1 is not None, expected), f"mut={case['mut']}"))
    _, e2 = call(pytrees.assert_trees_are_equal, ta, tb)
    if (e2 is not None) != (not expected):
        fails.append(("assert_equal", "raises=%s but trees equal=%s" % (e2 is not None, expected), f"mut={case['mut']}"))
    nontrivial = len(lv) >= 2 or not expected
    return fails, nontrivial


def eval_env(case):
    """Real environment states / timesteps: stack B of them, slice back, set one element."""
    import jax

    from jumanji import tree_utils
    from vf import envs

    b = envs.bundle(case["env"], case["entry"])
    trees = []
    for kw, acts in zip(case["keys"], case["actions"]):
        st_, ts_ = b.reset(envs.make_key(kw))
        for r in acts:
            a = b.pick_action(st_, ts_, "legal", r)
            st_, ts_ = b.step(st_, a)
        trees.append((st_, ts_))
    fails = []
    stacked = tree_utils.tree_transpose(trees)
    sdef = jax.tree_util.tree_structure(trees[0])
    if jax.tree_util.tree_structure(stacked) != sdef:
        return [("transpose.structure", "treedef changed (env state)", case["env"])], False
    refs = [jax.tree_util.tree_leaves(t) for t in trees]
    for j in range(len(trees)):
        sl = jax.tree_util.tree_leaves(tree_utils.tree_slice(stacked, j))
        for li, lf in enumerate(sl):
            if not same(lf, refs[j][li]):
                fails.append(("slice.roundtrip", "slice(transpose(ts), i) != ts[i] (env state)", f"{case['env']} i={j} leaf {li}"))
    i = case["index"] % len(trees)
    e = trees[case["elem"] % len(trees)]
    new = jax.tree_util.tree_leaves(tree_utils.tree_add_element(stacked, i, e))
    el = jax.tree_util.tree_leaves(e)
    for li, lf in enumerate(new):
        want = np.stack([np.asarray(r[li]) for r in refs], 0).copy()
        want[i] = np.asarray(el[li])
        if not same(lf, want):
            fails.append(("add.frame", "tree_add_element changed more/less than index i (env state)", f"{case['env']} i={i} leaf {li}"))
    return fails, len(trees) >= 2


EVAL = {"batch": eval_batch, "pair": eval_pair, "env": eval_env}

ENV_SET = ["Snake", "Game2048", "BinPack", "Connector", "Maze", "TSP", "JobShop", "LevelBasedForaging"]


def _env_case_strategy(env, entry):
    return st.fixed_dictionaries({
        "env": st.just(env), "entry": st.just(entry),
        "keys": st.lists(st.tuples(st.integers(0, 2**32 - 1), st.integers(0, 2**32 - 1)), min_size=1, max_size=5),
        "index": st.integers(0, 7), "elem": st.integers(0, 7),
    }).flatmap(lambda d: st.lists(st.lists(st.integers(0, 10**6), max_size=6), min_size=len(d["keys"]),
                                  max_size=len(d["keys"])).map(lambda a: {**d, "actions": a}))


def _strategy(item):
    if item["kind"] == "batch":
        return batch_case()
    if item["kind"] == "pair":
        return pair_case()
    return _env_case_strategy(item["env"], item["entry"])


# ------------------------------------------------------------------------------------- plumbing
def work_items(tier, flt):
    scale = flt.get("scale", 1.0)
    n = int((250 if tier == "quick" else 3500) * scale)
    items = []
    for sh in range(7):
        items.append({"kind": "batch", "shard": sh, "n": n, "cost": 2})
        items.append({"kind": "pair", "shard": sh, "n": n, "cost": 1})
    from vf import envs

    for e in ENV_SET:
        if flt.get("env") and e not in flt["env"]:
            continue
        items.append({"kind": "env", "env": e, "entry": envs.quick_entries(e)[0], "shard": 0,
                      "n": max(4, n // 25), "cost": 3})
    if flt.get("env"):
        items = [it for it in items if it["kind"] == "env"]
    return items


def run_item(item, seed, tier):
    ctx = Ctx(PROPERTY, item)
    fn = EVAL[item["kind"]]

    def one(case):
        with ctx.guard(item.get("env", "tree_utils"), {"kind": item["kind"], "args": case, "seed": seed},
                       size=len(repr(case))):
            _one(case)

    def _one(case):
        fails, nontrivial = fn(case)
        ctx.evals()
        ctx.count(f"cases_{item['kind']}")
        if nontrivial:
            ctx.nontrivial(item["kind"], case)
            ctx.count(f"nontrivial_{item['kind']}")
        if item["kind"] == "pair":
            for m in set(case["mut"]):
                ctx.count(f"pair_mut_{m}")
        ctx.sample({"kind": item["kind"], "case": case})
        for oracle, sig, msg in fails:
            ctx.fail(oracle, item.get("env", "tree_utils"), sig, msg,
                     {"kind": item["kind"], "args": case, "seed": seed}, size=len(repr(case)))

    hyp.drive({"case": _strategy(item)}, one, seed, item["n"])
    return ctx.result()


def replay(case):
    fails, _ = EVAL[case["kind"]](case["args"])
    env = case["args"].get("env", "tree_utils") if isinstance(case["args"], dict) else "tree_utils"
    return [{"env": env, "oracle": o, "sig": s, "msg": m} for o, s, m in fails]


def shrink(fl):
    case = fl["case"]
    kind = case["kind"]
    item = {"kind": kind, "env": case["args"].get("env"), "entry": case["args"].get("entry")}

    def pred(case):
        try:
            return any(o == fl["oracle"] and s == fl["sig"] for o, s, _ in EVAL[kind](case)[0])
        except Exception:  # noqa: BLE001
            return False

    best = hyp.minimise({"case": _strategy(item)}, pred, case.get("seed", 1), 300)
    if best is not None:
        fails = [m for o, s, m in EVAL[kind](best["case"])[0] if o == fl["oracle"] and s == fl["sig"]]
        fl = dict(fl, case={"kind": kind, "args": best["case"], "seed": case.get("seed", 1)},
                  msg=fails[0] if fails else fl["msg"])
    return fl

"""C03 - episodes follow the FIRST, MID*, LAST protocol with sane reward and discount."""
from __future__ import annotations

import numpy as np

from vf import envs, episodes, histprop

PROPERTY = "C03"
TECHNIQUE = ("Hypothesis-generated keys x episode plans (incl. steps issued after LAST); protocol monitor "
             "over the whole history")
RULE = ("cases = (env, menu entry, key, plan) continued for up to 4 raw steps after the first LAST; the monitor "
        "checks reset (FIRST, zero reward, unit discount, spec shapes/dtypes) and every step (MID/LAST only, "
        "discount in [0,1], MID => not all-zero, LAST => all-zero, LBF truncation excepted); non-trivial = "
        "histories that contain a LAST; distinct by (env, entry, terminal cause, key, number of post-LAST steps)")
ASSUMPTIONS = [
    "LevelBasedForaging: a LAST step with step_count >= time_limit may carry discount one (documented truncation); "
    "every other LAST step must carry discount zero",
    "nothing is asserted about observation/state contents after LAST",
]


class Mon(episodes.Monitor):
    def __init__(self, b, ctx, shared):
        self.b, self.ctx = b, ctx
        self.rshape = tuple(b.env.reward_spec.shape)
        self.rdtype = np.dtype(b.env.reward_spec.dtype)
        self.dshape = tuple(b.env.discount_spec.shape)
        self.ddtype = np.dtype(b.env.discount_spec.dtype)
        self.saw_last = False
        self.post = 0

    def on_reset(self, rec, st_, ts):
        self.ctx.evals()
        r, d = np.asarray(ts.reward), np.asarray(ts.discount)
        if int(ts.step_type) != episodes.FIRST:
            rec.fail("reset.first", "reset step_type != FIRST", f"step_type={int(ts.step_type)}")
        if r.shape != self.rshape or r.dtype != self.rdtype:
            rec.fail("reset.reward_shape", "reset reward shape/dtype != reward_spec",
                     f"{r.dtype}{r.shape} vs {self.rdtype}{self.rshape}")
        if d.shape != self.dshape or d.dtype != self.ddtype:
            rec.fail("reset.discount_shape", "reset discount shape/dtype != discount_spec",
                     f"{d.dtype}{d.shape} vs {self.ddtype}{self.dshape}")
        if r.size and (r != 0).any():
            rec.fail("reset.reward_zero", "reset reward != 0", f"reward={r.tolist()}")
        if d.size and (d != 1).any():
            rec.fail("reset.discount_one", "reset discount != 1", f"discount={d.tolist()}")

    def on_step(self, rec, t, pst, pts, a, st_, ts, after_last):
        self.ctx.evals()
        phase = "after_last" if after_last else "live"
        stype = int(ts.step_type)
        d = np.asarray(ts.discount).astype(np.float64)
        if stype not in (episodes.MID, episodes.LAST):
            rec.fail(f"step.type.{phase}", "step returned a step_type other than MID/LAST", f"step_type={stype}")
            return
        if d.size and ((d < 0) | (d > 1) | np.isnan(d)).any():
            rec.fail(f"step.discount_range.{phase}", "discount outside [0,1]", f"discount={d.tolist()}")
        if stype == episodes.MID and d.size and (d == 0).all():
            rec.fail(f"step.mid_zero_discount.{phase}", "MID timestep with all-zero discount", f"discount={d.tolist()}")
        if stype == episodes.LAST:
            if after_last:
                self.post += 1
            self.saw_last = True
            zero = (d == 0).all()
            if not zero:
                trunc_ok = False
                if self.b.name == "LevelBasedForaging":
                    tl = int(self.b.env.time_limit)
                    trunc_ok = int(st_.step_count) >= tl
                if not trunc_ok:
                    rec.fail(f"step.last_nonzero_discount.{phase}", "LAST timestep with non-zero discount",
                             f"discount={d.tolist()}")
                else:
                    self.ctx.count("lbf_truncations")
        if after_last:
            self.ctx.count("steps_after_last")


def _per_episode(ctx, b, rec, summ, mon):
    if mon.saw_last:
        ctx.nontrivial(b.name, b.entry, summ["cause"], rec.key_words, mon.post)
        ctx.count(f"last_{b.name}")


def work_items(tier, flt):
    return histprop.work_items(envs.ENV_NAMES, tier, flt, 40, 300,
                               cost={"BinPack": 4, "PacMan": 3, "MMST": 3, "RubiksCube": 2, "Connector": 2})


def run_item(item, seed, tier):
    return histprop.run_item(PROPERTY, item, seed, Mon, max_len=70, after_last=4, per_episode=_per_episode)


def replay(case):
    return histprop.replay(PROPERTY, case, Mon)


def shrink(fl):
    return episodes.shrink_actions(fl, replay)

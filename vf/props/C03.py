"""C03 - episodes follow the FIRST, MID*, LAST protocol with sane reward and discount."""
from __future__ import annotations

import numpy as np

from vf import bulk, envs, episodes, histprop

PROPERTY = "C03"
TECHNIQUE = ("Hypothesis-generated keys x episode plans (incl. steps issued after LAST); protocol monitor "
             "over the whole history")
RULE = ("cases = (env, menu entry, key, plan) continued for up to 4 raw steps after the first LAST; the monitor "
        "checks reset (FIRST, zero reward, unit discount, spec shapes/dtypes) and every step (MID/LAST only, "
        "discount in [0,1], MID => not all-zero, LAST => all-zero, LBF truncation excepted); non-trivial = "
        "histories that contain a LAST; distinct by (env, entry, terminal cause, key, number of post-LAST steps); sweep "
        "batches (counters sweep_*) screen 10^3..3*10^4 scripted-policy episodes per small entry on the device with "
        "the same rules and re-judge flagged episodes with the monitor")
ASSUMPTIONS = [
    "LevelBasedForaging: a LAST step with step_count >= time_limit may carry discount one (documented truncation); "
    "every other LAST step must carry discount zero",
    "nothing is asserted about observation/state contents after LAST",
]


class Mon(episodes.Monitor):
    def __init__(self, b, ctx, shared):
        self.b, self.ctx = b, ctx
        self.rshape = tuple(b.env.reward_spec.shape)
        self.rdtype = np.dtype(b.env.reward_spec.dtype)
        self.dshape = tuple(b.env.discount_spec.shape)
        self.ddtype = np.dtype(b.env.discount_spec.dtype)
        self.saw_last = False
        self.post = 0

    def on_reset(self, rec, st_, ts):
        self.ctx.evals()
        r, d = np.asarray(ts.reward), np.asarray(ts.discount)
        if int(ts.step_type) != episodes.FIRST:
            rec.fail("reset.first", "reset step_type != FIRST", f"step_type={int(ts.step_type)}")
        if r.shape != self.rshape or r.dtype != self.rdtype:
            rec.fail("reset.reward_shape", "reset reward shape/dtype != reward_spec",
                     f"{r.dtype}{r.shape} vs {self.rdtype}{self.rshape}")
        if d.shape != self.dshape or d.dtype != self.ddtype:
            rec.fail("reset.discount_shape", "reset discount shape/dtype != discount_spec",
                     f"{d.dtype}{d.shape} vs {self.ddtype}{self.dshape}")
        if r.size and (r != 0).any():
            rec.fail("reset.reward_zero", "reset reward != 0", f"reward={r.tolist()}")
        if d.size and (d != 1).any():
            rec.fail("reset.discount_one", "reset discount != 1", f"discount={d.tolist()}")

    def on_step(self, rec, t, pst, pts, a, st_, ts, after_last):
        self.ctx.evals()
        phase = "after_last" if after_last else "live"
        stype = int(ts.step_type)
        d = np.asarray(ts.discount).astype(np.float64)
        if stype not in (episodes.MID, episodes.LAST):
            rec.fail(f"step.type.{phase}", "step returned a step_type other than MID/LAST", f"step_type={stype}")
            return
        if d.size and ((d < 0) | (d > 1) | np.isnan(d)).any():
            rec.fail(f"step.discount_range.{phase}", "discount outside [0,1]", f"discount={d.tolist()}")
        if stype == episodes.MID and d.size and (d == 0).all():
            rec.fail(f"step.mid_zero_discount.{phase}", "MID timestep with all-zero discount", f"discount={d.tolist()}")
        if stype == episodes.LAST:
            if after_last:
                self.post += 1
            self.saw_last = True
            zero = (d == 0).all()
            if not zero:
                trunc_ok = False
                if self.b.name == "LevelBasedForaging":
                    # truncation = the time limit cuts an *unfinished* episode; once all food is eaten the episode
                    # is over for good (the env's own comment: "terminate truncate -> termination")
                    tl = int(self.b.env.time_limit)
                    trunc_ok = int(st_.step_count) >= tl and not bool(np.asarray(st_.food_items.eaten).all())
                if not trunc_ok:
                    rec.fail(f"step.last_nonzero_discount.{phase}", "LAST timestep with non-zero discount",
                             f"discount={d.tolist()}")
                else:
                    self.ctx.count("lbf_truncations")
        if after_last:
            self.ctx.count("steps_after_last")


def _per_episode(ctx, b, rec, summ, mon):
    if mon.saw_last:
        ctx.nontrivial(b.name, b.entry, summ["cause"], rec.key_words, mon.post)
        ctx.count(f"last_{b.name}")


# Coincidence cases: a constructive episode (the model's solver) is first played under a generous time limit; if it
# ends by completion on step k, the same key and actions are replayed in the same configuration with time_limit = k, so
# that "the game is over" and "the time limit is reached" hold on one and the same step.
COINCIDE = {
    "LevelBasedForaging": ["g6a2f2v2l2cVNp0t100", "g5a3f1v5l2nVNp0t40"], "Sokoban": ["simplet120"],
    "RubiksCube": ["n2s1t3", "n3s1t3"], "SlidingTilePuzzle": ["g2m1t3s", "g3m50t7d"], "Maze": ["r5c5t7", "r4c7tNone"],
    "Connector": ["g5a2t7rw"], "MMST": ["n12e18a2k3t7"], "Snake": ["r2c2t4000", "r2c3t40"], "Cleaner": ["r3c3a2tNone"],
}
BIG_T = 150


def work_items(tier, flt):
    items = histprop.work_items(envs.ENV_NAMES, tier, flt, 40, 300,
                                cost={"BinPack": 4, "PacMan": 3, "MMST": 3, "RubiksCube": 2, "Connector": 2})
    scale = (flt or {}).get("scale", 1.0)
    for env in envs.select_envs(list(COINCIDE), flt):
        es = COINCIDE[env][:1] if tier == "quick" else COINCIDE[env]
        if flt and flt.get("entry"):
            es = [e for e in COINCIDE[env] if e in flt["entry"]]
        for e in es:
            items.append({"env": env, "entry": e, "kind": "coincide", "n": max(2, int((8 if tier == "quick" else 40) * scale)),
                          "cost": 3})
    items.extend(bulk.sweep_items(tier, flt))
    return items


def _sweep_flag(b):
    """Device-side version of Mon for the bulk sweeps (vf/bulk.py); flagged episodes are replayed under Mon."""
    import jax.numpy as jnp

    tl = int(b.env.time_limit) if b.name == "LevelBasedForaging" else None

    def flag(s, ts, is_reset, step):
        d = jnp.asarray(ts.discount).astype(jnp.float32).reshape(-1)
        r = jnp.asarray(ts.reward).reshape(-1)
        if is_reset:
            return (ts.step_type != episodes.FIRST) | jnp.any(r != 0) | jnp.any(d != 1), jnp.asarray(False)
        last = ts.step_type == episodes.LAST
        bad = (ts.step_type != episodes.MID) & ~last
        bad = bad | jnp.any((d < 0) | (d > 1) | jnp.isnan(d))
        bad = bad | ((ts.step_type == episodes.MID) & jnp.all(d == 0))
        nonzero_last = last & ~jnp.all(d == 0)
        if tl is not None:
            nonzero_last = nonzero_last & ~((s.step_count >= tl) & ~jnp.all(s.food_items.eaten))
        return bad | nonzero_last, last

    return flag


def run_sweep(item, seed):
    from hypothesis import strategies as st

    from vf import hyp
    from vf.runner import Ctx

    ctx = Ctx(PROPERTY, item)
    with ctx.guard(item["env"], {"env": item["env"], "entry": item["entry"], "stage": "construct"}):
        b = envs.bundle(item["env"], item["entry"])
        if not hasattr(b, "_c03_flag"):
            b._c03_flag = _sweep_flag(b)

        def one(key, salt):
            with ctx.guard(b.name, {"env": b.name, "entry": b.entry, "overrides": {}, "key": list(key), "actions": [],
                                    "stage": "sweep", "salt": salt}):
                first, n, aux, kws, acts = bulk.sweep(b, key, salt, item["episodes"], item["steps"], b._c03_flag,
                                                      item.get("policy", "legal_hash"))
            ctx.evals(int(n.sum()))
            ctx.count("sweep_episodes", len(n))
            ctx.count("sweep_timesteps", int(n.sum()))
            ctx.count("sweep_episodes_with_last", int(aux.sum()))
            ctx.nontrivial(b.name, b.entry, "sweep", int(n.max()), int(aux.sum()))
            for e in np.flatnonzero(first >= 0)[:3]:
                rec = episodes.Recorder(ctx, b, [int(kws[e][0]), int(kws[e][1])])
                before = sum(f["hits"] for f in ctx.failures.values())
                with ctx.guard(b.name, rec.case(), size=10**6):
                    episodes.run_actions(b, rec, [np.asarray(a).tolist() for a in acts[e][: int(first[e])]],
                                         Mon(b, ctx, None))
                ctx.count("sweep_flagged")
                if sum(f["hits"] for f in ctx.failures.values()) == before:
                    ctx.count("sweep_unconfirmed")
            if len(ctx.samples) < 2:
                ctx.sample({"env": b.name, "entry": b.entry, "sweep_base_key": list(key), "salt": salt,
                            "episodes": int(len(n)), "timesteps": int(n.sum()), "longest": int(n.max()),
                            "episodes_with_last": int(aux.sum())})

        hyp.drive({"key": episodes.keys(), "salt": st.integers(0, 2**20)}, one, seed, item["batches"])
    return ctx.result()


def run_coincide(item, seed):
    from vf import hyp
    from vf.runner import Ctx

    ctx = Ctx(PROPERTY, item)
    env, entry = item["env"], item["entry"]
    with ctx.guard(env, {"env": env, "entry": entry, "stage": "construct"}):
        big = envs.bundle(env, entry, time_limit=BIG_T)
        solve_fn = episodes.solve_fn_for(big)
        seen_k = set()

        def one(key, plan):
            # 1. constructive episode under the generous limit
            st_, ts = big.reset(envs.make_key(key))
            acts, k = [], None
            for i in range(60):
                mode, r = plan["steps"][i % len(plan["steps"])]
                a = episodes.solved_action(big, solve_fn, episodes.host(st_), r) if mode == "solve" else None
                if a is None:
                    a = big.pick_action(st_, ts, "legal" if mode == "solve" else mode, r)
                acts.append(np.asarray(a))
                st_, ts = big.step(st_, a)
                if int(ts.step_type) == episodes.LAST:
                    k = i + 1
                    break
            ctx.count("coincide_attempts")
            if k is None or k >= BIG_T or (len(seen_k) >= 6 and k not in seen_k):
                ctx.count("coincide_no_completion" if k is None else "coincide_skipped")
                return
            seen_k.add(k)
            # 2. the same key and actions with time_limit = k: both reasons coincide on step k
            b = envs.bundle(env, entry, time_limit=k)
            rec = episodes.Recorder(ctx, b, key)
            mon = Mon(b, ctx, None)
            with ctx.guard(env, rec.case(), size=10**6):
                episodes.run_actions(b, rec, acts + acts[-1:] * 2, mon)
            ctx.count("coincide_cases")
            ctx.nontrivial(env, entry, "coincide", list(key), k)
            if len(ctx.samples) < 2:
                ctx.sample({"env": env, "entry": entry, "key": list(key), "completion_step_and_time_limit": k,
                            "actions": [a.tolist() for a in acts[:12]]})

        hyp.drive({"key": episodes.keys(),
                   "plan": episodes.plans(max_len=30, min_len=6, styles=("solve", "solveish", "solve", "legal"))},
                  one, seed, item["n"])
    return ctx.result()


def run_item(item, seed, tier):
    if item.get("kind") == "coincide":
        return run_coincide(item, seed)
    if item.get("kind") == "sweep":
        return run_sweep(item, seed)
    return histprop.run_item(PROPERTY, item, seed, Mon, max_len=70, after_last=4, per_episode=_per_episode)


def replay(case):
    return histprop.replay(PROPERTY, case, Mon)


def shrink(fl):
    return episodes.shrink_actions(fl, replay)

"""C17 - permutation puzzles (RubiksCube, SlidingTilePuzzle) obey their group laws and stay solvable.

Oracles are the independent models `vf.models.cube` (geometric: stickers as (cell centre, normal)
in R^3, a move rotates one slab) and `vf.models.sliding` (blank-swap model + parity invariant),
both written from the documentation.  Every check is a deterministic function of a JSON-able
*case*; work items either enumerate a finite domain completely (all moves / all move pairs of a
cube size, the whole reachable state space of the 2x2 and 3x3 sliding puzzles) or let Hypothesis
generate cases (keys, scramble configurations, action sequences, perturbations).  Failures are
collected through `Ctx.fail`, never raised.
"""
from __future__ import annotations

import types

import numpy as np

from vf import hyp
from vf.hyp import st
from vf.models import cube as cm
from vf.models import sliding as sm
from vf.runner import Ctx

PROPERTY = "C17"
TECHNIQUE = ("exhaustive enumeration of cube move tables / move pairs and of the 2x2 and 3x3 sliding "
             "state spaces against independent reference models; Hypothesis-generated keys, scramble "
             "configurations, action sequences and sticker perturbations through the jitted env")
RULE = ("cube: one digest per enumerated (size, move), (size, ordered move pair) and per generated "
        "(size, scrambles, key, action sequence, mode) episode with >= 1 step; every cube move is a "
        "non-identity permutation so every such case exercises the oracle.  sliding: one digest per "
        "state of the 2x2 space, one per (depth, batch) chunk of the 3x3 breadth-first enumeration "
        "(the state/transition totals are in the counters), one per generated random walk with >= 1 "
        "step and per generator batch (grid, num_random_moves, base key)")
ASSUMPTIONS = [
    "cube frame: +x = RIGHT, +y = UP, +z = FRONT (right-handed, FRONT towards the holder); clockwise "
    "'when looking directly at the face' = -90 degrees about the outward normal",
    "cube action = (face, depth, amount) with amount 0 = clockwise, 1 = anticlockwise, 2 = half turn and "
    "flat index = position in the face-major, then depth, then amount sequence (utils docstrings)",
    "sliding: 'up' = towards the first printed row (row - 1), 'right' = column + 1; a move off the board "
    "is ignored; goal = 1..n^2-1 in reading order with the hole last",
    "the solved test must reject every sticker array with a non-uniform face, also recolourings that are not reachable by "
    "moves (single stickers; pairs that keep a face's sum or xor): 'accepts exactly the goal configuration'",
    "termination / sparse reward are checked as functions of the returned state only "
    "(done = solved or step_count >= time_limit), also on steps taken after an episode has ended",
    "the scramble sequence is taken from ScramblingGenerator.generate_actions_for_scramble with the "
    "key split as in Generator.__call__, and only when state.key confirms that split",
    "JAX default 32-bit mode",
]

CUBE = "RubiksCube"
SLIDE = "SlidingTilePuzzle"
LAST = 2


# ================================================================================== cube: kits
_CUBE_KITS: dict = {}
_SLIDE_KITS: dict = {}


def cube_kit(n: int, s: int, t: int):
    key = (n, s, t)
    if key not in _CUBE_KITS:
        import jax
        import jax.numpy as jnp

        from jumanji.environments.logic.rubiks_cube import utils
        from jumanji.environments.logic.rubiks_cube.env import RubiksCube
        from jumanji.environments.logic.rubiks_cube.generator import ScramblingGenerator
        from jumanji.environments.logic.rubiks_cube.types import State

        env = RubiksCube(generator=ScramblingGenerator(cube_size=n, num_scrambles_on_reset=s),
                         time_limit=t)
        k = types.SimpleNamespace(
            n=n, s=s, t=t, env=env, utils=utils, State=State,
            reset=jax.jit(env.reset), step=jax.jit(env.step),
            is_solved=jax.jit(utils.is_solved),
            is_solved_batch=jax.jit(jax.vmap(utils.is_solved)),
            rotate=jax.jit(utils.rotate_cube),
            scramble=jax.jit(env.generator.generate_actions_for_scramble),
        )

        def mkstate(cube, dtype=jnp.int32):
            return State(cube=jnp.asarray(np.asarray(cube), dtype), step_count=jnp.asarray(0, jnp.int32),
                         key=jnp.zeros((2,), jnp.uint32))

        def real(cube, action):
            """The move as env.step performs it, on an arbitrary int32 sticker array."""
            ns, _ = k.step(mkstate(cube), jnp.asarray(list(action), jnp.int32))
            return np.asarray(ns.cube).astype(np.int64)

        k.mkstate, k.real = mkstate, real
        _CUBE_KITS[key] = k
    return _CUBE_KITS[key]


def _aname(a):
    return f"{cm.FACE_NAMES[a[0]]}/d{a[1]}/{cm.AMOUNT_NAMES[a[2]]}"


# ================================================================================== cube: evals
def eval_cube_table(case):
    """Encodings: flat <-> (face, depth, amount) mutually inverse for every action, consistent
    with action_spec.num_values and with the list of move functions."""
    import jax.numpy as jnp

    n = case["n"]
    k = cube_kit(n, 0, 200)
    fails = []
    nv = np.asarray(k.env.action_spec.num_values).tolist()
    want_nv = [6, n // 2, 3]
    if nv != want_nv:
        fails.append(("encoding.num_values", "action_spec.num_values",
                      f"n={n}: num_values {nv}, documented (faces, depths, directions) {want_nv}"))
    total = int(np.prod(nv))
    moves = k.utils.generate_all_moves(n)
    if len(moves) != cm.num_actions(n) or total != cm.num_actions(n):
        fails.append(("encoding.count", "number of moves",
                      f"n={n}: {len(moves)} move functions, prod(num_values)={total}, 18*floor(n/2)={cm.num_actions(n)}"))
    flats = []
    for idx, a in enumerate(cm.all_actions(n)):
        fr = int(k.utils.flatten_action(jnp.asarray(list(a), jnp.int32), n))
        ur = tuple(int(x) for x in np.asarray(k.utils.unflatten_action(jnp.asarray(idx, jnp.int32), n)))
        ufr = tuple(int(x) for x in np.asarray(k.utils.unflatten_action(jnp.asarray(fr, jnp.int32), n)))
        flats.append(fr)
        if fr != idx:
            fails.append(("encoding.flatten", "flatten != documented index",
                          f"n={n}: flatten{a} = {fr}, position in the documented sequence {idx}"))
        if ur != a:
            fails.append(("encoding.unflatten", "unflatten != documented triple",
                          f"n={n}: unflatten({idx}) = {ur}, documented {a}"))
        if ufr != a:
            fails.append(("encoding.roundtrip", "unflatten(flatten(a)) != a", f"n={n}: a={a} flat={fr} back={ufr}"))
        if not (0 <= fr < total):
            fails.append(("encoding.range", "flat index outside [0, prod(num_values))", f"n={n}: a={a} flat={fr}"))
    if sorted(flats) != list(range(cm.num_actions(n))):
        fails.append(("encoding.bijection", "flatten is not a bijection onto range(num_actions)",
                      f"n={n}: sorted flats {sorted(flats)[:40]}"))
    # the inverse law on whole batches of flat indices: whatever unflatten_action returns for a batch, flatten_action
    # maps it back (batch sizes 1..6 and the full move list; windows sliding over the index range)
    nb = 0
    for B in (1, 2, 3, 4, 5, 6, total):
        for start in range(0, max(1, total - B + 1), max(1, B)):
            x = np.arange(start, start + B, dtype=np.int32) % total
            back = np.asarray(k.utils.flatten_action(k.utils.unflatten_action(jnp.asarray(x), n), n)).reshape(-1)
            nb += 1
            if back.tolist() != x.tolist():
                fails.append(("encoding.roundtrip_batch", "flatten(unflatten(batch)) != batch",
                              f"n={n}: batch {x.tolist()} came back as {back.tolist()}"))
                break
    return fails, {"evals": 4 * cm.num_actions(n) + 3 + nb}


def eval_cube_move(case):
    """One action on cubes with all-distinct stickers: permutation == geometric model; group laws."""
    import jax.numpy as jnp

    n = case["n"]
    a = tuple(int(x) for x in case["action"])
    k = cube_kit(n, 0, 200)
    src = cm.move_perm(n, *a)
    size = 6 * n * n
    fails = []
    lab = cm.labelled(n)
    rev = size - 1 - lab
    got = k.real(lab, a)
    tag = f"n={n} {_aname(a)}"
    if got.reshape(-1).tolist() != lab.reshape(-1)[src].tolist():
        bad = np.flatnonzero(got.reshape(-1) != lab.reshape(-1)[src])
        fails.append(("move.model", "env.step permutation != geometric model",
                      f"{tag}: {bad.size} sticker positions differ, first (face,row,col) "
                      f"{[tuple(int(v) for v in np.unravel_index(int(b), (6, n, n))) for b in bad[:4]]}; "
                      f"got sources {got.reshape(-1)[bad[:4]].tolist()} model {src[bad[:4]].tolist()}"))
    got_rev = k.real(rev, a)
    if got_rev.reshape(-1).tolist() != rev.reshape(-1)[got.reshape(-1)].tolist():
        fails.append(("move.state_independent", "permutation depends on the sticker values",
                      f"{tag}: relabelled cube moved differently"))
    if sorted(got.reshape(-1).tolist()) != list(range(size)):
        fails.append(("move.multiset", "multiset of stickers not conserved", f"{tag}"))
    flat = cm.flatten(n, a)
    rot = np.asarray(k.rotate(jnp.asarray(lab, jnp.int32), jnp.asarray(flat, jnp.int32))).astype(np.int64)
    if rot.reshape(-1).tolist() != lab.reshape(-1)[src].tolist():
        fails.append(("move.rotate_cube", "rotate_cube(flat) != geometric model of the documented triple",
                      f"{tag}: flat={flat}"))
    back = k.real(got, cm.inverse_action(a))
    if back.tolist() != lab.tolist():
        fails.append(("law.inverse", "move followed by its inverse is not the identity",
                      f"{tag} then {_aname(cm.inverse_action(a))}"))
    if a[2] == 2:
        cw = (a[0], a[1], 0)
        ccw = (a[0], a[1], 1)
        if k.real(k.real(lab, cw), cw).tolist() != got.tolist():
            fails.append(("law.half", "half turn != two clockwise quarter turns", tag))
        if k.real(k.real(lab, ccw), ccw).tolist() != got.tolist():
            fails.append(("law.half", "half turn != two anticlockwise quarter turns", tag))
    else:
        c = got
        for _ in range(3):
            c = k.real(c, a)
        if c.tolist() != lab.tolist():
            fails.append(("law.order4", "four quarter turns do not restore the cube", tag))
    return fails, {"evals": 7}


def eval_cube_pair(case, first=None):
    n = case["n"]
    a = tuple(int(x) for x in case["a"])
    b = tuple(int(x) for x in case["b"])
    k = cube_kit(n, 0, 200)
    lab = cm.labelled(n)
    if first is None:
        first = k.real(lab, a)
    got = k.real(first, b)
    want = lab.reshape(-1)[cm.move_perm(n, *a)][cm.move_perm(n, *b)]
    fails = []
    if got.reshape(-1).tolist() != want.tolist():
        fails.append(("pair.model", "composition of two moves != composition of the model permutations",
                      f"n={n}: {_aname(a)} then {_aname(b)}"))
    return fails, {"evals": 1}


def eval_cube_perturb(case):
    """is_solved on the cube `base` (solved cube after the model moves `moves`) and on ALL its
    single-sticker recolourings."""
    import jax.numpy as jnp

    n = case["n"]
    k = cube_kit(n, 0, 200)
    base = cm.apply_seq(cm.solved(n), [tuple(m) for m in case["moves"]])
    size = 6 * n * n
    variants = [base]
    for idx in range(size):
        for delta in range(1, 6):
            p = base.copy()
            p.reshape(-1)[idx] = (p.reshape(-1)[idx] + delta) % 6
            variants.append(p)
    names = [None] * len(variants)
    # two-sticker recolourings of one face that keep aggregate statistics of the face (sum / mean: +d and -d;
    # xor / parity / count-of-distinct-pairs: both stickers to the same other colour): a solved test that looks
    # at an aggregate instead of every sticker accepts them
    for f in range(6):
        face = base[f].reshape(-1)
        cells = [(i, j) for i in range(n * n) for j in range(i + 1, n * n)]
        if len(cells) > 400:
            cells = cells[:: max(1, len(cells) // 400)]
        for i, j in cells:
            ci, cj = int(face[i]), int(face[j])
            for d in (1, 2):
                if ci + d <= 5 and cj - d >= 0:
                    p = base.copy()
                    p[f].reshape(-1)[i], p[f].reshape(-1)[j] = ci + d, cj - d
                    variants.append(p)
                    names.append(f"face {f}: stickers {i} and {j} recoloured +{d} / -{d}")
            other = (ci + 1) % 6
            p = base.copy()
            p[f].reshape(-1)[i] = other
            p[f].reshape(-1)[j] = other
            variants.append(p)
            names.append(f"face {f}: stickers {i} and {j} both recoloured to {other}")
    arr = np.stack(variants, 0)
    got = np.asarray(k.is_solved_batch(jnp.asarray(arr, jnp.int8))).astype(bool)
    fails = []
    nbad = 0
    for i, v in enumerate(variants):
        want = cm.is_face_uniform(v)
        if bool(got[i]) != want:
            nbad += 1
            if nbad == 1:
                what = "base cube" if i == 0 else names[i] if names[i] else \
                    f"sticker {tuple(int(x) for x in np.unravel_index((i - 1) // 5, (6, n, n)))} recoloured +{(i - 1) % 5 + 1}"
                fails.append(("is_solved.perturbed" if i else "is_solved",
                              "accepts a non-uniform cube" if got[i] else "rejects a face-uniform cube",
                              f"n={n} moves={case['moves']}: {what}: is_solved={bool(got[i])}, face-uniform={want}"))
    return fails, {"evals": len(variants), "solved_base": int(cm.is_face_uniform(base))}


def _cube_scramble(k, key):
    """The generator's own scramble sequence for reset(key), or None if it cannot be identified."""
    import jax

    ks = jax.random.split(key)
    seq = np.asarray(k.scramble(ks[1])).astype(np.int64).tolist()
    return ks[0], seq


def eval_cube_env(case):
    """Reset + play through the jitted env, compared step by step with the model."""
    import jax.numpy as jnp

    from vf import envs

    n, s, t = case["n"], case["s"], case["t"]
    k = cube_kit(n, s, t)
    key = envs.make_key(case["key"])
    fails = []
    info = {"evals": 0, "steps": 0, "solved_seen": 0, "unsolved_seen": 0, "perturb": 0}
    tag = f"n={n} s={s} t={t} key={list(case['key'])}"

    def fail(o, sig, msg):
        fails.append((o, sig, f"{tag}: {msg}"))

    state, ts = k.reset(key)
    cube = np.asarray(state.cube)
    # ---- reset: reachable from the goal
    info["evals"] += 1
    if cube.shape != (6, n, n) or not cm.colour_multiset_ok(cube):
        fail("reset.multiset", "reset cube is not 6 colours x n^2 stickers",
             f"shape {cube.shape}, counts {np.bincount(cube.reshape(-1).astype(np.int64) % 256, minlength=6).tolist()}")
    k0, seq = _cube_scramble(k, key)
    scr = None
    if np.asarray(state.key).tolist() == np.asarray(k0).tolist():
        info["scramble_seq_known"] = 1
        if len(seq) != s:
            fail("reset.scramble_len", "scramble sequence length != num_scrambles_on_reset", f"{len(seq)} vs {s}")
        if any(not (0 <= x < cm.num_actions(n)) for x in seq):
            fail("reset.scramble_range", "scramble contains an index that is not a flat action",
                 f"sequence {seq[:20]} valid range [0, {cm.num_actions(n)})")
        else:
            scr = [cm.unflatten(n, x) for x in seq]
            want = cm.apply_seq(cm.solved(n), scr)
            info["evals"] += 1
            if cube.tolist() != want.tolist():
                fail("reset.model", "reset cube != solved cube moved along the generator's scramble (model)",
                     f"scramble {seq[:20]}: {int((cube != want).sum())} stickers differ")
    else:
        info["scramble_seq_unknown"] = 1
    if n <= 3 and s <= 3 and cube.shape == (6, n, n):
        info["evals"] += 1
        info["bruteforce"] = 1
        dist = cm.distance_to_solved(cube, s)
        if dist is None:
            fail("reset.reachable", "reset cube is not within num_scrambles model moves of the solved cube",
                 f"cube {cube.reshape(-1).tolist()}")
        else:
            info[f"bf_dist_{dist}"] = 1
    # ---- plan
    base = [tuple(int(x) for x in a) for a in case["actions"]]
    mode = case["mode"]
    plan = list(base)
    if mode in ("undo", "solve"):
        plan += [cm.inverse_action(a) for a in reversed(base)]
    if mode == "solve" and scr is not None:
        plan += [cm.inverse_action(a) for a in reversed(scr)]
    visited = [(cube, "reset")]
    mc = cube.astype(np.int64)
    for i, a in enumerate(plan):
        state, ts = k.step(state, jnp.asarray(list(a), jnp.int32))
        ec = np.asarray(state.cube)
        mc = cm.apply(mc, a)
        info["evals"] += 3
        info["steps"] += 1
        if ec.tolist() != mc.tolist():
            fail("step.model", "env.step cube != model", f"step {i} action {_aname(a)}: {int((ec != mc).sum())} stickers differ")
            mc = ec.astype(np.int64)
        uniform = cm.is_face_uniform(ec)
        info["solved_seen" if uniform else "unsolved_seen"] += 1
        exp_last = uniform or (i + 1 >= t)
        if (int(ts.step_type) == LAST) != exp_last:
            fail("step.termination", f"termination={int(ts.step_type) == LAST} but face-uniform={uniform}",
                 f"step {i + 1} (time limit {t}) after {_aname(a)}")
        if float(ts.reward) != (1.0 if uniform else 0.0):
            fail("step.reward", f"reward={float(ts.reward)} but face-uniform={uniform}", f"step {i + 1}")
        if uniform or i == len(plan) - 1:
            visited.append((ec, f"step{i + 1}"))
    if mode == "solve" and scr is not None and plan:
        info["evals"] += 1
        info["solve_runs"] = 1
        if np.asarray(state.cube).tolist() != cm.solved(n).tolist():
            fail("solve.goal", "undoing the play and the scramble does not give back the solved cube", f"plan length {len(plan)}")
    # ---- solved test on visited cubes and on their single-sticker perturbations
    for cb, where in visited[:6]:
        info["evals"] += 1
        want = cm.is_face_uniform(cb)
        got = bool(k.is_solved(jnp.asarray(cb, jnp.int8)))
        if got != want:
            fail("is_solved", "accepts a non-uniform cube" if got else "rejects a face-uniform cube", f"at {where}")
        for idx, delta in case["perturb"]:
            p = np.array(cb)
            j = int(idx) % p.size
            p.reshape(-1)[j] = (int(p.reshape(-1)[j]) + int(delta)) % 6
            want = cm.is_face_uniform(p)
            got = bool(k.is_solved(jnp.asarray(p, jnp.int8)))
            info["evals"] += 1
            info["perturb"] += 1
            if got != want:
                fail("is_solved.perturbed", "accepts a non-uniform cube" if got else "rejects a face-uniform cube",
                     f"at {where}, sticker {tuple(int(x) for x in np.unravel_index(j, p.shape))} recoloured")
    info["plan_len"] = len(plan)
    return fails, info


# ================================================================================== sliding: kits
def slide_kit(n: int, m: int, t: int, reward: str):
    key = (n, m, t, reward)
    if key not in _SLIDE_KITS:
        import jax
        import jax.numpy as jnp

        from jumanji.environments.logic.sliding_tile_puzzle.env import SlidingTilePuzzle
        from jumanji.environments.logic.sliding_tile_puzzle.generator import RandomWalkGenerator
        from jumanji.environments.logic.sliding_tile_puzzle.reward import DenseRewardFn, SparseRewardFn
        from jumanji.environments.logic.sliding_tile_puzzle.types import State

        env = SlidingTilePuzzle(generator=RandomWalkGenerator(grid_size=n, num_random_moves=m),
                                reward_fn=SparseRewardFn() if reward == "sparse" else DenseRewardFn(),
                                time_limit=t)
        opp = jnp.asarray([sm.OPPOSITE[a] for a in range(4)], jnp.int32)

        def mkstates(p, b):
            bsz = p.shape[0]
            return State(puzzle=p, empty_tile_position=b, key=jnp.zeros((bsz, 2), jnp.uint32),
                         step_count=jnp.zeros((bsz,), jnp.int32))

        def expand(p, b):
            """All 4 actions from every state of the batch, then the opposite action from each
            successor.  Everything goes through env.step."""
            s0 = mkstates(p, b)
            acts = jnp.arange(4, dtype=jnp.int32)
            ns, ts = jax.vmap(jax.vmap(env.step, in_axes=(None, 0)), in_axes=(0, None))(s0, acts)
            bs, _ = jax.vmap(jax.vmap(env.step, in_axes=(0, 0)), in_axes=(0, None))(ns, opp)
            return (ns.puzzle, ns.empty_tile_position, ts.step_type, ts.reward,
                    ts.observation.action_mask, bs.puzzle, bs.empty_tile_position)

        k = types.SimpleNamespace(
            n=n, m=m, t=t, reward=reward, env=env, State=State,
            reset=jax.jit(env.reset), step=jax.jit(env.step), expand=jax.jit(expand),
            gen_batch=jax.jit(jax.vmap(env.generator)), reset_batch=jax.jit(jax.vmap(env.reset)),
        )

        def one(board, blank, action):
            s0 = State(puzzle=jnp.asarray(np.asarray(board), jnp.int32),
                       empty_tile_position=jnp.asarray(list(blank), jnp.int32),
                       key=jnp.zeros((2,), jnp.uint32), step_count=jnp.asarray(0, jnp.int32))
            return k.step(s0, jnp.asarray(int(action), jnp.int32))

        k.one = one
        _SLIDE_KITS[key] = k
    return _SLIDE_KITS[key]


# ================================================================================== sliding: evals
def _check_transition(n, board, blank, a, nb, nblank, step_type, reward, mask, sparse, step_no, t, tag):
    """Scalar oracle for one env transition (board, blank) --a--> (nb, nblank, ...).  Returns
    (fails, moved_env)."""
    fails = []
    wb, wblank, moved = sm.step(board, a)
    nb = np.asarray(nb)
    nblank = tuple(int(x) for x in np.asarray(nblank))
    if nb.tolist() != wb.tolist() or nblank != tuple(wblank):
        fails.append(("slide.model", "env.step != blank-swap model",
                      f"{tag}: board {np.asarray(board).tolist()} action {sm.ACTION_NAMES[a]}: "
                      f"env {nb.tolist()} blank {nblank}; model {wb.tolist()} blank {tuple(wblank)}"))
    is_goal = nb.tolist() == sm.goal(n).tolist()
    exp_last = is_goal or step_no >= t
    if (int(step_type) == LAST) != exp_last:
        fails.append(("slide.done", f"termination={int(step_type) == LAST} but board==goal is {is_goal}",
                      f"{tag}: board after move {nb.tolist()} (step {step_no}, time limit {t})"))
    if sparse and float(reward) != (1.0 if is_goal else 0.0):
        fails.append(("slide.sparse_reward", f"sparse reward {float(reward)} but board==goal is {is_goal}",
                      f"{tag}: board after move {nb.tolist()}"))
    bl = sm.blank_of(nb)
    if bl is not None:
        want_mask = sm.legal(n, bl)
        if [bool(x) for x in np.asarray(mask)] != want_mask:
            fails.append(("slide.mask", "action mask != 'the blank stays on the board'",
                          f"{tag}: board {nb.tolist()} mask {np.asarray(mask).tolist()} expected {want_mask}"))
    return fails, nb.tolist() != np.asarray(board).tolist()


def eval_slide_transition(case):
    """One (board, action) through env.step from a hand-built State, plus the opposite move."""
    n, a = case["n"], int(case["action"])
    k = slide_kit(n, 0, 500, "sparse")
    board = np.asarray(case["board"], np.int64).reshape(n, n)
    blank = sm.blank_of(board)
    ns, ts = k.one(board, blank, a)
    fails, moved = _check_transition(n, board, blank, a, ns.puzzle, ns.empty_tile_position, ts.step_type,
                                     ts.reward, ts.observation.action_mask, True, 1, 500, f"{n}x{n}")
    if moved:
        nb = np.asarray(ns.puzzle)
        bs, _ = k.one(nb, tuple(int(x) for x in np.asarray(ns.empty_tile_position)), sm.OPPOSITE[a])
        if np.asarray(bs.puzzle).tolist() != board.tolist():
            fails.append(("slide.opposite", "a move followed by the opposite move does not restore the board",
                          f"{n}x{n}: board {board.tolist()} {sm.ACTION_NAMES[a]} then {sm.ACTION_NAMES[sm.OPPOSITE[a]]} "
                          f"gives {np.asarray(bs.puzzle).tolist()}"))
    return fails, {"evals": 5}


def run_slide_bfs(n: int, max_depth, batch: int, ctx=None):
    """Breadth-first enumeration of everything reachable from the goal through the env's own
    step (jit + vmap), each transition checked against the vectorised model.  Returns
    (fails, info); failing transitions are returned as replayable 'slide_transition' cases."""
    import jax.numpy as jnp

    k = slide_kit(n, 0, 500, "sparse")
    goal = sm.goal(n)
    gcode = int(sm.encode(goal[None])[0])
    ginv = sm.invariant(goal)
    visited = np.asarray([gcode], np.int64)
    frontier = np.asarray([gcode], np.int64)
    fails = []          # (oracle, sig, msg, case)
    seen_oracles = set()
    info = {"states": 1, "transitions": 0, "moved": 0, "ignored": 0, "done_true": 0, "depth": 0,
            "complete": False, "evals": 0}
    acts4 = np.arange(4)

    def report(oracle, sig, msg, board, a):
        if oracle in seen_oracles:
            info[f"fail_{oracle}"] = info.get(f"fail_{oracle}", 0) + 1
            return
        seen_oracles.add(oracle)
        fails.append((oracle, sig, msg, {"kind": "slide_transition", "n": n,
                                         "board": np.asarray(board).reshape(-1).tolist(), "action": int(a)}))

    depth = 0
    while frontier.size and (max_depth is None or depth < max_depth):
        nxt = []
        for bi, off in enumerate(range(0, frontier.size, batch)):
            codes = frontier[off:off + batch]
            cnt = codes.size
            boards = sm.decode(codes, n)
            blanks = sm.blanks_batch(boards)
            pad = batch - cnt
            pb = np.concatenate([boards, np.repeat(goal[None], pad, 0)], 0) if pad else boards
            pbl = np.concatenate([blanks, np.repeat(np.asarray([[n - 1, n - 1]]), pad, 0)], 0) if pad else blanks
            out = k.expand(jnp.asarray(pb, jnp.int32), jnp.asarray(pbl, jnp.int32))
            nb, nbl, stype, rew, mask, bb, bbl = (np.asarray(x)[:cnt] for x in out)
            if ctx is not None:
                ctx.nontrivial("slide_bfs", n, depth, bi, codes.tobytes())
                if n == 2:
                    for c in codes.tolist():
                        ctx.nontrivial("slide_state", n, c)
            for a in acts4:
                wb, wbl, moved = sm.step_batch(boards, np.full(cnt, a))
                ok = (nb[:, a] == wb).all(axis=(1, 2)) & (nbl[:, a] == wbl).all(axis=1)
                for i in np.flatnonzero(~ok)[:1]:
                    report("slide.model", "env.step != blank-swap model",
                           f"{n}x{n}: board {boards[i].tolist()} action {sm.ACTION_NAMES[a]}: env {nb[i, a].tolist()} "
                           f"blank {nbl[i, a].tolist()}; model {wb[i].tolist()} blank {wbl[i].tolist()}", boards[i], a)
                is_goal = (nb[:, a] == goal).all(axis=(1, 2))
                last = stype[:, a] == LAST
                for i in np.flatnonzero(last != is_goal)[:1]:
                    report("slide.done", f"termination={bool(last[i])} but board==goal is {bool(is_goal[i])}",
                           f"{n}x{n}: board after move {nb[i, a].tolist()}", boards[i], a)
                for i in np.flatnonzero((rew[:, a] == 1.0) != is_goal)[:1]:
                    report("slide.sparse_reward", f"sparse reward {float(rew[i, a])} but board==goal is {bool(is_goal[i])}",
                           f"{n}x{n}: board after move {nb[i, a].tolist()}", boards[i], a)
                for i in np.flatnonzero(((rew[:, a] != 1.0) & (rew[:, a] != 0.0)))[:1]:
                    report("slide.sparse_reward", "sparse reward is neither 0 nor 1",
                           f"{n}x{n}: reward {float(rew[i, a])}", boards[i], a)
                want_mask = sm.legal_batch(n, wbl)
                for i in np.flatnonzero((mask[:, a].astype(bool) != want_mask).any(axis=1) & ok)[:1]:
                    report("slide.mask", "action mask != 'the blank stays on the board'",
                           f"{n}x{n}: board {nb[i, a].tolist()} mask {mask[i, a].tolist()} expected {want_mask[i].tolist()}",
                           boards[i], a)
                env_moved = (nb[:, a] != boards).any(axis=(1, 2))
                restored = (bb[:, a] == boards).all(axis=(1, 2)) & (bbl[:, a] == blanks).all(axis=1)
                for i in np.flatnonzero(env_moved & ~restored)[:1]:
                    report("slide.opposite", "a move followed by the opposite move does not restore the board",
                           f"{n}x{n}: board {boards[i].tolist()} {sm.ACTION_NAMES[a]} then "
                           f"{sm.ACTION_NAMES[sm.OPPOSITE[a]]} gives {bb[i, a].tolist()}", boards[i], a)
                info["transitions"] += cnt
                info["moved"] += int(env_moved.sum())
                info["ignored"] += int((~env_moved).sum())
                info["done_true"] += int(last.sum())
                info["evals"] += 5 * cnt
                # successors are enqueued only where env == model (the others were reported)
                nxt.append(sm.encode(nb[:, a][ok & moved]))
        cand = np.unique(np.concatenate(nxt)) if nxt else np.zeros(0, np.int64)
        new = np.setdiff1d(cand, visited, assume_unique=True)
        visited = np.union1d(visited, new)
        frontier = new
        depth += 1
        if new.size:
            info["depth"] = depth
            info[f"depth_{depth:02d}"] = int(new.size)
    info["states"] = int(visited.size)
    info["complete"] = frontier.size == 0
    # parity class
    allb = sm.decode(visited, n)
    inv = sm.invariant_batch(allb)
    for i in list(range(min(40, len(allb)))) + [len(allb) - 1]:
        assert sm.invariant(allb[i]) == inv[i], "harness: vectorised and scalar invariant disagree"
    info["evals"] += int(visited.size)
    bad = np.flatnonzero(inv != ginv)
    if bad.size:
        fails.append(("slide.parity", "a reachable state lies outside the parity class of the goal",
                      f"{n}x{n}: {bad.size} states, e.g. {allb[bad[0]].tolist()}", {"kind": "slide_bfs", "n": n}))
    if info["complete"]:
        info["evals"] += 1
        if visited.size != sm.class_size(n):
            fails.append(("slide.class_size", "reachable set != parity class of the goal",
                          f"{n}x{n}: {visited.size} states reachable through env.step, class has {sm.class_size(n)}",
                          {"kind": "slide_bfs", "n": n}))
    return fails, info


def _check_reset_board(n, board, blank, tag):
    fails = []
    board = np.asarray(board)
    blank = tuple(int(x) for x in np.asarray(blank))
    if board.shape != (n, n) or not sm.is_permutation(board):
        fails.append(("gen.permutation", "generated board is not a permutation of 0..n^2-1", f"{tag}: {board.tolist()}"))
        return fails
    if not (0 <= blank[0] < n and 0 <= blank[1] < n) or sm.blank_of(board) != blank:
        fails.append(("gen.blank_field", "empty_tile_position does not point at the 0 tile",
                      f"{tag}: board {board.tolist()} field {blank} actual {sm.blank_of(board)}"))
    if not sm.solvable(board):
        fails.append(("gen.solvable", "generated board is not in the parity class of the goal (unsolvable)",
                      f"{tag}: {board.tolist()}"))
    return fails


def eval_slide_walk(case):
    import jax.numpy as jnp

    from vf import envs

    n, m, t, rw = case["n"], case["m"], case["t"], case["reward"]
    k = slide_kit(n, m, t, rw)
    tag = f"{n}x{n} m={m} key={list(case['key'])}"
    fails = []
    info = {"evals": 0, "steps": 0, "moved": 0, "ignored": 0, "goal_seen": 0}
    state, ts = k.reset(envs.make_key(case["key"]))
    board = np.asarray(state.puzzle).astype(np.int64)
    fails += _check_reset_board(n, board, state.empty_tile_position, tag + " reset")
    info["evals"] += 3
    if fails:
        return fails, info
    bl = sm.blank_of(board)
    if [bool(x) for x in np.asarray(ts.observation.action_mask)] != sm.legal(n, bl):
        fails.append(("slide.mask", "action mask != 'the blank stays on the board'",
                      f"{tag}: reset board {board.tolist()} mask {np.asarray(ts.observation.action_mask).tolist()}"))
    start = board.copy()
    base = [int(a) for a in case["actions"]]
    plan = list(base)
    if case["mode"] == "undo":
        # the model decides which moves moved; only those are undone
        b = board
        undo = []
        for a in base:
            b, _, mv = sm.step(b, a)
            if mv:
                undo.append(sm.OPPOSITE[a])
        plan += list(reversed(undo))
    for i, a in enumerate(plan):
        prev = board
        pblank = tuple(int(x) for x in np.asarray(state.empty_tile_position))
        state, ts = k.step(state, jnp.asarray(a, jnp.int32))
        f2, moved = _check_transition(n, prev, pblank, a, state.puzzle, state.empty_tile_position, ts.step_type,
                                      ts.reward, ts.observation.action_mask, rw == "sparse", i + 1, t, tag + f" step {i}")
        fails += f2
        board = np.asarray(state.puzzle).astype(np.int64)
        info["evals"] += 4
        info["steps"] += 1
        info["moved" if moved else "ignored"] += 1
        if board.tolist() == sm.goal(n).tolist():
            info["goal_seen"] += 1
        if moved:
            bs, _ = k.step(state, jnp.asarray(sm.OPPOSITE[a], jnp.int32))
            info["evals"] += 1
            if np.asarray(bs.puzzle).tolist() != prev.tolist():
                fails.append(("slide.opposite", "a move followed by the opposite move does not restore the board",
                              f"{tag}: board {prev.tolist()} {sm.ACTION_NAMES[a]} then {sm.ACTION_NAMES[sm.OPPOSITE[a]]} "
                              f"gives {np.asarray(bs.puzzle).tolist()}"))
        if not sm.is_permutation(board) or sm.blank_of(board) is None:
            break
        if fails:
            break
    if case["mode"] == "undo" and not fails and plan:
        info["evals"] += 1
        info["undo_runs"] = 1
        if board.tolist() != start.tolist():
            fails.append(("slide.undo", "undoing every effective move does not give back the start board",
                          f"{tag}: start {start.tolist()} end {board.tolist()}"))
    if not fails and not sm.solvable(board):
        fails.append(("slide.parity", "a played state lies outside the parity class of the goal", f"{tag}: {board.tolist()}"))
    return fails, info


def eval_slide_gen(case):
    """A vmapped batch of generator calls and env resets."""
    import jax.numpy as jnp

    n, m, bsz = case["n"], case["m"], case["batch"]
    k = slide_kit(n, m, 500, "dense")
    w0, w1 = (int(x) for x in case["key"])
    keys = np.stack([np.full(bsz, w0, np.uint32), ((w1 + np.arange(bsz)) % 2**32).astype(np.uint32)], 1)
    fails = []
    info = {"evals": 0, "boards": 0, "goal_boards": 0}
    gs = k.gen_batch(jnp.asarray(keys))
    rs, rts = k.reset_batch(jnp.asarray(keys))
    ginv = sm.invariant(sm.goal(n))
    for src, puz, blank, mask in (("generator", gs.puzzle, gs.empty_tile_position, None),
                                  ("reset", rs.puzzle, rs.empty_tile_position, rts.observation.action_mask)):
        puz = np.asarray(puz).astype(np.int64)
        blank = np.asarray(blank).astype(np.int64)
        flat = np.sort(puz.reshape(bsz, -1), axis=1)
        perm_ok = (flat == np.arange(n * n)).all(axis=1)
        info["evals"] += 3 * bsz
        info["boards"] += bsz
        for i in np.flatnonzero(~perm_ok)[:1]:
            fails += _check_reset_board(n, puz[i], blank[i], f"{n}x{n} m={m} {src} key={keys[i].tolist()}")
        good = np.flatnonzero(perm_ok)
        if good.size == 0:
            continue
        act = sm.blanks_batch(puz[good])
        field_ok = (act == blank[good]).all(axis=1) & (blank[good] >= 0).all(axis=1) & (blank[good] < n).all(axis=1)
        inv_ok = sm.invariant_batch(puz[good]) == ginv
        for sel in (np.flatnonzero(~field_ok)[:1], np.flatnonzero(~inv_ok)[:1]):
            for i in sel:
                fails += _check_reset_board(n, puz[good[i]], blank[good[i]],
                                            f"{n}x{n} m={m} {src} key={keys[good[i]].tolist()}")
        # scalar cross-check of the vectorised predicates on a few boards (harness consistency)
        for j, i in enumerate(good[:3]):
            sc = _check_reset_board(n, puz[i], blank[i], "x")
            assert (not sc) == bool(field_ok[j] and inv_ok[j]), \
                "harness: scalar and vectorised generator checks disagree"
        if mask is not None:
            mk = np.asarray(mask).astype(bool)[good]
            want = sm.legal_batch(n, act)
            for i in np.flatnonzero((mk != want).any(axis=1))[:1]:
                fails.append(("slide.mask", "action mask != 'the blank stays on the board'",
                              f"{n}x{n} m={m} reset key={keys[good[i]].tolist()}: board {puz[good[i]].tolist()} "
                              f"mask {mk[i].tolist()} expected {want[i].tolist()}"))
        info["goal_boards"] += int((puz == sm.goal(n)).all(axis=(1, 2)).sum())
        info["distinct_boards"] = info.get("distinct_boards", 0) + len({p.tobytes() for p in puz})
    return fails, info


# ================================================================================== strategies
_u32 = st.integers(0, 2**32 - 1)


def cube_env_strategy(n, s, t, max_len):
    act = st.tuples(st.integers(0, 5), st.integers(0, n // 2 - 1), st.integers(0, 2))
    return st.fixed_dictionaries({
        "kind": st.just("cube_env"), "n": st.just(n), "s": st.just(s), "t": st.just(t),
        "key": st.tuples(_u32, _u32),
        "actions": st.integers(0, max_len).flatmap(lambda ln: st.lists(act, min_size=ln, max_size=ln)),
        "mode": st.sampled_from(["play", "undo", "solve", "solve"]),
        "perturb": st.lists(st.tuples(st.integers(0, 6 * n * n - 1), st.integers(1, 5)), min_size=1, max_size=4),
    })


def slide_walk_strategy(n, m, t, rw, max_len):
    return st.fixed_dictionaries({
        "kind": st.just("slide_walk"), "n": st.just(n), "m": st.just(m), "t": st.just(t), "reward": st.just(rw),
        "key": st.tuples(_u32, _u32),
        "actions": st.integers(0, max_len).flatmap(
            lambda ln: st.lists(st.integers(0, 3), min_size=ln, max_size=ln)),
        "mode": st.sampled_from(["play", "undo"]),
    })


def slide_gen_strategy(n, m, bsz):
    return st.fixed_dictionaries({
        "kind": st.just("slide_gen"), "n": st.just(n), "m": st.just(m), "batch": st.just(bsz),
        "key": st.tuples(_u32, _u32),
    })


EVAL = {
    "cube_table": eval_cube_table, "cube_move": eval_cube_move, "cube_pair": eval_cube_pair,
    "cube_perturb": eval_cube_perturb, "cube_env": eval_cube_env,
    "slide_transition": eval_slide_transition, "slide_walk": eval_slide_walk, "slide_gen": eval_slide_gen,
}


def _env_of(kind: str) -> str:
    return CUBE if kind.startswith("cube") else SLIDE


def _case_size(case) -> int:
    n = int(case.get("n", 0))
    return 1000 * n + 10 * int(case.get("s", 0) + case.get("m", 0)) + len(case.get("actions", [])) \
        + len(case.get("moves", []))


# ================================================================================== plumbing
CUBE_ENV_MENU_QUICK = [
    (2, 0, 200), (2, 1, 3), (2, 3, 200), (2, 7, 200), (3, 0, 200), (3, 2, 200), (3, 3, 7), (3, 7, 200),
    (3, 100, 200), (4, 0, 200), (4, 3, 200), (4, 20, 2), (5, 1, 200), (5, 100, 200),
]
CUBE_ENV_MENU_THOROUGH = CUBE_ENV_MENU_QUICK + [
    (2, 2, 200), (2, 100, 200), (3, 1, 200), (3, 7, 7), (3, 30, 1), (4, 1, 200), (4, 100, 200), (5, 0, 200),
    (5, 7, 3), (6, 0, 200), (6, 5, 200), (6, 50, 200), (7, 0, 200), (7, 1, 200), (7, 40, 200),
]
SLIDE_WALK_MENU = [
    (4, 0, 500, "sparse"), (4, 50, 500, "dense"), (4, 200, 500, "sparse"), (5, 0, 500, "dense"),
    (5, 100, 500, "sparse"), (5, 200, 500, "dense"), (3, 1, 500, "sparse"), (2, 2, 7, "sparse"),
]
SLIDE_GEN_M = [0, 1, 2, 3, 10, 50, 200]


def work_items(tier, flt):
    scale = flt.get("scale", 1.0) or 1.0
    quick = tier == "quick"
    want = flt.get("env")
    items = []
    if not want or CUBE in want:
        for n in (range(2, 6) if quick else range(2, 8)):
            items.append({"kind": "cube_moves", "env": CUBE, "n": n, "cost": 2 + n * n / 4})
        for n, s, t in (CUBE_ENV_MENU_QUICK if quick else CUBE_ENV_MENU_THOROUGH):
            items.append({"kind": "cube_env", "env": CUBE, "n": n, "s": s, "t": t,
                          "cases": int((400 if quick else 3000) * scale), "max_len": 24 if quick else 40,
                          "cost": 3 + n * (1 + s / 50)})
    if not want or SLIDE in want:
        items.append({"kind": "slide_bfs", "env": SLIDE, "n": 2, "max_depth": None, "batch": 16, "cost": 1})
        items.append({"kind": "slide_bfs", "env": SLIDE, "n": 3, "max_depth": None, "batch": 20000, "cost": 100})
        for n, m, t, rw in SLIDE_WALK_MENU:
            items.append({"kind": "slide_walk", "env": SLIDE, "n": n, "m": m, "t": t, "reward": rw,
                          "cases": int((400 if quick else 4000) * scale), "max_len": 60 if quick else 100,
                          "cost": 4})
        for n in (2, 3, 4, 5):
            items.append({"kind": "slide_gen", "env": SLIDE, "n": n, "ms": SLIDE_GEN_M,
                          "cases": max(1, int((4 if quick else 30) * scale)), "batch": 512 if quick else 2048,
                          "cost": 5})
    return items


def _record(ctx, case, fails, info, prefix):
    for name, v in info.items():
        if name == "evals":
            ctx.evals(v)
        elif isinstance(v, (int, np.integer)) and not isinstance(v, bool):
            ctx.count(f"{prefix}_{name}", int(v))
    for oracle, sig, msg in fails:
        ctx.fail(oracle, _env_of(case["kind"]), sig, msg, case, size=_case_size(case))


def _run_cube_moves(ctx, item):
    n = item["n"]
    acts = cm.all_actions(n)
    k = cube_kit(n, 0, 200)
    case = {"kind": "cube_table", "n": n}
    with ctx.guard(CUBE, case, _case_size(case)):
        fails, info = eval_cube_table(case)
        _record(ctx, case, fails, info, f"cube_n{n}_table")
        ctx.exhaustive[f"cube_encoding_n{n}"] = True
    lab = cm.labelled(n)
    firsts = {}
    for a in acts:
        case = {"kind": "cube_move", "n": n, "action": list(a)}
        with ctx.guard(CUBE, case, _case_size(case)):
            fails, info = eval_cube_move(case)
            _record(ctx, case, fails, info, f"cube_n{n}_move")
            ctx.nontrivial("cube_move", n, a)
            ctx.count(f"cube_n{n}_moves")
            firsts[a] = k.real(lab, a)
    if len(firsts) == len(acts):
        ctx.exhaustive[f"cube_moves_n{n}"] = True
    ctx.sample({"kind": "cube_move", "n": n, "action": list(acts[-1]),
                "model_perm_head": cm.move_perm(n, *acts[-1])[:12].tolist()})
    done_pairs = 0
    for a in acts:
        for b in acts:
            case = {"kind": "cube_pair", "n": n, "a": list(a), "b": list(b)}
            with ctx.guard(CUBE, case, _case_size(case)):
                fails, info = eval_cube_pair(case, first=firsts.get(a))
                _record(ctx, case, fails, info, f"cube_n{n}_pair")
                ctx.nontrivial("cube_pair", n, a, b)
                done_pairs += 1
    ctx.count(f"cube_n{n}_pairs", done_pairs)
    if done_pairs == len(acts) ** 2:
        ctx.exhaustive[f"cube_pairs_n{n}"] = True
    # solved test: all single-sticker recolourings of the solved cube, of every cube one move away,
    # and of the solved cube reached again by move + inverse
    bases = [[]] + [[list(a)] for a in acts] + [[list(acts[0]), list(cm.inverse_action(acts[0]))]]
    if n % 2 == 0:
        # whole-cube rotation of an even cube by turning both halves: face-uniform, colours displaced
        bases.append([[cm.UP, d, 0] for d in range(n // 2)] + [[cm.DOWN, d, 1] for d in range(n // 2)])
    ok = 0
    for mv in bases:
        case = {"kind": "cube_perturb", "n": n, "moves": mv}
        with ctx.guard(CUBE, case, _case_size(case)):
            fails, info = eval_cube_perturb(case)
            _record(ctx, case, fails, info, f"cube_n{n}_perturb")
            ctx.nontrivial("cube_perturb", n, mv)
            ok += 1
    if ok == len(bases):
        ctx.exhaustive[f"cube_solved_perturbations_n{n}"] = True


def _drive(ctx, item, strategy, prefix, seed):
    def one(case):
        with ctx.guard(_env_of(case["kind"]), case, _case_size(case)):
            fails, info = EVAL[case["kind"]](case)
            _record(ctx, case, fails, info, prefix)
            ctx.count(f"{prefix}_cases")
            if case["kind"] == "slide_gen" or info.get("steps", 0) >= 1:
                ctx.nontrivial(case)
                ctx.count(f"{prefix}_nontrivial")
            if "mode" in case:
                ctx.count(f"{prefix}_mode_{case['mode']}")
            ctx.sample({"case": case, "info": info})

    hyp.drive({"case": strategy}, one, seed, item["cases"])


def run_item(item, seed, tier):
    ctx = Ctx(PROPERTY, item)
    kind = item["kind"]
    if kind == "cube_moves":
        _run_cube_moves(ctx, item)
    elif kind == "cube_env":
        _drive(ctx, item, cube_env_strategy(item["n"], item["s"], item["t"], item["max_len"]),
               f"cube_env_n{item['n']}", seed)
    elif kind == "slide_bfs":
        n = item["n"]
        case0 = {"kind": "slide_bfs", "n": n}
        with ctx.guard(SLIDE, case0, 1000 * n):
            fails, info = run_slide_bfs(n, item["max_depth"], item["batch"], ctx)
            for name, v in info.items():
                if name == "evals":
                    ctx.evals(v)
                elif name != "complete":
                    ctx.count(f"slide_{n}x{n}_bfs_{name}", int(v))
            for oracle, sig, msg, case in fails:
                ctx.fail(oracle, SLIDE, sig, msg, case, size=1000 * n)
            ctx.exhaustive[f"sliding_{n}x{n}"] = bool(info["complete"])
            ctx.sample({"kind": "slide_bfs", "n": n, "states": info["states"], "transitions": info["transitions"],
                        "max_depth_reached": info["depth"], "class_size": sm.class_size(n)})
    elif kind == "slide_walk":
        _drive(ctx, item, slide_walk_strategy(item["n"], item["m"], item["t"], item["reward"], item["max_len"]),
               f"slide_walk_{item['n']}x{item['n']}", seed)
    elif kind == "slide_gen":
        n = item["n"]
        for j, m in enumerate(item["ms"]):
            sub = dict(item, cases=item["cases"])
            _drive(ctx, sub, slide_gen_strategy(n, m, item["batch"]), f"slide_gen_{n}x{n}_m{m}", seed + 7919 * j)
    else:
        raise ValueError(kind)
    return ctx.result()


def replay(case):
    kind = case["kind"]
    if kind == "slide_bfs":
        fails, _ = run_slide_bfs(case["n"], None, 16 if case["n"] == 2 else 20000)
        return [{"env": SLIDE, "oracle": o, "sig": s, "msg": m} for o, s, m, _ in fails]
    fails, _ = EVAL[kind](case)
    return [{"env": _env_of(kind), "oracle": o, "sig": s, "msg": m} for o, s, m in fails]


def shrink(fl):
    """Greedy minimisation of the action list (and perturbation list) of a generated case."""
    case = fl["case"]
    if not isinstance(case, dict) or case.get("kind") not in ("cube_env", "slide_walk"):
        return fl

    def still(c):
        try:
            return [m for o, s, m in EVAL[c["kind"]](c)[0] if o == fl["oracle"] and s == fl["sig"]]
        except Exception:  # noqa: BLE001
            return []

    best = dict(case)
    if not still(best):
        return fl
    for field in ("actions", "perturb"):
        if field not in best:
            continue
        seq = list(best[field])
        lo = 1 if field == "perturb" else 0
        chunk = max(1, len(seq) // 2)
        budget = 60
        while chunk >= 1 and budget > 0:
            i = 0
            changed = False
            while i < len(seq) and budget > 0:
                cand = seq[:i] + seq[i + chunk:]
                if len(cand) >= lo:
                    budget -= 1
                    if still(dict(best, **{field: cand})):
                        seq = cand
                        best[field] = cand
                        changed = True
                        continue
                i += chunk
            if not changed:
                chunk //= 2
    for mode in ("play",):
        if best.get("mode") != mode and still(dict(best, mode=mode)):
            best["mode"] = mode
    msgs = still(best)
    return dict(fl, case=best, msg=msgs[0] if msgs else fl["msg"])

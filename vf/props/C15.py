"""C15 - gym, dm_env and multi-to-single adapters relay the native episode faithfully."""
from __future__ import annotations

import numpy as np

from vf import envs, episodes, hyp, treecmp
from vf.hyp import st
from vf.props.C13 import SHORT_ENTRY
from vf.runner import Ctx

PROPERTY = "C15"
TECHNIQUE = ("model-based testing of the stateful adapters: Hypothesis-generated operation sequences (reset, reseed+reset, "
             "step) are applied to the adapter and to a native shadow driven by the documented key schedule; outputs "
             "compared after every operation; converted spaces/specs checked for membership")
RULE = ("cases = (env, adapter in {gym, dm_env, multi-to-single with an aggregator pair}, seed, operation sequence with >= 3 "
        "resets incl. re-seeding, actions chosen mask-relative incl. illegal/raw); non-trivial = sequences containing a "
        "LAST step and a later reset; distinct by (env, adapter, seed, ops digest)")
ASSUMPTIONS = [
    "documented key schedule: key = PRNGKey(seed); every reset splits the key once, one half resets the env, the other is "
    "kept (either assignment of the halves is accepted, but it must be used consistently)",
    "multi-agent reward shapes (Connector, LevelBasedForaging) go through MultiToSingleWrapper before the gym adapter",
    "after a LAST step the generated sequence always resets (stepping a finished episode is outside the adapters' contract)",
    "dm_env adapters built for a re-seed reuse the first adapter's compiled jax.jit(env.reset/step) callables",
]
MULTI_REWARD = ["Connector", "LevelBasedForaging"]
QUICK_ENVS = ["Snake", "TSP", "Game2048", "BinPack", "Connector", "LevelBasedForaging", "Maze", "Cleaner", "Knapsack",
              "RobotWarehouse"]
AGGS = ["sum", "max", "min", "mean", "prod", "halfsum", "gmax"]
TEAM_REWARD = ["Cleaner", "RobotWarehouse", "MMST", "MultiCVRP"]   # multi-agent envs with scalar (team) reward


# custom aggregators include ones that are NOT the identity on a scalar (scaled sum, discounted max), so that an
# adapter that bypasses the aggregator for already-scalar team rewards is visible
def agg(name):
    import jax.numpy as jnp

    if name == "halfsum":
        return lambda x: 0.5 * jnp.sum(x)
    if name == "gmax":
        return lambda x: 0.9 * jnp.max(x)
    return getattr(jnp, name)


def np_agg(name, x):
    x = np.asarray(x, np.float64)
    if name == "halfsum":
        return 0.5 * np.sum(x)
    if name == "gmax":
        return 0.9 * np.max(x)
    return getattr(np, name)(x)


def to_dict(o):
    if hasattr(o, "__dataclass_fields__"):
        return {k: to_dict(getattr(o, k)) for k in o.__dataclass_fields__}
    if isinstance(o, tuple) and hasattr(o, "_fields"):
        return {k: to_dict(v) for k, v in zip(o._fields, o)}
    return np.asarray(o)


# boundary-biased seeds: 0 (falsy), tiny and arbitrary ones, and the upper half of the uint32 range that
# jax.random.PRNGKey accepts (the sign bit of an int32 set: 2**31 .. 2**32 - 1, boundaries favoured)
SEEDS = st.one_of(st.just(0), st.integers(0, 3), st.integers(0, 2**31 - 1),
                  st.sampled_from([2**31 - 1, 2**31, 2**31 + 5, 2**32 - 1]), st.integers(2**31, 2**32 - 1))


@st.composite
def op_lists(draw):
    n = draw(st.integers(8, 45))
    ops = []
    for _ in range(n):
        kind = draw(st.sampled_from(["step"] * 8 + ["reset", "seed_reset", "seed_method"]))
        if kind == "step":
            ops.append(("step", draw(st.sampled_from(["legal"] * 5 + ["raw", "illegal", "legal"])), draw(st.integers(0, 2**20))))
        elif kind == "reset":
            ops.append(("reset", None, 0))
        else:
            # seed_reset: reset(seed=s); seed_method: the adapter's seed(s) method followed by a plain reset()
            ops.append((kind, None, draw(SEEDS)))
    return ops


class Shadow:
    """Native execution following the documented key schedule."""

    def __init__(self, b, seed):
        import jax

        self.b = b
        self.conv = getattr(b, "_key_conv_try", "first")
        self.split = jax.jit(lambda k: jax.random.split(k))
        self.seed(seed)
        self.state = self.ts = None

    def seed(self, seed):
        import jax

        self.key = jax.random.PRNGKey(seed)

    def reset(self):
        ks = self.split(self.key)
        # "one split per reset": which half resets the env and which half is kept is not fixed by the property
        k, self.key = (ks[0], ks[1]) if self.conv == "first" else (ks[1], ks[0])
        self.state, self.ts = self.b.reset(k)
        return self.ts

    def step(self, a):
        self.state, self.ts = self.b.step(self.state, a)
        return self.ts


def run_gym(ctx, b, seed, ops, fail, aggs=None, concrete=None):
    import jax
    import jax.numpy as jnp

    from jumanji.wrappers import JumanjiToGymWrapper, MultiToSingleWrapper

    if not hasattr(b, "_gym"):
        b._gym = {}
    fresh = aggs not in b._gym
    if fresh:
        env = b.env
        if aggs is not None:
            env = MultiToSingleWrapper(b.env, reward_aggregator=agg(aggs[0]), discount_aggregator=agg(aggs[1]))
        b._gym[aggs] = JumanjiToGymWrapper(env, seed=seed)   # jit-compiles once per wrapper object
    g = b._gym[aggs]
    sh = Shadow(b, seed)
    played = []

    def cmp_obs(obs, ts, where):
        d = treecmp.diff(obs, to_dict(episodes.host(ts.observation)))
        if d:
            fail("gym.observation", "gym observation differs from the native observation", f"{where}: {d}")
        if not g.observation_space.contains(obs):
            fail("gym.obs_in_space", "gym observation not in the converted observation space", where)

    # a wrapper object reused from an earlier case is re-seeded through the public API, a fresh one was
    # seeded by its constructor: both must follow the same key schedule
    obs, info = g.reset() if fresh else g.reset(seed=seed)
    cmp_obs(obs, sh.reset(), "first reset")
    saw_last, nontrivial = False, False
    for i, op in enumerate(ops if concrete is None else concrete):
        ctx.evals()
        kind = op[0]
        if kind == "step" and concrete is None and int(sh.ts.step_type) == episodes.LAST:
            kind, op = "reset", ("reset", None, 0)   # the episode is over: the contract requires a reset
        if kind == "step":
            if concrete is None:
                a = np.asarray(b.pick_action(sh.state, sh.ts, op[1], op[2]))
            else:
                a = b.to_action(op[1])
            played.append(["step", a.tolist()])
            obs, rew, term, trunc, info = g.step(a)
            ts = sh.step(a)
            cmp_obs(obs, ts, f"op {i} step")
            nrew = np.asarray(ts.reward)
            ndisc = np.asarray(ts.discount)
            if aggs is not None:
                nrew, ndisc = np.asarray(agg(aggs[0])(ts.reward)), np.asarray(agg(aggs[1])(ts.discount))
            if not isinstance(rew, float) or rew != float(nrew):
                fail("gym.reward", "gym reward != float(native reward)", f"op {i}: {rew!r} vs {float(nrew)!r}")
            want_term = bool(np.asarray(ndisc == 0).all())
            want_trunc = int(ts.step_type) == episodes.LAST
            if term is not want_term:
                fail("gym.terminated", "terminated != (native discount == 0)", f"op {i}: {term} vs discount {ndisc.tolist()}")
            if trunc is not want_trunc:
                fail("gym.truncated", "truncated != (native step is LAST)", f"op {i}: {trunc} vs step_type {int(ts.step_type)}")
            d = treecmp.diff(info, episodes.host(ts.extras))
            if d:
                fail("gym.info", "gym info differs from native extras", f"op {i}: {d}")
            saw_last = saw_last or want_trunc
        else:
            if kind == "seed_reset":
                played.append(["seed_reset", int(op[2])])
                obs, info = g.reset(seed=int(op[2]))
                sh.seed(int(op[2]))
            elif kind == "seed_method":
                played.append(["seed_method", int(op[2])])
                g.seed(int(op[2]))
                obs, info = g.reset()
                sh.seed(int(op[2]))
            else:
                played.append(["reset", None])
                obs, info = g.reset()
            cmp_obs(obs, sh.reset(), f"op {i} {kind}")
            nontrivial = nontrivial or saw_last
    # sampled gym actions are valid native actions
    g.action_space.seed(seed % (2**31))
    for _ in range(5):
        a = g.action_space.sample()
        ctx.evals()
        try:
            b.env.action_spec.validate(jnp.asarray(a))
        except Exception as e:  # noqa: BLE001 - validate raising = rejection
            fail("gym.action_sample", "sampled gym action rejected by the native action spec", f"{a!r}: {e!r}"[:300])
    del jax
    return played, nontrivial


def run_dm(ctx, b, seed, ops, fail, concrete=None):
    import dm_env
    import jax

    from jumanji.wrappers import JumanjiToDMEnvWrapper

    sh = Shadow(b, seed)

    def make(sd):
        # every (re)seed constructs a new adapter, as the API requires; the first adapter built for
        # this env compiles its own jitted reset/step, later ones reuse those compiled callables
        # (they are plain jax.jit(env.reset/step)) to avoid one XLA compilation per re-seed
        d = JumanjiToDMEnvWrapper(b.env, key=jax.random.PRNGKey(sd))
        if hasattr(b, "_dm_jitted"):
            d._jitted_reset, d._jitted_step = b._dm_jitted
        else:
            b._dm_jitted = (d._jitted_reset, d._jitted_step)
        return d

    d_env = make(seed)
    ospec = d_env.observation_spec()
    played = []

    def cmp(dts, ts, where, first):
        d = treecmp.diff(to_dict(episodes.host(dts.observation)), to_dict(episodes.host(ts.observation)))
        if d:
            fail("dm.observation", "dm_env observation differs from the native observation", f"{where}: {d}")
        if first:
            if dts.step_type != dm_env.StepType.FIRST or dts.reward is not None or dts.discount is not None:
                fail("dm.first", "dm_env first timestep must be FIRST with reward None and discount None",
                     f"{where}: type={dts.step_type} reward={dts.reward} discount={dts.discount}")
        else:
            if int(dts.step_type) != int(ts.step_type):
                fail("dm.step_type", "dm_env step_type differs from native", f"{where}: {int(dts.step_type)} vs {int(ts.step_type)}")
            if treecmp.diff(np.asarray(dts.reward), np.asarray(ts.reward)):
                fail("dm.reward", "dm_env reward differs from native", where)
            if treecmp.diff(np.asarray(dts.discount), np.asarray(ts.discount)):
                fail("dm.discount", "dm_env discount differs from native", where)
        # converted spec accepts the observation
        od = to_dict(episodes.host(dts.observation))

        def walk(spec, val, path):
            if isinstance(spec, dict):
                if not isinstance(val, dict) or set(spec) != set(val):
                    fail("dm.obs_spec", "converted dm_env observation spec structure != observation", f"{where} {path}")
                    return
                for k in spec:
                    walk(spec[k], val[k], f"{path}.{k}")
            else:
                try:
                    spec.validate(val)
                except Exception as e:  # noqa: BLE001
                    fail("dm.obs_spec", "observation rejected by the converted dm_env spec", f"{where} {path}: {e!r}"[:300])

        walk(ospec, od, "obs")

    cmp(d_env.reset(), sh.reset(), "first reset", True)
    saw_last, nontrivial = False, False
    for i, op in enumerate(ops if concrete is None else concrete):
        ctx.evals()
        if op[0] == "step" and concrete is None and int(sh.ts.step_type) == episodes.LAST:
            op = ("reset", None, 0)
        if op[0] == "step":
            a = np.asarray(b.pick_action(sh.state, sh.ts, op[1], op[2])) if concrete is None else b.to_action(op[1])
            played.append(["step", a.tolist()])
            dts = d_env.step(a)
            ts = sh.step(a)
            cmp(dts, ts, f"op {i} step", False)
            saw_last = saw_last or int(ts.step_type) == episodes.LAST
        elif op[0] in ("seed_reset", "seed_method"):   # dm_env has no re-seeding API: a new adapter either way
            played.append(["seed_reset", int(op[2])])
            d_env = make(int(op[2]))
            sh.seed(int(op[2]))
            cmp(d_env.reset(), sh.reset(), f"op {i} reseed", True)
            nontrivial = nontrivial or saw_last
        else:
            played.append(["reset", None])
            cmp(d_env.reset(), sh.reset(), f"op {i} reset", True)
            nontrivial = nontrivial or saw_last
    aspec = d_env.action_spec()
    a = b.env.action_spec.generate_value()
    try:
        aspec.validate(np.asarray(a))
    except Exception as e:  # noqa: BLE001
        fail("dm.action_spec", "native generate_value() rejected by the converted dm_env action spec", repr(e)[:300])
    return played, nontrivial


def run_m2s(ctx, b, seed, ops, fail, aggs, concrete=None):
    import jax

    from jumanji.wrappers import MultiToSingleWrapper

    W = MultiToSingleWrapper(b.env, reward_aggregator=agg(aggs[0]), discount_aggregator=agg(aggs[1]))
    if not hasattr(b, "_m2s"):
        b._m2s = {}
    if aggs not in b._m2s:
        b._m2s[aggs] = (jax.jit(W.reset), jax.jit(W.step))
    w_reset, w_step = b._m2s[aggs]
    key = jax.random.PRNGKey(seed)
    played = []

    def cmp(ws, wts, s, ts, where):
        d = treecmp.diff(episodes.host(ws), episodes.host(s))
        if d:
            fail("m2s.state", "MultiToSingleWrapper changed the state", f"{where}: {d}")
        hw, hn = episodes.host(wts), episodes.host(ts)
        for fld in ("observation", "step_type", "extras"):
            d = treecmp.diff(getattr(hw, fld), getattr(hn, fld))
            if d:
                fail(f"m2s.{fld}", f"MultiToSingleWrapper changed {fld}", f"{where}: {d}")
        for fld, name in (("reward", aggs[0]), ("discount", aggs[1])):
            got = np.asarray(getattr(hw, fld), np.float64)
            want = np_agg(name, getattr(hn, fld))
            if got.shape != () or not np.allclose(got, want, rtol=1e-5, atol=1e-6):
                fail(f"m2s.{fld}", f"{fld} != aggregator(native {fld})", f"{where}: {name} -> {got} vs {want}")

    s, ts = b.reset(key)
    ws, wts = w_reset(key)
    cmp(ws, wts, s, ts, "reset")
    saw_last, nontrivial = False, False
    for i, op in enumerate(ops if concrete is None else concrete):
        ctx.evals()
        if op[0] == "step" and concrete is None and int(ts.step_type) == episodes.LAST:
            op = ("reset", None, 0)
        if op[0] == "step":
            a = np.asarray(b.pick_action(s, ts, op[1], op[2])) if concrete is None else b.to_action(op[1])
            played.append(["step", a.tolist()])
            s2, ts2 = b.step(s, a)
            ws2, wts2 = w_step(s, a)
            cmp(ws2, wts2, s2, ts2, f"op {i} step")
            s, ts = s2, ts2
            saw_last = saw_last or int(ts.step_type) == episodes.LAST
        else:
            sd = int(op[2]) if op[0] in ("seed_reset", "seed_method") else i
            played.append(["seed_reset", sd])
            key = jax.random.PRNGKey(sd)
            s, ts = b.reset(key)
            ws, wts = w_reset(key)
            cmp(ws, wts, s, ts, f"op {i} reset")
            nontrivial = nontrivial or saw_last
    return played, nontrivial


def work_items(tier, flt):
    scale = (flt or {}).get("scale", 1.0)
    names = QUICK_ENVS if tier == "quick" else envs.ENV_NAMES
    items = []
    n = max(2, int((6 if tier == "quick" else 30) * scale))
    for env in envs.select_envs(names, flt):
        entry = SHORT_ENTRY[env] if not (flt and flt.get("entry")) else flt["entry"][0]
        cost = {"BinPack": 8, "MMST": 8, "PacMan": 4, "Connector": 3}.get(env, 1)
        items.append({"env": env, "entry": entry, "adapter": "gym", "n": n, "cost": cost})
        items.append({"env": env, "entry": entry, "adapter": "dm", "n": n, "cost": cost})
        if env in MULTI_REWARD or env in TEAM_REWARD:
            items.append({"env": env, "entry": entry, "adapter": "m2s", "n": n * 2, "cost": cost})
    # multi-agent environments configured with a single agent: the action vector has exactly one entry
    for env, entry in ONE_AGENT.items():
        if envs.select_envs([env], flt) and not (flt and flt.get("entry")) and (tier != "quick" or env in ("Connector", "RobotWarehouse")):
            items.append({"env": env, "entry": entry, "adapter": "gym", "n": max(2, n // 2), "cost": 2})
    return items


ONE_AGENT = {"Connector": "g4a1t3uni", "RobotWarehouse": "s1x3h2a1r1q1t7", "LevelBasedForaging": "g5a1f1v5l2nVNp0t7",
             "Cleaner": "r5c5a1tNone"}


def _run_once(ctx, b, adapter, seed, ops, fail, aggs, concrete=None):
    if adapter == "gym":
        return run_gym(ctx, b, seed, ops, fail, aggs=aggs if b.name in MULTI_REWARD else None, concrete=concrete)
    if adapter == "dm":
        return run_dm(ctx, b, seed, ops, fail, concrete=concrete)
    return run_m2s(ctx, b, seed, ops, fail, aggs, concrete=concrete)


def _run(ctx, b, adapter, seed, ops, fail, aggs, concrete=None):
    """The statement fixes the key schedule as 'seed, then one split per reset' but not which half of the split
    resets the environment: both conventions are accepted; the first sequence that only fits the second convention
    pins it for this configuration, failures are reported only if neither fits."""
    if adapter == "m2s":
        return _run_once(ctx, b, adapter, seed, ops, fail, aggs, concrete)
    buf = []
    b._key_conv_try = getattr(b, "_key_conv", "first")
    out = _run_once(ctx, b, adapter, seed, ops, lambda *a: buf.append(a), aggs, concrete)
    if buf and not hasattr(b, "_key_conv"):
        buf2 = []
        b._key_conv_try = "second"
        out2 = _run_once(ctx, b, adapter, seed, ops, lambda *a: buf2.append(a), aggs, concrete)
        if not buf2:
            b._key_conv = "second"
            ctx.count("key_convention_second_half")
            return out2
        b._key_conv_try = "first"
    if buf:
        b._key_conv = getattr(b, "_key_conv", "first")
    for a in buf:
        fail(*a)
    return out


def run_item(item, seed, tier):
    ctx = Ctx(PROPERTY, item)
    env, entry, adapter = item["env"], item["entry"], item["adapter"]
    with ctx.guard(env, {"env": env, "entry": entry, "adapter": adapter, "stage": "construct"}):
        b = envs.bundle(env, entry)

        def one(sd, ops, a1, a2):
            aggs = (a1, AGGS[(AGGS.index(a1) + 1 + AGGS.index(a2) % 2) % len(AGGS)]) if (adapter == "m2s" or env in MULTI_REWARD) else None
            if adapter == "gym" and env in MULTI_REWARD:
                aggs = [("sum", "max"), ("mean", "min"), ("halfsum", "gmax")][AGGS.index(a1) % 3]
            case = {"env": env, "entry": entry, "adapter": adapter, "seed": sd, "aggs": list(aggs) if aggs else None, "ops": []}

            def fail(oracle, sig, msg):
                ctx.fail(oracle, env, sig, f"{msg} [entry={entry} adapter={adapter} seed={sd} aggs={aggs}]", case, size=len(ops))

            with ctx.guard(env, case, size=10**6):
                played, nontrivial = _run(ctx, b, adapter, sd, ops, fail, aggs)
                case["ops"] = played
                ctx.count(f"sequences_{adapter}")
                if nontrivial:
                    ctx.nontrivial(env, adapter, sd, played)
                    ctx.count(f"nontrivial_{adapter}")
                if len(ctx.samples) < 2:
                    ctx.sample({"env": env, "adapter": adapter, "seed": sd, "aggs": aggs, "ops": played[:10]})

        hyp.drive({"sd": SEEDS, "ops": op_lists(), "a1": st.sampled_from(AGGS),
                   "a2": st.sampled_from(AGGS)}, one, seed, item["n"])
    return ctx.result()


def replay(case):
    ctx = Ctx(PROPERTY, {})
    env = case["env"]
    with ctx.guard(env, case):
        b = envs.bundle(env, case["entry"])
        if case.get("stage") == "construct":
            return []

        def fail(oracle, sig, msg):
            ctx.fail(oracle, env, sig, msg, case)

        concrete = [(o[0], o[1], o[1] if o[0] in ("seed_reset", "seed_method") else 0) for o in case["ops"]]
        aggs = tuple(case["aggs"]) if case.get("aggs") else None
        _run(ctx, b, case["adapter"], case["seed"], None, fail, aggs, concrete=concrete)
    return list(ctx.failures.values())

"""C08 - rewards add up to the documented objective; dense and sparse agree."""
from vf import modelprops as mp

PROPERTY = "C08"
TECHNIQUE = ("Hypothesis-generated keys x legal plans run to termination; return compared with the objective recomputed "
             "in float64 NumPy from raw arrays; metamorphic dense-vs-sparse twin on identical trajectories")
RULE = ("cases = (env, entry, key, legal plan played to termination); sum of rewards (float64) vs the documented "
        "objective recomputed from the final state / history; where dense and sparse reward functions exist the same key "
        "and concrete actions are replayed in the twin configuration and the returns compared; non-trivial = finished "
        "episodes with >= 3 steps, distinct by (env, entry, key, style)")
ASSUMPTIONS = ["tolerance rtol 1e-4 / atol 1e-4*steps for float32 accumulation",
               "dense-vs-sparse is asserted only where both are documented as the same episode objective"]


def work_items(tier, flt):
    return mp.c08_work_items(tier, flt)


def run_item(item, seed, tier):
    return mp.c08_run_item(PROPERTY, item, seed, tier)


def replay(case):
    return mp.c08_replay(PROPERTY, case)

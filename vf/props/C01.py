"""C01 - everything an environment emits conforms to the specs it declares."""
from __future__ import annotations

import numpy as np

from vf import bulk, envs, episodes, histprop, hyp, specwalk
from vf.runner import Ctx

PROPERTY = "C01"
TECHNIQUE = ("Hypothesis-generated keys x mask-relative episode plans over a menu of constructor "
             "configurations; independent spec-walker oracle; eval_shape for shapes/dtypes; bulk sweeps "
             "(vmapped scripted-policy episodes with a device-side bound predicate, host-confirmed)")
RULE = ("cases = (env, menu entry, reset key, episode plan mixing legal / illegal / raw / survive modes); "
        "every emitted observation, reward and discount is checked against the declared specs with an "
        "independent walker (structure, shape, dtype, inclusive bounds) and cross-checked with spec.validate; "
        "a validated timestep is non-trivial when it is FIRST or LAST or a bounded leaf touches its minimum "
        "or maximum; distinct by (env, entry, step type, terminal cause, set of touching leaves); sweep batches "
        "(counters sweep_*) add 10^3..3*10^4 scripted-policy episodes per small entry whose timesteps are screened "
        "on the device and re-judged by the same walker when flagged")
ASSUMPTIONS = [
    "constructor configurations are drawn from the finite menus of vf/envs.py (documented arguments only)",
    "extras are not covered by any spec and are ignored; values emitted after a LAST timestep are not validated",
    "Sokoban uses Toy/SimpleSolve/harness random-level generators (its dataset is unavailable offline)",
]


class Mon(episodes.Monitor):
    def __init__(self, b, ctx, shared):
        self.b, self.ctx = b, ctx
        env = b.env
        self.obs_spec, self.rew_spec, self.disc_spec = env.observation_spec, env.reward_spec, env.discount_spec
        self.cause = None

    def check_ts(self, rec, ts, kind):
        self.ctx.evals()
        probs = []
        for name, spec, val in (("observation", self.obs_spec, ts.observation),
                                ("reward", self.rew_spec, ts.reward), ("discount", self.disc_spec, ts.discount)):
            ps = specwalk.conforms(spec, val, name)
            probs.extend(ps)
            ok_walker = not ps
            try:
                spec.validate(val)
                ok_validate = True
            except Exception as e:  # noqa: BLE001 - validate signals rejection by raising
                ok_validate = False
                vmsg = repr(e)[:200]
            if ok_walker and not ok_validate:
                rec.fail("validate_disagrees", f"{name}: spec.validate rejects what the walker accepts", vmsg)
            if not ok_walker and ok_validate:
                rec.fail("validate_disagrees", f"{name}: spec.validate accepts, walker: {ps[0][1]} at {ps[0][0]}",
                         str(ps[0]))
        for path, pkind, detail in probs:
            rec.fail(f"conforms.{kind}", f"{path}: {pkind}", f"{kind} timestep: {path} {pkind}: {detail}")
        st = int(ts.step_type)
        touch = specwalk.touching(self.obs_spec, ts.observation, "observation")
        if st != episodes.MID or touch:
            self.ctx.nontrivial(self.b.name, self.b.entry, st, tuple(touch), kind)
        if touch:
            self.ctx.count("timesteps_touching_a_bound")

    def on_reset(self, rec, st_, ts):
        self.check_ts(rec, ts, "reset")

    def on_step(self, rec, t, pst, pts, a, st_, ts, after_last):
        if after_last:
            return
        kind = "last" if int(ts.step_type) == episodes.LAST else "step"
        self.check_ts(rec, ts, kind)


def _static_checks(ctx: Ctx, b: envs.Bundle):
    """Per menu entry: generate_value is a member of action_spec and accepted by step; output
    avals of reset/step (shape, dtype - value independent under tracing) match the specs."""
    import jax

    env = b.env
    case = {"env": b.name, "entry": b.entry, "overrides": dict(b.overrides), "key": [0, 0], "actions": [],
            "static": True}
    with ctx.guard(b.name, case):
        a = env.action_spec.generate_value()
        ctx.evals()
        for path, kind, detail in specwalk.conforms(env.action_spec, a, "action"):
            ctx.fail("generate_value.member", b.name, f"{path}: {kind}", f"generate_value(): {detail}", case)
        try:
            env.action_spec.validate(a)
        except Exception as e:  # noqa: BLE001
            ctx.fail("generate_value.validate", b.name, "validate rejects generate_value()", repr(e)[:300], case)
        for kw in ((0, 0), (3, 11)):
            st_, ts = b.reset(envs.make_key(kw))
            st2, ts2 = b.step(st_, a)
            ctx.evals()
            h = episodes.host(ts2)
            for name, spec, val in (("observation", env.observation_spec, h.observation),
                                    ("reward", env.reward_spec, h.reward), ("discount", env.discount_spec, h.discount)):
                for path, kind, detail in specwalk.conforms(spec, val, name):
                    ctx.fail("generate_value.step", b.name, f"{path}: {kind}",
                             f"step(state, generate_value()): {detail}", dict(case, key=list(kw), actions=[np.asarray(a).tolist()]))
        # shapes / dtypes for all inputs at once
        key = envs.make_key((0, 0))
        st_aval, ts_aval = jax.eval_shape(env.reset, key)
        _, ts2_aval = jax.eval_shape(env.step, st_aval, a)
        for tag, tsa in (("reset", ts_aval), ("step", ts2_aval)):
            ctx.evals()
            zeros = jax.tree_util.tree_map(lambda s: np.zeros(s.shape, s.dtype), tsa)
            for name, spec, val in (("observation", env.observation_spec, zeros.observation),
                                    ("reward", env.reward_spec, zeros.reward), ("discount", env.discount_spec, zeros.discount)):
                for path, kind, detail in specwalk.conforms(spec, val, name):
                    if kind in ("shape", "dtype", "structure"):
                        ctx.fail(f"eval_shape.{tag}", b.name, f"{path}: {kind}", f"abstract {tag} output: {detail}", case)
    ctx.nontrivial(b.name, b.entry, "static")
    return None


def _per_episode(ctx, b, rec, summ, mon):
    pass


def work_items(tier, flt):
    items = histprop.work_items(envs.ENV_NAMES, tier, flt, 24, 250,
                                cost={"BinPack": 4, "PacMan": 3, "MMST": 3, "RubiksCube": 2, "Connector": 2})
    if tier == "quick" and not (flt and flt.get("entry")):
        # the remaining menu entries get the trace-only part (abstract shapes/dtypes/structure of reset and
        # step outputs, generate_value membership): no compilation, seconds per entry
        have = {(it["env"], it["entry"]) for it in items}
        for env in envs.select_envs(envs.ENV_NAMES, flt):
            rest = [e for e in envs.entries(env) if (env, e) not in have]
            if rest:
                items.append({"kind": "abstract", "env": env, "entries": rest, "entry": "+".join(rest)[:60], "cost": 0.5 * len(rest)})
    items.extend(bulk.sweep_items(tier, flt))
    return items


def _sweep(ctx, item, seed):
    """Bulk sweep (vf/bulk.py): Hypothesis draws the base key and the policy salt of each batch; the bound part of the
    spec check runs on the device over every timestep of every episode; flagged episodes are replayed on the host
    under Mon, which decides."""
    from hypothesis import strategies as st

    b = envs.bundle(item["env"], item["entry"])
    env = b.env
    specs3 = (("observation", env.observation_spec), ("reward", env.reward_spec), ("discount", env.discount_spec))

    if not hasattr(b, "_c01_flag"):
        def flag(s, ts, is_reset, step):
            import jax.numpy as jnp

            bad, touch = jnp.asarray(False), jnp.asarray(False)
            for name, spec in specs3:
                b_, t_ = bulk.out_of_bounds(spec, getattr(ts, name), name)
                bad, touch = bad | b_, touch | (t_ if name == "observation" else False)
            return bad, touch

        b._c01_flag = flag

    def one(key, salt):
        with ctx.guard(b.name, {"env": b.name, "entry": b.entry, "overrides": {}, "key": list(key), "actions": [],
                                "stage": "sweep", "salt": salt}):
            first, n, aux, kws, acts = bulk.sweep(b, key, salt, item["episodes"], item["steps"], b._c01_flag,
                                                      item.get("policy", "legal_hash"))
        ctx.evals(int(n.sum()))
        ctx.count("sweep_episodes", len(n))
        ctx.count("sweep_timesteps", int(n.sum()))
        ctx.count("sweep_timesteps_touching_a_bound", int(aux.sum()))
        ctx.count("sweep_episodes_ended", int((n <= item["steps"]).sum()))
        ctx.nontrivial(b.name, b.entry, "sweep", int(n.max()), int(aux.sum() > 0))
        for e in np.flatnonzero(first >= 0)[:3]:
            kw = [int(kws[e][0]), int(kws[e][1])]
            actions = [np.asarray(a) for a in acts[e][: max(int(first[e]), 0)]]
            rec = episodes.Recorder(ctx, b, kw)
            before = sum(f["hits"] for f in ctx.failures.values())
            with ctx.guard(b.name, rec.case(), size=10**6):
                episodes.run_actions(b, rec, [a.tolist() for a in actions], Mon(b, ctx, None))
            ctx.count("sweep_flagged")
            if sum(f["hits"] for f in ctx.failures.values()) == before:
                ctx.count("sweep_unconfirmed")
        if len(ctx.samples) < 2:
            ctx.sample({"env": b.name, "entry": b.entry, "sweep_base_key": list(key), "salt": salt,
                        "episodes": int(len(n)), "timesteps": int(n.sum()), "longest": int(n.max()),
                        "touching": int(aux.sum())})

    hyp.drive({"key": episodes.keys(), "salt": st.integers(0, 2**20)}, one, seed, item["batches"])


def _abstract_checks(ctx, env_name, entry):
    """eval_shape-only variant of _static_checks (nothing is compiled or executed)."""
    import jax

    case = {"env": env_name, "entry": entry, "overrides": {}, "key": [0, 0], "actions": [], "abstract": True}
    with ctx.guard(env_name, case):
        env = envs.make_env(env_name, entry)
        a = env.action_spec.generate_value()
        ctx.evals()
        for path, kind, detail in specwalk.conforms(env.action_spec, a, "action"):
            ctx.fail("generate_value.member", env_name, f"{path}: {kind}", f"generate_value(): {detail} [entry={entry}]", case)
        key = envs.make_key((0, 0))
        st_aval, ts_aval = jax.eval_shape(env.reset, key)
        _, ts2_aval = jax.eval_shape(env.step, st_aval, a)
        for tag, tsa in (("reset", ts_aval), ("step", ts2_aval)):
            ctx.evals()
            zeros = jax.tree_util.tree_map(lambda s: np.zeros(s.shape, s.dtype), tsa)
            for name, spec, val in (("observation", env.observation_spec, zeros.observation),
                                    ("reward", env.reward_spec, zeros.reward), ("discount", env.discount_spec, zeros.discount)):
                for path, kind, detail in specwalk.conforms(spec, val, name):
                    if kind in ("shape", "dtype", "structure"):
                        ctx.fail(f"eval_shape.{tag}", env_name, f"{path}: {kind}",
                                 f"abstract {tag} output: {detail} [entry={entry}]", case)
        ctx.nontrivial(env_name, entry, "abstract")
        ctx.count("abstract_entries")


def _extreme_instances(ctx, b, seed, n_keys=1024, top=3):
    """Targeted search for instances on which a bounded observation leaf gets closest to its declared bound.  Used
    where the reference model exposes a cheap score of a reset state (MultiCVRP: `shuttle_local_time`, the local
    time a single shuttling vehicle reaches): a vmapped reset over `n_keys` keys is ranked by that score and the
    top instances are played with the corresponding solver variant under the ordinary C01 monitor."""
    import jax

    from vf.models import base

    m = base.get_model(b)
    if m is None or not hasattr(m, "shuttle_local_time"):
        return
    keys = jax.random.split(envs.make_key((seed % 100003, 4242)), n_keys)
    if not hasattr(b, "_reset_batch"):
        b._reset_batch = jax.jit(jax.vmap(b.env.reset))
    sb, _ = episodes.host(b._reset_batch(keys))
    kh = np.asarray(keys)
    scores = [m.shuttle_local_time(jax.tree_util.tree_map(lambda x: x[i], sb)) for i in range(n_keys)]
    for i in np.argsort(scores)[::-1][:top]:
        kw = (int(kh[i][0]), int(kh[i][1]))
        rec = episodes.Recorder(ctx, b, kw)
        mon = Mon(b, ctx, None)
        plan = {"style": "extreme_shuttle", "steps": [("solve", 3 + 4 * j) for j in range(60)]}
        with ctx.guard(b.name, rec.case(), size=10**6):
            episodes.run_plan(b, rec, plan, mon, solve_fn=m.solve_action)
        ctx.count("extreme_instances_played")


def run_item(item, seed, tier):
    if item.get("kind") == "abstract":
        ctx = Ctx(PROPERTY, item)
        for e in item["entries"]:
            _abstract_checks(ctx, item["env"], e)
        return ctx.result()
    if item.get("kind") == "sweep":
        ctx = Ctx(PROPERTY, item)
        with ctx.guard(item["env"], {"env": item["env"], "entry": item["entry"], "stage": "construct"}):
            _sweep(ctx, item, seed)
        return ctx.result()
    res = histprop.run_item(PROPERTY, item, seed, Mon, max_len=60, setup=_static_checks,
                            per_episode=_per_episode, deep=True)
    if item["env"] == "MultiCVRP":
        ctx = Ctx(PROPERTY, item)
        with ctx.guard(item["env"], {"env": item["env"], "entry": item["entry"], "stage": "extreme"}):
            _extreme_instances(ctx, envs.bundle(item["env"], item["entry"]), seed)
        extra = ctx.result()
        res["evaluations"] += extra["evaluations"]
        res["digests"] = list(set(res["digests"]) | set(extra["digests"]))
        res["failures"] += extra["failures"]
        for k, v in extra["counters"].items():
            res["counters"][k] = res["counters"].get(k, 0) + v
    return res


def replay(case):
    if case.get("abstract"):
        ctx = Ctx(PROPERTY, {})
        _abstract_checks(ctx, case["env"], case["entry"])
        return list(ctx.failures.values())
    if case.get("static") or case.get("stage") == "construct":
        ctx = Ctx(PROPERTY, {})
        with ctx.guard(case["env"], case):
            _static_checks(ctx, envs.bundle(case["env"], case["entry"], **case.get("overrides", {})))
        return list(ctx.failures.values())
    return histprop.replay(PROPERTY, case, Mon)


def shrink(fl):
    return episodes.shrink_actions(fl, replay)

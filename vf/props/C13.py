"""C13 - AutoResetWrapper resets exactly when an episode ends, with a fresh instance."""
from __future__ import annotations

import numpy as np

from vf import envs, episodes, hyp, treecmp
from vf.modelprops import instance_digest
from vf.runner import Ctx

PROPERTY = "C13"
TECHNIQUE = ("side-by-side differential oracle: wrapped step vs (unwrapped step, then reset with split(terminal key)[0]) on "
             "Hypothesis-generated multi-episode action sequences; same sequence re-run as one lax.scan and under vmap")
RULE = ("cases = (env, entry with short episodes, next_obs_in_extras flag, key, 40-step plan with illegal/raw actions and "
        "small time limits so that several episodes end); every wrapped step is compared with the reference composition "
        "of the unwrapped step and reset; the whole run is repeated as one jitted lax.scan and slices of it under vmap; "
        "non-trivial = wrapper steps that cross an episode boundary, distinct by (env, entry, flag, key, boundary index); "
        "sweep batches (counters sweep_*) compare 10^2..2*10^3 scripted-policy runs per env with the reference "
        "composition on the device and re-judge mismatching runs on the host")
ASSUMPTIONS = [
    "'freshly derived key' = one of split(key)[0], split(key)[1], fold_in(key, 0|1); the derivation observed at the first "
    "boundary must be used consistently afterwards",
    "float leaves are compared with rtol 1e-5 between scan/vmap and per-step execution, everything else bitwise",
]
N_STEPS = 40
QUICK_ENVS = ["Snake", "Game2048", "Knapsack", "Connector", "Maze", "Minesweeper", "Tetris", "LevelBasedForaging",
              "TSP", "Cleaner"]
SHORT_ENTRY = {
    "Game2048": "b2", "GraphColoring": "n5p3", "Minesweeper": "r3c5m3", "RubiksCube": "n2s1t3",
    "SlidingTilePuzzle": "g2m1t3s", "Sudoku": "veryeasy", "BinPack": "r5e10s1o6", "FlatPack": "r2c2c",
    "JobShop": "j3m2o3d2", "Knapsack": "n3d", "Tetris": "r4c4t3", "Cleaner": "r5c11a2t3", "Connector": "g5a2t7rw",
    "CVRP": "n3d", "LevelBasedForaging": "g6a2f2v2l2cGNp0t3", "Maze": "r5c8t3", "MMST": "n12e18a2k3t2",
    "MultiCVRP": "c6v2d", "PacMan": "t3", "RobotWarehouse": "s1x3h3a3r2q2t3", "Snake": "r4c6t3",
    "Sokoban": "randomt3", "TSP": "n3d",
}
SECOND_ENTRY = {"Snake": "r3c3t4000", "Knapsack": "n10s", "Connector": "g6a3t2uni", "Maze": "r3c3t1", "TSP": "n5s",
                "Minesweeper": "r4c4m15", "Game2048": "b3", "Tetris": "r6c5t7", "Cleaner": "r7c3a2t1",
                "LevelBasedForaging": "g5a1f1v5l2nVNp0t7"}


# tiny instances on which episodes keep ending by *completion* (a won game), not only by invalid moves / time limits
WIN_ENTRY = {"Snake": ["r2c2t4000"], "Sudoku": ["near"], "Maze": ["r4c7tNone"], "RubiksCube": ["n2s1t3"],
             "SlidingTilePuzzle": ["g2m1t3s"], "Sokoban": ["simplet120"], "Minesweeper": ["r2c2m1"],
             "LevelBasedForaging": ["g5a3f1v5l2nVNp0t40"], "Connector": ["g5a2t12rwc20s0"], "MMST": ["n12e18a3k2t30"],
             "Cleaner": ["r3c3a2tNone"], "PacMan": ["small200"]}
# entries that need the model's constructive policy to reach their completion endings
SOLVE_STYLES = {"PacMan", "Sudoku", "Maze", "RubiksCube", "SlidingTilePuzzle", "Sokoban", "LevelBasedForaging", "Connector", "MMST",
                "Cleaner"}
WIN_QUICK = ("Snake", "Sudoku", "Maze", "RubiksCube", "SlidingTilePuzzle", "Sokoban", "PacMan")
# long runs: (number of wrapper steps, cases) for entries whose completion ending needs a long purposeful episode
LONG_RUNS = {("PacMan", "small200"): (420, 3)}


class Rig:
    """Compiled pieces for one (env entry, flag)."""

    def __init__(self, b, flag):
        import jax

        from jumanji.wrappers import AutoResetWrapper

        self.b, self.flag = b, flag
        self.W = AutoResetWrapper(b.env, next_obs_in_extras=flag)
        self.w_reset = jax.jit(self.W.reset)
        self.w_step = jax.jit(self.W.step)

        def rollout(s, acts):
            def body(st_, a):
                st2, ts2 = self.W.step(st_, a)
                return st2, (st2, ts2)

            return jax.lax.scan(body, s, acts)

        self.w_scan = jax.jit(rollout)
        self.w_vstep = jax.jit(jax.vmap(self.W.step))
        # "a key freshly derived from the terminal state's key": the property does not fix the derivation, so a
        # small family of derivations is accepted; the first boundary decides which one the wrapper uses and every
        # later boundary (of every case run with this rig) must be consistent with it
        self.derivations = {
            "split[0]": jax.jit(lambda k: jax.random.split(k)[0]),
            "split[1]": jax.jit(lambda k: jax.random.split(k)[1]),
            "fold_in(0)": jax.jit(lambda k: jax.random.fold_in(k, 0)),
            "fold_in(1)": jax.jit(lambda k: jax.random.fold_in(k, 1)),
        }
        self.viable = list(self.derivations)
        self.auto_keys = {}
        # plain-Python (un-jitted) wrapper steps are rationed: one MID step and one LAST step, cheap environments only
        self.eager_left = {"mid": 1, "last": 1} if b.name in ("Snake", "Knapsack", "Game2048", "Maze", "TSP") else {}
        # instance diversity of this configuration: the "not the same instance again and again" oracle is only
        # evaluated where a coincidence is practically impossible (>= 16 distinct instances among 32 keys and >= 6
        # boundaries: chance of all-equal resets below 1e-6); tiny configurations (2x2 board of 2048) are skipped
        keys = [envs.make_key((i, 77)) for i in range(32)]
        ds = {instance_digest(episodes.host(b.reset(k)[0])) for k in keys}
        self.is_random = len(ds) >= 16


def stacked_bundle(b, kind=True):
    """The same configuration behind another `Wrapper`; 'the wrapped environment' of the property is then this
    wrapper, not the innermost environment.  Kinds:
    True / "tag"  harness-side Wrapper subclass whose reset/step differ observably from the base environment's
                  (every numeric observation leaf + 1; masks untouched);
    "zeromid"     the same, and every MID timestep carries an all-zero discount (a "life lost" style environment:
                  the discount says nothing about whether the step is LAST, which is all the wrapper may look at);
    "m2smin"      jumanji's own MultiToSingleWrapper with discount_aggregator=min over a multi-agent environment
                  (Connector: the aggregated discount is 0 on MID steps once one agent has finished)."""
    import jax
    import jax.numpy as jnp

    from jumanji.wrappers import MultiToSingleWrapper, Wrapper

    kind = "tag" if kind is True else kind

    class Tagged(Wrapper):
        zero_mid = kind == "zeromid"

        def _tag(self, ts):
            obs = jax.tree_util.tree_map(
                lambda x: x + 1 if (jnp.issubdtype(x.dtype, jnp.number) and x.dtype != jnp.bool_) else x, ts.observation)
            ts = ts.replace(observation=obs)
            if self.zero_mid:
                ts = ts.replace(discount=jnp.where(ts.mid(), jnp.zeros_like(ts.discount), ts.discount))
            return ts

        def reset(self, key):
            s, ts = self._env.reset(key)
            return s, self._tag(ts)

        def step(self, state, action):
            s, ts = self._env.step(state, action)
            return s, self._tag(ts)

    key = (b.name, b.entry, "stacked", kind)
    if key not in envs._BUNDLES:
        if kind == "m2smin":
            env = MultiToSingleWrapper(b.env, reward_aggregator=jnp.sum, discount_aggregator=jnp.min)
        else:
            env = Tagged(b.env)
        envs._BUNDLES[key] = envs.Bundle(b.name, b.entry, env=env)
    return envs._BUNDLES[key]


def expect_with_extras(ts, flag):
    if not flag:
        return ts
    ex = dict(ts.extras)
    ex["next_obs"] = ts.observation
    return ts.replace(extras=ex)


def run_case(ctx, rig, key_words, plan=None, actions=None, fail=None, typed=False):
    import jax

    b, flag = rig.b, rig.flag
    key = envs.make_key(key_words)
    if typed:   # new-style typed key (jax.random.key) instead of a raw uint32 pair
        key = jax.random.wrap_key_data(key)
    s, wts = rig.w_reset(key)
    s_b, ts_b = b.reset(key)
    d = treecmp.diff(episodes.host(s), episodes.host(s_b))
    if d:
        fail("reset.state", "wrapper reset state != env reset state", d)
    d = treecmp.diff(episodes.host(wts), episodes.host(expect_with_extras(ts_b, flag)))
    if d:
        fail("reset.timestep", "wrapper reset timestep != env reset timestep (+next_obs)", d)
    s0_init = s
    acts, outs, devs = [], [], []
    reset_keys = [tuple(np.asarray(episodes.host(key)).tolist())]
    digests = [instance_digest(episodes.host(s))]
    boundaries = 0
    n = len(plan["steps"]) if actions is None else len(actions)
    for i in range(n):
        if actions is None:
            mode, r = plan["steps"][i]
            a = None
            if mode == "solve":
                if not hasattr(rig, "solve_fn"):
                    rig.solve_fn = episodes.solve_fn_for(b)
                a = episodes.solved_action(b, rig.solve_fn, episodes.host(s), r)
            if a is None:
                a = b.pick_action(s, wts, mode, r)
        else:
            a = b.to_action(actions[i])
        acts.append(np.asarray(a))
        s1, ts1 = b.step(s, a)
        ws, wts2 = rig.w_step(s, a)
        ctx.evals()
        hws, hwts = episodes.host((ws, wts2))
        kind = "last" if int(ts1.step_type) == episodes.LAST else "mid"
        if rig.eager_left.get(kind, 0) > 0:
            rig.eager_left[kind] -= 1
            he = episodes.host(rig.W.step(s, a))        # the same call without jit
            ctx.evals()
            ctx.count(f"eager_wrapper_steps_{kind}")
            d = treecmp.diff(he, (hws, hwts), exact=False)
            if d:
                fail("eager", "un-jitted AutoResetWrapper.step differs from the jitted call", f"step {i} ({kind}): {d}")
        if int(ts1.step_type) != episodes.LAST:
            d = treecmp.diff(hws, episodes.host(s1))
            if d:
                fail("mid.state", "non-terminal step: wrapper state != env state", f"step {i}: {d}")
            d = treecmp.diff(hwts, episodes.host(expect_with_extras(ts1, flag)))
            if d:
                fail("mid.timestep", "non-terminal step: wrapper timestep != env timestep (+next_obs)", f"step {i}: {d}")
        else:
            boundaries += 1
            k = s0 = ts0 = None
            for name in list(rig.viable):
                k_c = rig.derivations[name](s1.key)
                s0_c, ts0_c = b.reset(k_c)
                if treecmp.diff(hws, episodes.host(s0_c)) is None:
                    k, s0, ts0 = k_c, s0_c, ts0_c
                    rig.viable = [name]          # the wrapper's derivation is now pinned
                    break
            if s0 is None:                        # no accepted derivation reproduces the state: report against the first
                k = rig.derivations[rig.viable[0]](s1.key)
                s0, ts0 = b.reset(k)
            want_ts = ts1.replace(observation=ts0.observation)
            if flag:
                ex = dict(ts1.extras)
                ex["next_obs"] = ts1.observation
                want_ts = want_ts.replace(extras=ex)
            d = treecmp.diff(hws, episodes.host(s0))
            if d:
                fail("last.state", "terminal step: wrapper state is not reset(k) for a key k freshly derived from the terminal key",
                     f"step {i} (derivations tried: {rig.viable}): {d}")
            hwant = episodes.host(want_ts)
            d = treecmp.diff(hwts.observation, hwant.observation)
            if d:
                fail("last.observation", "terminal step: observation is not the reset observation", f"step {i}: {d}")
            for fld in ("step_type", "reward", "discount"):
                d = treecmp.diff(getattr(hwts, fld), getattr(hwant, fld))
                if d:
                    fail(f"last.{fld}", f"terminal step: {fld} is not that of the terminal timestep", f"step {i}: {d}")
            d = treecmp.diff(hwts.extras, hwant.extras)
            if d:
                fail("last.extras", "terminal step: extras are not those of the terminal timestep (+next_obs)", f"step {i}: {d}")
            reset_keys.append(tuple(np.asarray(episodes.host(k)).tolist()))
            digests.append(instance_digest(hws))
            ctx.nontrivial(b.name, b.entry, flag, list(key_words), boundaries)
        outs.append((hws, hwts))
        devs.append(ws)
        s, wts = ws, wts2
    if len(set(reset_keys)) != len(reset_keys):
        fail("keys.repeat", "two resets of one run used the same key", f"{reset_keys[:6]}")
    # across the runs of this configuration: automatic resets of runs started from different keys must not fall onto
    # one and the same key ("successive automatic resets start from different keys")
    start = reset_keys[0]
    for k in reset_keys[1:]:
        first = rig.auto_keys.setdefault(k, start)
        if first != start:
            fail("keys.collapse", "automatic resets of runs started from different keys used the same key",
                 f"reset key {list(k)} reached from start keys {list(first)} and {list(start)}")
    if rig.is_random and boundaries >= 6 and len(set(digests)) == 1:
        fail("instances.constant", "every automatic reset reproduced the same instance of a random generator",
             f"{boundaries} boundaries")
    ctx.count("boundaries", boundaries)
    ctx.count(f"runs_with_{min(boundaries, 3)}{'+' if boundaries >= 3 else ''}_boundaries")
    # the same run as one scan
    NS = len(acts)
    if NS >= N_STEPS and actions is None or NS == N_STEPS:
        stacked = np.stack(acts, 0)
        _, (ss, tss) = rig.w_scan(s0_init, stacked)
        hss, htss = episodes.host((ss, tss))
        for i in (0, NS // 2, NS - 1):
            sl = jax.tree_util.tree_map(lambda x: x[i], (hss, htss))
            d = treecmp.diff(sl, outs[i], exact=False)
            ctx.evals()
            if d:
                fail("scan", "lax.scan rollout differs from per-step execution", f"step {i}: {d}")
                break
        # three points of the run as one vmapped wrapper step
        idx = [0, NS // 3, NS - 2]
        prev_states = [s0_init if i == 0 else devs[i - 1] for i in idx]
        from jumanji.tree_utils import tree_transpose

        bs = tree_transpose(prev_states)
        ba = np.stack([acts[i] for i in idx], 0)
        vs, vts = episodes.host(rig.w_vstep(bs, ba))
        for j, i in enumerate(idx):
            sl = jax.tree_util.tree_map(lambda x: x[j], (vs, vts))
            d = treecmp.diff(sl, outs[i], exact=False)
            ctx.evals()
            if d:
                fail("vmap", "vmapped wrapper step differs from single execution", f"batch index {j} (step {i}): {d}")
                break
    return acts, boundaries


# bulk sweeps: runs of N_STEPS wrapper steps per batch, screened on the device (see sweep())
SWEEP_RUNS = {"Snake": 1024, "Game2048": 1024, "Knapsack": 2048, "Connector": 256, "Maze": 1024, "Minesweeper": 1024,
              "Tetris": 512, "LevelBasedForaging": 256, "TSP": 2048, "Cleaner": 512, "CVRP": 2048, "GraphColoring": 1024,
              "SlidingTilePuzzle": 1024, "RubiksCube": 512, "JobShop": 512, "FlatPack": 512, "MultiCVRP": 256,
              "RobotWarehouse": 128, "Sokoban": 128, "Sudoku": 256, "MMST": 256}
# sweep entries where the short entry ends every episode after two or three steps (nothing but the time limit happens)
SWEEP_ENTRY = {"MMST": "n12e18a3k2t30", "RobotWarehouse": "s1x3h2a4r1q2t60", "LevelBasedForaging": "g5a3f1v5l2nVNp0t40"}
SWEEP_QUICK = ("Snake", "Game2048", "Knapsack", "Maze", "Minesweeper", "TSP", "Cleaner", "Tetris", "RubiksCube", "SlidingTilePuzzle")


def _tree_same(x, y):
    """Device-side: all leaves equal (NaN == NaN), False when the structures differ."""
    import jax
    import jax.numpy as jnp

    lx, tx = jax.tree_util.tree_flatten(x)
    ly, ty = jax.tree_util.tree_flatten(y)
    if tx != ty or any(jnp.shape(a) != jnp.shape(b) for a, b in zip(lx, ly)):
        return jnp.asarray(False)
    ok = jnp.asarray(True)
    for a, b in zip(lx, ly):
        a, b = jnp.asarray(a), jnp.asarray(b)
        if jnp.issubdtype(a.dtype, jax.dtypes.prng_key):
            a, b = jax.random.key_data(a), jax.random.key_data(b)
        eq = a == b
        if jnp.issubdtype(a.dtype, jnp.floating):
            eq = eq | (jnp.isnan(a) & jnp.isnan(b))
        ok = ok & jnp.all(eq)
    return ok


def sweep(rig, base_words, salt, n_runs, n_steps=N_STEPS):
    """n_runs runs of n_steps wrapper steps in one vmapped scan: every wrapper step is compared on the device with the
    reference composition (unwrapped step; on LAST reset with the derivation pinned for this rig).  Returns (first
    mismatching step per run or -1, boundaries per run, key words, actions, boundary flags, state key after each
    automatic reset); mismatching runs, and runs whose automatic resets produced the same state key twice (within a run
    or across runs started from different keys), are re-judged by run_case on the host."""
    import jax
    import jax.numpy as jnp

    b, flag = rig.b, rig.flag
    if not hasattr(rig, "_sweep"):
        env, W = b.env, rig.W
        pol = envs.deep_policy(b, "legal_hash")
        raw = envs._legal_hash_policy(None, b.act_dtype, b.amin, b.amax)
        derive = {"split[0]": lambda k: jax.random.split(k)[0], "split[1]": lambda k: jax.random.split(k)[1],
                  "fold_in(0)": lambda k: jax.random.fold_in(k, 0), "fold_in(1)": lambda k: jax.random.fold_in(k, 1)}[rig.viable[0]]

        def one(key0, salt_, e):
            key = jax.random.fold_in(key0, e)
            ws, wts = W.reset(key)
            chaotic = (e % 2) == 1

            def body(c, i):
                ws1, wts1, first, nb = c
                a_legal = pol(env, ws1, wts1, i, salt_ + e)
                a_raw = raw(env, ws1, wts1, i, salt_ + e + 7)
                use_raw = chaotic & (jax.random.randint(jax.random.fold_in(key, i), (), 0, 5) == 0)
                a = jnp.where(use_raw, a_raw, jnp.asarray(a_legal).astype(b.act_dtype)).astype(b.act_dtype)
                s1, ts1 = env.step(ws1, a)
                ws2, wts2 = W.step(ws1, a)
                last = ts1.last()
                s0, ts0 = env.reset(derive(s1.key))
                sel = lambda x, y: jax.tree_util.tree_map(lambda p, q: jnp.where(last, p, q), x, y)  # noqa: E731
                ok = _tree_same(ws2, sel(s0, s1)) & _tree_same(wts2.observation, sel(ts0.observation, ts1.observation))
                ok = ok & (wts2.step_type == ts1.step_type) & _tree_same(wts2.reward, ts1.reward)
                ok = ok & _tree_same(wts2.discount, ts1.discount)
                ex = dict(wts2.extras) if isinstance(wts2.extras, dict) else wts2.extras
                if flag:
                    ok = ok & ("next_obs" in ex) & _tree_same(ex.get("next_obs"), ts1.observation)
                    ex = {k: v for k, v in ex.items() if k != "next_obs"}
                ok = ok & _tree_same(ex, dict(ts1.extras) if isinstance(ts1.extras, dict) else ts1.extras)
                first = jnp.where((first < 0) & ~ok, i, first)
                k2 = ws2.key
                if jnp.issubdtype(k2.dtype, jax.dtypes.prng_key):
                    k2 = jax.random.key_data(k2)
                return (ws2, wts2, first, nb + last.astype(jnp.int32)), (a, last, jnp.where(last, k2, jnp.zeros_like(k2)))

            (_, _, first, nb), (acts, lasts, bkeys) = jax.lax.scan(
                body, (ws, wts, jnp.asarray(-1, jnp.int32), jnp.asarray(0, jnp.int32)), jnp.arange(n_steps))
            return first, nb, key, acts, lasts, bkeys

        rig._sweep = jax.jit(jax.vmap(one, in_axes=(None, None, 0)))
    first, nb, keys, acts, lasts, bkeys = rig._sweep(envs.make_key(base_words), jnp.asarray(salt, jnp.int32), jnp.arange(n_runs))
    return np.asarray(first), np.asarray(nb), np.asarray(keys), np.asarray(acts), np.asarray(lasts), np.asarray(bkeys)


def run_sweep(item, seed):
    from vf.hyp import st

    ctx = Ctx(PROPERTY, item)
    env, entry, flag = item["env"], item["entry"], item["flag"]
    with ctx.guard(env, {"env": env, "entry": entry, "flag": flag, "stage": "construct", "stack": False}):
        b = envs.bundle(env, entry)
        rig = Rig(b, flag)
        # pin the wrapper's key derivation with one ordinary host case first (its first boundary decides)
        pin = {"env": env, "entry": entry, "flag": flag, "key": [1, 2], "actions": [], "stack": False, "typed": False}

        def fail0(oracle, sig, msg):
            ctx.fail(oracle, env, sig, f"{msg} [entry={entry} flag={flag} key=[1, 2]]", pin, size=10**6)

        plan = {"style": "pin", "steps": [("legal", 3 * i + 1) if i % 5 else ("raw", 7 * i) for i in range(N_STEPS)]}
        with ctx.guard(env, pin, size=10**6):
            acts0, _ = run_case(ctx, rig, [1, 2], plan=plan, fail=fail0)
            pin["actions"] = [a.tolist() for a in acts0]

        def one(key, salt):
            with ctx.guard(env, {"env": env, "entry": entry, "flag": flag, "key": list(key), "actions": [], "stage": "sweep"}):
                first, nb, kws, acts, lasts, bkeys = sweep(rig, key, salt, item["runs"])
            # "successive automatic resets start from different keys": the state keys after all automatic resets of the
            # batch (different runs start from different keys) must be pairwise different
            seen, suspects = {}, []
            for e, t in zip(*np.nonzero(lasts)):
                k = (int(bkeys[e, t, 0]), int(bkeys[e, t, 1])) if bkeys.ndim == 3 else int(bkeys[e, t])
                if k in seen and len(suspects) < 4:
                    suspects += [seen[k], int(e)]
                seen.setdefault(k, int(e))
            ctx.count("sweep_reset_keys_compared", len(seen))
            ctx.evals(int(len(first)) * N_STEPS)
            ctx.count("sweep_runs", len(first))
            ctx.count("sweep_wrapper_steps", int(len(first)) * N_STEPS)
            ctx.count("sweep_boundaries", int(nb.sum()))
            ctx.nontrivial(env, entry, flag, "sweep", int(nb.sum()))
            for e in list(np.flatnonzero(first >= 0)[:3]) + suspects:
                kw = [int(kws[e][0]), int(kws[e][1])]
                case = {"env": env, "entry": entry, "flag": flag, "key": kw, "stack": False, "typed": False,
                        "actions": [np.asarray(a).tolist() for a in acts[e]]}
                before = sum(f["hits"] for f in ctx.failures.values())

                def fail(oracle, sig, msg, case=case, kw=kw):
                    ctx.fail(oracle, env, sig, f"{msg} [entry={entry} flag={flag} key={kw}]", case, size=len(case["actions"]))

                with ctx.guard(env, case, size=10**6):
                    run_case(ctx, rig, kw, actions=case["actions"], fail=fail)
                ctx.count("sweep_flagged")
                if sum(f["hits"] for f in ctx.failures.values()) == before:
                    ctx.count("sweep_unconfirmed")
            if len(ctx.samples) < 2:
                ctx.sample({"env": env, "entry": entry, "flag": flag, "sweep_base_key": list(key), "salt": salt,
                            "runs": int(len(first)), "boundaries": int(nb.sum())})

        hyp.drive({"key": episodes.keys(), "salt": st.integers(0, 2**20)}, one, seed, item["batches"])
    return ctx.result()


def work_items(tier, flt):
    scale = (flt or {}).get("scale", 1.0)
    names = list(dict.fromkeys(QUICK_ENVS + list(WIN_QUICK))) if tier == "quick" else envs.ENV_NAMES
    items = []
    for i, env in enumerate(envs.select_envs([e for e in SWEEP_RUNS if tier != "quick" or e in SWEEP_QUICK], flt)):
        s_entry = SWEEP_ENTRY.get(env, SHORT_ENTRY[env])
        if flt and flt.get("entry") and s_entry not in flt["entry"]:
            continue
        for flag in ((bool(i % 2),) if tier == "quick" else (False, True)):
            items.append({"kind": "sweep", "env": env, "entry": s_entry, "flag": flag, "runs": SWEEP_RUNS[env],
                          "batches": 1 if tier == "quick" else 3, "cost": 3})
    for env in envs.select_envs(names, flt):
        win = [e for e in WIN_ENTRY.get(env, []) if e != SHORT_ENTRY[env] and (tier != "quick" or env in WIN_QUICK)]
        es = [SHORT_ENTRY[env]] + win
        if tier == "quick" and env not in QUICK_ENVS:
            es = list(WIN_ENTRY.get(env, [])) if env in WIN_QUICK else []
        if tier == "thorough" and env in SECOND_ENTRY:
            es.append(SECOND_ENTRY[env])
        if flt and flt.get("entry"):
            es = flt["entry"]
        for e in es:
            for flag in (False, True):
                if (env, e) in LONG_RUNS:
                    if flag or tier != "quick":
                        ns, nc = LONG_RUNS[(env, e)]
                        items.append({"env": env, "entry": e, "flag": flag, "n_steps": ns,
                                      "n": max(2, int(nc * (1 if tier == "quick" else 3) * scale)), "cost": 8})
                    continue
                items.append({"env": env, "entry": e, "flag": flag,
                              "n": max(2, int((10 if tier == "quick" else 60) * scale)),
                              "cost": {"BinPack": 8, "MMST": 8, "PacMan": 4, "Connector": 3}.get(env, 1)})
    # the auto-reset wrapper stacked over another Wrapper (not only over bare environments)
    stacks = [("Snake", True, True), ("Knapsack", False, True), ("Snake", False, "zeromid"), ("Connector", True, "m2smin")]
    if tier != "quick":
        stacks += [("Game2048", False, True), ("Maze", True, True), ("Connector", True, True), ("Maze", False, "zeromid"),
                   ("Knapsack", True, "zeromid"), ("Connector", False, "m2smin"), ("LevelBasedForaging", True, "m2smin")]
    for env, flag in ((("Snake", False), ("Knapsack", True)) if tier == "quick" else
                      (("Snake", False), ("Knapsack", True), ("Game2048", True), ("Maze", False), ("Tetris", True))):
        if envs.select_envs([env], flt):
            items.append({"env": env, "entry": SHORT_ENTRY[env], "flag": flag, "typed": True,
                          "n": max(2, int((5 if tier == "quick" else 25) * scale)), "cost": 1})
    for env, flag, kind in stacks:
        if envs.select_envs([env], flt):
            entry = "g6a3t50rw" if (env == "Connector" and kind == "m2smin") else SHORT_ENTRY[env]
            items.append({"env": env, "entry": entry, "flag": flag, "stack": kind,
                          "n": max(2, int((6 if tier == "quick" else 30) * scale)), "cost": 1})
    return items


def run_item(item, seed, tier):
    if item.get("kind") == "sweep":
        return run_sweep(item, seed)
    ctx = Ctx(PROPERTY, item)
    env, entry, flag = item["env"], item["entry"], item["flag"]
    with ctx.guard(env, {"env": env, "entry": entry, "flag": flag, "stage": "construct", "stack": item.get("stack", False)}):
        b = envs.bundle(env, entry)
        if item.get("stack"):
            b = stacked_bundle(b, item["stack"])
        rig = Rig(b, flag)

        def one(key, plan):
            case = {"env": env, "entry": entry, "flag": flag, "key": list(key), "actions": [],
                    "stack": item.get("stack", False), "typed": bool(item.get("typed"))}

            def fail(oracle, sig, msg):
                ctx.fail(oracle, env, sig, f"{msg} [entry={entry} flag={flag} stack={case['stack']} key={list(key)}]", case,
                         size=len(case["actions"]))

            with ctx.guard(env, case, size=10**6):
                acts, nb = run_case(ctx, rig, key, plan=plan, fail=fail, typed=case["typed"])
                case["actions"] = [a.tolist() for a in acts]
                for f in ctx.failures.values():
                    if f["case"] is not None and f["case"].get("key") == list(key) and not f["case"].get("actions"):
                        f["case"]["actions"] = case["actions"]
                if len(ctx.samples) < 2:
                    ctx.sample({"env": env, "entry": entry, "flag": flag, "key": list(key), "boundaries": nb,
                                "actions": case["actions"][:10]})

        styles = ("legalish", "chaos", "late_illegal", "legal")
        if env in SOLVE_STYLES and entry in WIN_ENTRY.get(env, []):
            styles = ("solve", "legalish", "solveish", "chaos", "solve", "late_illegal") if entry == SHORT_ENTRY[env] else \
                ("solve", "solve", "solveish", "legal")
        ns = int(item.get("n_steps", N_STEPS))
        if ns != N_STEPS:
            styles = ("solve",)
        hyp.drive({"key": episodes.keys(),
                   "plan": episodes.plans(max_len=ns, min_len=ns, styles=styles)},
                  one, seed, item["n"])
    return ctx.result()


def replay(case):
    ctx = Ctx(PROPERTY, {})
    env = case["env"]
    with ctx.guard(env, case):
        b = envs.bundle(env, case["entry"])
        if case.get("stack"):
            b = stacked_bundle(b, case["stack"])
        rig = Rig(b, case["flag"])
        if case.get("stage") == "construct":
            return []

        def fail(oracle, sig, msg):
            ctx.fail(oracle, env, sig, msg, case)

        run_case(ctx, rig, case["key"], actions=case["actions"], fail=fail, typed=bool(case.get("typed")))
    return list(ctx.failures.values())

"""C10 - every generated instance is well-formed and solvable as advertised."""
from vf import modelprops as mp

PROPERTY = "C10"
TECHNIQUE = ("batches of PRNG keys (derived from Hypothesis-drawn base keys) through every shipped generator "
             "configuration via vmap(reset); per-instance NumPy validators (connectivity, solvability, counts, ranges)")
RULE = ("cases = (generator configuration incl. dense corners the constructors accept, reset key); each instance is "
        "validated by an independent NumPy predicate; random generators must yield >= 2 distinct instances per batch; "
        "non-trivial = distinct instances (digest of the instance arrays without the key)")
ASSUMPTIONS = ["only documented parameter ranges are used", "solver searches that hit their node budget count as inconclusive, never as violations"]


def work_items(tier, flt):
    return mp.c10_work_items(tier, flt)


def run_item(item, seed, tier):
    return mp.c10_run_item(PROPERTY, item, seed, tier)


def replay(case):
    return mp.c10_replay(PROPERTY, case)

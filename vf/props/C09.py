"""C09 - transitions follow the published rules of each game (reference-model agreement)."""
from vf import modelprops as mp

PROPERTY = "C09"
TECHNIQUE = ("differential testing against independent pure-NumPy rule models on Hypothesis-generated histories, plus "
             "exhaustive synthetic state tables where the domain is small")
RULE = ("cases = (state, action) pairs met along generated plans (legal, raw, adversarial); each is replayed in the "
        "NumPy rule model and compared field by field (problem fields, reward, termination), stochastic parts by "
        "membership; non-trivial = transitions that change the state, distinct by (state digest, action)")
ASSUMPTIONS = ["for terminate-on-invalid envs the model predicts state fields on invalid moves only where documented"]
_P = mp.HistoryProp(PROPERTY, "predict", mp.C09Mon, n_quick=30, n_thorough=300, max_len=60,
                    styles=("legalish", "chaos", "survive", "legal", "solveish", "crowded", "solve"), use_model_legality=True)
_P.export(globals())

# ---- synthetic state tables: a model module may define
#   SYNTHETIC_SHARDS = {"quick": k, "thorough": m}
#   synthetic_c09(ctx, item, seed, tier)   (item has 'env', 'shard', 'shards'); uses ctx.evals/nontrivial/fail,
#   may set ctx.exhaustive["<name>"] = True for completely enumerated finite tables
#   synthetic_replay(case) -> list of (oracle, sig, msg)     for cases recorded with {"synthetic": True, ...}
import importlib  # noqa: E402

from vf import envs  # noqa: E402
from vf.models import base  # noqa: E402
from vf.runner import Ctx  # noqa: E402

_hist_work_items, _hist_run_item, _hist_replay = work_items, run_item, replay  # noqa: F821


def _synthetic_modules(flt):
    out = []
    for env, modname in base._MODULES.items():
        if flt and flt.get("env") and env not in flt["env"]:
            continue
        try:
            mod = importlib.import_module(f"vf.models.{modname}")
        except ModuleNotFoundError:
            continue
        if hasattr(mod, "synthetic_c09"):
            out.append((env, mod))
    return out


def work_items(tier, flt):  # noqa: F811
    items = _hist_work_items(tier, flt) + mp.bfs_work_items(PROPERTY, "predict", tier, flt)
    if not (flt and flt.get("entry")):
        for env, mod in _synthetic_modules(flt):
            k = getattr(mod, "SYNTHETIC_SHARDS", {"quick": 1, "thorough": 2})[tier]
            for sh in range(k):
                items.append({"kind": "synthetic", "env": env, "entry": "synthetic", "shard": sh, "shards": k, "cost": 3})
    return items


def run_item(item, seed, tier):  # noqa: F811
    if item.get("kind") == "bfs":
        return mp.bfs_run_item(PROPERTY, item, seed, mp.C09Mon, "predict")
    if item.get("kind") != "synthetic":
        return _hist_run_item(item, seed, tier)
    ctx = Ctx(PROPERTY, item)
    mod = importlib.import_module(f"vf.models.{base._MODULES[item['env']]}")
    with ctx.guard(item["env"], {"env": item["env"], "synthetic": True, "stage": "synthetic", "item": item}):
        mod.synthetic_c09(ctx, item, seed, tier)
    return ctx.result()


def replay(case):  # noqa: F811
    if case.get("synthetic"):
        mod = importlib.import_module(f"vf.models.{base._MODULES[case['env']]}")
        if case.get("stage") == "synthetic":
            return run_item(case["item"], 1, "quick")["failures"]
        return [{"env": case["env"], "oracle": o, "sig": s, "msg": m} for o, s, m in mod.synthetic_replay(case)]
    return _hist_replay(case)

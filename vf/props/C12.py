"""C12 - observations are faithful views of the state."""
from vf import modelprops as mp

PROPERTY = "C12"
TECHNIQUE = ("Hypothesis-generated keys x plans; each (state, observation) pair returned together is compared with an "
             "independent NumPy observer")
RULE = ("cases = (env, entry covering fov/sensor ranges, obs_num_ems, normalisation, both LBF observers; key; plan); the "
        "observation is recomputed from the state by an independent NumPy observer and compared; non-trivial = states at "
        "depth >= 1, distinct by state digest")
ASSUMPTIONS = ["ties and cases the documentation leaves undefined are excluded inside the per-env observers (see DESIGN C12 guards)"]
_P = mp.HistoryProp(PROPERTY, "observe_check", mp.C12Mon, n_quick=24, n_thorough=250, max_len=50,
                    styles=("legalish", "survive", "legal", "chaos", "solveish", "crowded", "solve"))
_P.export(globals())

"""C07 - game and grid worlds stay physically consistent under any actions."""
from vf import modelprops as mp

PROPERTY = "C07"
TECHNIQUE = ("Hypothesis-generated keys x plans mixing legal, illegal and raw actions; physical-consistency invariants "
             "recomputed in NumPy on every non-terminal state")
RULE = ("cases = (grid/game env, entry incl. non-square and tiny grids, key, plan over legal/illegal/raw modes); the "
        "invariant predicate (positions in grid and off walls, uniqueness, table/grid agreement, conserved quantities) is "
        "evaluated on the reset state and on every state whose timestep is not LAST; non-trivial = states at depth >= 2 "
        "that differ from their predecessor, distinct by state digest")
ASSUMPTIONS = ["PacMan ghost_locations rows are (column, row) while player_locations is (x=row, y=column) (validated, DESIGN 2.7)"]
_P = mp.HistoryProp(PROPERTY, "invariants", mp.C07Mon, n_quick=30, n_thorough=300, max_len=60,
                    styles=("legalish", "chaos", "survive", "legal", "late_illegal", "solveish", "crowded"))
_P.export(globals())


# bounded exhaustive exploration of small deterministic environments (see modelprops.BFS_ENVS)
_hist_work_items, _hist_run_item = work_items, run_item  # noqa: F821


def work_items(tier, flt):  # noqa: F811
    return _hist_work_items(tier, flt) + mp.bfs_work_items(PROPERTY, "invariants", tier, flt)


def run_item(item, seed, tier):  # noqa: F811
    if item.get("kind") == "bfs":
        return mp.bfs_run_item(PROPERTY, item, seed, mp.C07Mon, "invariants")
    return _hist_run_item(item, seed, tier)

"""C18 - the registry maps each id to one reproducible configuration.

Three families of work items:

* ``ids``      Hypothesis-generated id strings, decided by a hand-written parser of the documented
               grammar ``<env-name>-v<version>`` (no ``re``): round trip for well-formed ids,
               ``ValueError`` for everything else.
* ``machine``  a ``RuleBasedStateMachine`` over register / make / registered_environments with a
               model dict and a recording dummy entry point (``vf.dummy:Recorder``).  The rules
               only *draw* JSON-able operations; a deterministic interpreter (`Interp`) executes
               them against jumanji and the model, so a replay file is just the operation list.
* ``shipped``  the 25 ids registered by ``import jumanji``: instantiate, compare with the
               configuration documented next to each ``register`` call, two ``make`` calls give
               equal specs (independent walker + the specs' own ``==``) and bitwise identical
               reset/step results for Hypothesis-drawn keys and mask-respecting actions.

Failures are collected with ``ctx.fail`` (never raised); ``replay(case)`` re-evaluates one concrete
case without Hypothesis.
"""
from __future__ import annotations

import copy
import json
import unicodedata

import numpy as np

from vf import hyp
from vf.hyp import st
from vf.runner import Ctx, classify_exception, exc_sig

PROPERTY = "C18"
TECHNIQUE = ("Hypothesis id strings built from grammar parts vs a hand-written parser; "
             "RuleBasedStateMachine over register/make/registered_environments vs a model dict with a "
             "recording dummy entry point; the 25 shipped ids vs the documented configuration, spec "
             "walker and twin-environment bitwise comparison")
RULE = ("ids: a generated string counts when it exercises a grammar feature (a well-formed '-v<N>' suffix, "
        "a non-ASCII character, a leading zero, more than one '-v', a disallowed character), distinct by "
        "string; machine: a run counts when it contains >= 1 duplicate register (incl. non-canonical "
        "spellings such as 'x-v007' after 'x-v7') or >= 1 make of a registered id with caller keyword "
        "arguments, distinct by operation list; shipped: every (id, documented-configuration check) and "
        "every (id, key, action list) twin run with >= 1 step, distinct by digest")
ASSUMPTIONS = [
    "word characters are those of Python's documented Unicode \\w (str.isalnum() or '_'); digits are "
    "Unicode decimal digits (str.isdecimal()), which int() accepts as well",
    "version numbers have at most 400 digits in the generated domain (CPython refuses int<->str "
    "conversion beyond 4300 digits; such ids are outside the domain)",
    "ids are str objects (lone surrogates included, as disallowed characters); version numbers are non-negative",
    "Sokoban-v0 is instantiated with generator=ToyGenerator() because its dataset is not available "
    "offline; a plain make('Sokoban-v0') is not attempted",
    "register() is called with constructor arguments passed as kwargs={...}, as jumanji/__init__.py does",
    "JAX default 32-bit mode on CPU",
]

ENV_IDS = "registration.ids"
ENV_MACHINE = "registry.machine"
DUMMY_MODULE = "vf.dummy"


# ======================================================================================= A. ids
# ------------------------------------------------------------------------- hand-written oracle
def allowed_char(c: str) -> bool:
    """One character of the documented name alphabet [\\w:.-] (Unicode \\w = alphanumeric or '_')."""
    return c == "_" or c == ":" or c == "." or c == "-" or c.isalnum()


def o_parse(s: str):
    """Parse `s` by the documented grammar <env-name>-v<version>.

    -> ("valid", name, n) | ("malformed", why) | ("versionless", why).  The version is the maximal
    run of decimal digits at the end, it must be preceded by '-v', and what precedes that is the
    (non-empty) name; hence 'a-v1-v2' is name 'a-v1', version 2."""
    if s == "":
        return ("malformed", "empty string")
    for c in s:
        if not allowed_char(c):
            return ("malformed", "character outside [\\w:.-]")
    i = len(s)
    while i > 0 and s[i - 1].isdecimal():
        i -= 1
    if i == len(s):
        return ("versionless", "no digits at the end")
    if i < 2 or s[i - 2] != "-" or s[i - 1] != "v":
        return ("versionless", "digits not preceded by '-v'")
    if i == 2:
        return ("versionless", "empty name")
    n = 0
    for c in s[i:]:
        n = n * 10 + unicodedata.decimal(c)
    return ("valid", s[: i - 2], n)


def o_dec(n: int) -> str:
    """Decimal text of a non-negative int, ASCII digits, no leading zeros."""
    if n == 0:
        return "0"
    out = []
    while n:
        n, d = divmod(n, 10)
        out.append("0123456789"[d])
    return "".join(reversed(out))


def o_canon(name: str, n: int) -> str:
    return name + "-v" + o_dec(n)


def id_features(s: str, p) -> list:
    f = []
    if p[0] == "valid":
        f.append("version_suffix")
        vt = s[len(p[1]) + 2:]
        if len(vt) > 1 and unicodedata.decimal(vt[0]) == 0:
            f.append("leading_zero")
        if any(ord(c) > 127 for c in vt):
            f.append("unicode_digits")
        if len(vt) >= 20:
            f.append("huge_version")
        if s == o_canon(p[1], p[2]):
            f.append("canonical")
    if any(ord(c) > 127 for c in s):
        f.append("non_ascii")
    if s.count("-v") > 1:
        f.append("multi_dash_v")
    if ":" in s:
        f.append("colon")
    if "." in s:
        f.append("dot")
    if p[0] == "malformed" and s != "":
        f.append("disallowed_char")
    return f


def _call(f, *a, **k):
    try:
        return ("ret", f(*a, **k))
    except Exception as e:  # noqa: BLE001 - the outcome *is* the observation
        return ("exc", e)


def _is_pair(got, name, n):
    """None if `got` is exactly the pair (name, n) with a str and a true int, else what is wrong."""
    if not (isinstance(got, tuple) and len(got) == 2):
        return "result is not a 2-tuple"
    if type(got[0]) is not str or type(got[1]) is not int:
        return "result is not a (str, int) pair"
    if got[0] != name:
        return "name differs"
    if got[1] != n:
        return "version differs"
    return None


def eval_id(case):
    """-> (fails[(oracle, sig, msg)], info)"""
    import jumanji.registration as reg

    s = case["id"]
    p = o_parse(s)
    feats = id_features(s, p)
    info = {"class": p[0], "features": feats}
    fails = []
    r = _call(reg.parse_env_id, s)
    if p[0] != "valid":
        what = "malformed" if p[0] == "malformed" else "version-less"
        if r[0] == "ret":
            fails.append(("id.rejects", f"{what} id accepted",
                          f"parse_env_id({s!r}) returned {r[1]!r}; grammar: {p[1]}"))
        elif not isinstance(r[1], ValueError):
            fails.append(("id.rejects", f"{what} id raises {type(r[1]).__name__} instead of ValueError",
                          f"parse_env_id({s!r}) raised {r[1]!r}; grammar: {p[1]}"))
        return fails, info
    _, name, n = p
    canon = o_canon(name, n)
    if r[0] == "exc":
        fails.append(("id.parse", f"well-formed id rejected ({type(r[1]).__name__})",
                      f"parse_env_id({s!r}) raised {r[1]!r}; expected ({name!r}, {n})"))
        return fails, info
    bad = _is_pair(r[1], name, n)
    if bad:
        fails.append(("id.parse", bad, f"parse_env_id({s!r}) = {r[1]!r}; expected ({name!r}, {n})"))
    # formatting of the pair the grammar gives
    c = _call(reg.get_env_id, name, n)
    if c[0] == "exc" or c[1] != canon or type(c[1]) is not str:
        fails.append(("id.format", "get_env_id(name, N) is not '<name>-v<N>'",
                      f"get_env_id({name!r}, {n}) -> {c[1]!r}; expected {canon!r}"))
    else:
        back = _call(reg.parse_env_id, c[1])
        if back[0] == "exc" or _is_pair(back[1], name, n):
            fails.append(("id.roundtrip", "parse(get_env_id(name, N)) != (name, N)",
                          f"parse_env_id({c[1]!r}) -> {back[1]!r}; expected ({name!r}, {n})"))
    # formatting of the pair the code itself returned
    if isinstance(r[1], tuple) and len(r[1]) == 2:
        c2 = _call(reg.get_env_id, *r[1])
        if s == canon:
            if c2[0] == "exc" or c2[1] != s:
                fails.append(("id.roundtrip", "canonical id does not format back to itself",
                              f"get_env_id(*parse_env_id({s!r})) -> {c2[1]!r}"))
        else:
            ok = c2[0] == "ret" and c2[1] == canon
            if ok:
                again = _call(reg.parse_env_id, c2[1])
                ok = again[0] == "ret" and again[1] == r[1]
                if ok:
                    c3 = _call(reg.get_env_id, *again[1])
                    ok = c3[0] == "ret" and c3[1] == c2[1]
            if not ok:
                fails.append(("id.canonicalise", "non-canonical id is not canonicalised idempotently",
                              f"{s!r} -> parse {r[1]!r} -> format {c2[1]!r}; expected canonical {canon!r} "
                              "and a fixed point from there"))
    return fails, info


# --------------------------------------------------------------------------------- strategies
_WORD_CATS = ("Lu", "Ll", "Lt", "Lm", "Lo", "Nd", "Nl", "No")
_BAD_ASCII = " /@\n\t!+=*#,;'\"()[]{}\\|~^%$&?<>\r\x00\x0b"
_MIXED_DIGITS = "0123456789٠١٢٣٧٩０１９७५൦"
_NON_DECIMAL = ["²", "①", "½", "Ⅷ", "৴", "³"]


def _name_piece():
    return st.one_of(
        st.sampled_from(list("abcxzvV_0199")),
        st.sampled_from([":", ".", "-", "-v", "-v3", "-v", "v", "-V", "Env", "Snake", "--", "-v0-", "-v12",
                         "a:b", "pkg.mod", "_"]),
        st.characters(min_codepoint=0x80, categories=_WORD_CATS),
    )


def _name():
    return st.one_of(st.lists(_name_piece(), min_size=1, max_size=6).map("".join),
                     st.lists(_name_piece(), min_size=1, max_size=3).map("".join),
                     st.lists(_name_piece(), min_size=0, max_size=2).map("".join))


def _version_text():
    return st.one_of(
        st.integers(0, 30).map(str),
        st.integers(0, 10**6).map(str),
        st.integers(10**18, 10**80).map(str),
        st.tuples(st.integers(1, 5), st.integers(0, 999)).map(lambda t: "0" * t[0] + str(t[1])),
        st.text(st.characters(categories=("Nd",)), min_size=1, max_size=6),
        st.text(_MIXED_DIGITS, min_size=1, max_size=8),
        st.integers(10**60, 10**399).map(str),
    )


_KINDS = (["valid"] * 10 + ["versionless"] * 2 + ["dangling", "empty_name"] + ["bad_char"] * 3
          + ["trailing_ws", "text", "non_decimal"] + ["near_miss"] * 2)
_NEAR = ["{n}-V{v}", "{n}v{v}", "{n}-v{v}x", "{n}-v-{v}", "{n}-v{v}.0", "{n}-v+{v}", "{n}_v{v}", "{n}-v{v}-",
         "{n}-v{v}-v", "{n}--v{v}", "{n}-vv{v}", "{n}-v{v}-v{v}", "{n}-v{v}:", "{n}- v{v}", "{n}-v{v}_"]


_S_NAME = _name()
_S_VER = _version_text()
_S_KIND = st.sampled_from(_KINDS)
_S_TEXT = st.text(max_size=12)
_S_BAD = st.one_of(st.sampled_from(list(_BAD_ASCII)), st.characters().filter(lambda c: not allowed_char(c)))
_S_WS = st.sampled_from(["\n", " ", "\r\n", "\t", " ", "\x85"])
_S_NONDEC = st.tuples(st.sampled_from(["", "1"]), st.sampled_from(_NON_DECIMAL))
_S_NEAR = st.sampled_from(_NEAR)
_S_POS = st.integers(0, 10**6)


@st.composite
def _id_case(draw):
    how = draw(_S_KIND)
    if how == "text":
        return {"kind": "id", "id": draw(_S_TEXT), "how": how}
    n, v = draw(_S_NAME), draw(_S_VER)
    if how == "valid":
        s = n + "-v" + v
    elif how == "versionless":
        s = n
    elif how == "dangling":
        s = n + "-v"
    elif how == "empty_name":
        s = "-v" + v
    elif how == "bad_char":
        s = n + "-v" + v
        ch = draw(_S_BAD)
        k = draw(_S_POS) % (len(s) + 1)
        s = s[:k] + ch + s[k:]
    elif how == "trailing_ws":
        s = n + "-v" + v + draw(_S_WS)
    elif how == "non_decimal":
        s = n + "-v" + "".join(draw(_S_NONDEC))
    else:
        s = draw(_S_NEAR).format(n=n, v=v)
    return {"kind": "id", "id": s, "how": how}


_S_ID_CASE = _id_case()


def id_case():
    return _S_ID_CASE


# =================================================================================== B. machine
_M_NAMES = ["x", "y", "x-v1", "env:a.b", "Ünï_1", "Snake", "Sudoku-very-easy"]
_M_VERS = ["0", "1", "2", "7", "007", "01", "10", "٧", "00", "1", "3", "4", "5", "12345678901234567890123"]
_M_BAD = ["x", "x-v", "-v1", "bad id-v1", "x-v1\n", "", "x/y-v0", "x-V1", "x-v²"]
_M_KEYS = ["a", "b", "c"]
_M_VALS = [0, 1, 2, "s", "t", None, [1, 2], {"k": 1}, {"k": 2}, {"j": 3}, {}, {"k": {"n": 1}}, {"k": {"m": 2}, "j": 0},
           {"$opaque": 0}, {"$opaque": 1}, {"k": {"$opaque": 0}}]


class Opaque:
    """A registered argument that is not a plain value: like the generator / viewer objects that jumanji/__init__.py
    registers, it holds a resource (a lock here), so it can be neither pickled nor deep-copied.  Operations stay
    JSON-able: the marker {"$opaque": n} stands for the live object _OPAQUES[n] (see _live / _enc)."""

    def __init__(self, token):
        import threading

        self.token, self._lock = token, threading.Lock()

    def __repr__(self):
        return f"Opaque({self.token})"


_OPAQUES = [Opaque(0), Opaque(1)]


def _live(v):
    """JSON description -> fresh containers holding the live argument objects."""
    if isinstance(v, dict):
        if set(v) == {"$opaque"}:
            return _OPAQUES[v["$opaque"]]
        return {k: _live(x) for k, x in v.items()}
    if isinstance(v, list):
        return [_live(x) for x in v]
    return v


def _enc(o):
    # equality of opaque arguments is by token (an equivalent object is accepted, identity is not demanded)
    if isinstance(o, Opaque):
        return {"$opaque": o.token}
    raise TypeError(type(o).__name__)


def _m_id():
    return st.one_of(
        st.tuples(st.sampled_from(_M_NAMES), st.sampled_from(_M_VERS)).map(lambda t: t[0] + "-v" + t[1]),
        st.tuples(st.sampled_from(_M_NAMES[:3]), st.sampled_from(_M_VERS)).map(lambda t: t[0] + "-v" + t[1]),
        st.sampled_from(_M_BAD),
    )


def _m_kwargs():
    return st.dictionaries(st.sampled_from(_M_KEYS), st.sampled_from(_M_VALS), max_size=3)


def _same(a, b) -> bool:
    """Strict structural equality of JSON-able values (1 != True != 1.0, key order irrelevant)."""
    try:
        return json.dumps(a, sort_keys=True, default=_enc) == json.dumps(b, sort_keys=True, default=_enc)
    except (TypeError, ValueError):
        return False


_PRISTINE = {}


def _pristine():
    """The registry as `import jumanji` leaves it, captured once per process."""
    import jumanji  # noqa: F401  (runs the register calls)
    import jumanji.registration as reg

    if "snap" not in _PRISTINE:
        _PRISTINE["snap"] = dict(reg._REGISTRY)
    return _PRISTINE["snap"]


def _restore():
    import jumanji.registration as reg

    snap = _pristine()
    reg._REGISTRY.clear()
    reg._REGISTRY.update(snap)


class Interp:
    """Executes JSON-able operations against jumanji's registry and a model dict."""

    def __init__(self):
        import jumanji
        import jumanji.registration as reg

        self.j, self.reg = jumanji, reg
        _restore()
        self.snapshot = dict(reg._REGISTRY)
        self.model = {}          # canonical id -> {"entry", "kwargs", "name", "n"}   (ours only)
        self.stats = {}
        self.flag_dup = False
        self.flag_override = False

    def close(self):
        _restore()

    def _stat(self, k):
        self.stats[k] = self.stats.get(k, 0) + 1

    # -- registry == model
    def check_registry(self, ctxt: str) -> list:
        fails = []
        R = self.reg._REGISTRY
        want = set(self.snapshot) | set(self.model)
        keys = set(R.keys())
        if keys != want:
            fails.append(("registry.unchanged", f"after {ctxt}: registry ids differ from the model",
                          f"extra={sorted(keys - want)} missing={sorted(want - keys)}"))
        listed = _call(self.reg.registered_environments)
        if listed[0] == "exc" or not isinstance(listed[1], (set, frozenset)) or set(listed[1]) != want:
            fails.append(("registry.listing", f"after {ctxt}: registered_environments() != model ids",
                          f"got {listed[1]!r}"[:600]))
        for k, m in self.model.items():
            sp = R.get(k)
            if sp is None:
                continue
            if sp.id != k or sp.entry_point != m["entry"]:
                fails.append(("registry.unchanged", f"after {ctxt}: entry point / id of a registered spec differs from the model",
                              f"{k}: id={sp.id!r} entry_point={sp.entry_point!r}; model {m['entry']!r}"))
            if not isinstance(sp.kwargs, dict) or not _same(sp.kwargs, m["kwargs"]):
                fails.append(("registry.unchanged", f"after {ctxt}: registered kwargs differ from the model",
                              f"{k}: registry kwargs={sp.kwargs!r}; model {m['kwargs']!r}"))
            if _is_pair((sp.name, sp.version), m["name"], m["n"]):
                fails.append(("registry.unchanged", f"after {ctxt}: spec name/version differ from the parsed id",
                              f"{k}: ({sp.name!r}, {sp.version!r}); model ({m['name']!r}, {m['n']})"))
        for k, sp0 in self.snapshot.items():
            if k in R and R[k] is not sp0:
                fails.append(("registry.unchanged", f"after {ctxt}: a shipped spec object was replaced", k))
        return fails

    def _resync(self):
        """After a reported discrepancy continue from a state the model can describe (avoids
        cascades): shipped specs are put back, entries under keys that are not canonical well-formed
        ids are dropped, every other entry is taken over into the model as it is."""
        R = self.reg._REGISTRY
        for k, sp0 in self.snapshot.items():
            R[k] = sp0
        self.model = {}
        for k in list(R):
            if k in self.snapshot:
                continue
            sp, p = R[k], o_parse(k)
            try:
                kw = json.loads(json.dumps(sp.kwargs, default=_enc))
                ok = p[0] == "valid" and o_canon(p[1], p[2]) == k and isinstance(sp.kwargs, dict) \
                    and _is_pair((sp.name, sp.version), p[1], p[2]) is None and sp.id == k
            except (TypeError, ValueError, AttributeError):
                ok = False
            if not ok:
                del R[k]
                continue
            self.model[k] = {"entry": sp.entry_point, "kwargs": kw, "name": p[1], "n": p[2]}

    # -- operations
    def apply(self, op) -> list:
        kind = op["op"]
        if kind == "register":
            fails = self._register(op)
        elif kind == "make":
            fails = self._make(op)
        elif kind == "list":
            self._stat("list")
            fails = self.check_registry("listing")
        else:
            raise AssertionError(f"unknown op {op!r}")
        if fails:
            self._resync()
        return fails

    def _register(self, op):
        s, entry = op["id"], (op["entry"] if ":" in op["entry"] else f"{DUMMY_MODULE}:{op['entry']}")
        kw = op.get("kwargs")
        p = o_parse(s)
        if kw is None:
            r = _call(self.j.register, s, entry) if op.get("style") == "pos" else \
                _call(self.j.register, id=s, entry_point=entry)
        else:
            arg = _live(kw)
            r = _call(self.j.register, s, entry, kwargs=arg) if op.get("style") == "pos" else \
                _call(self.j.register, id=s, entry_point=entry, kwargs=arg)
        fails = []
        if p[0] != "valid":
            outcome = "register of a malformed id"
            self._stat("register_malformed")
            if r[0] == "ret":
                fails.append(("register.rejects", "malformed / version-less id registered", f"register({s!r}) succeeded"))
            elif not isinstance(r[1], ValueError):
                fails.append(("register.rejects", f"malformed id raises {type(r[1]).__name__} instead of ValueError",
                              f"register({s!r}) raised {r[1]!r}"))
        else:
            canon = o_canon(p[1], p[2])
            if canon in self.model or canon in self.snapshot:
                outcome = "duplicate register"
                self.flag_dup = True
                self._stat("register_duplicate")
                if s != canon:
                    self._stat("register_duplicate_noncanonical_spelling")
                if r[0] == "ret":
                    fails.append(("register.duplicate", "duplicate registration accepted",
                                  f"register({s!r}) succeeded although {canon!r} is registered"))
                elif not isinstance(r[1], ValueError):
                    fails.append(("register.duplicate", f"duplicate registration raises {type(r[1]).__name__} instead of ValueError",
                                  f"register({s!r}) raised {r[1]!r}"))
            else:
                outcome = "successful register"
                self._stat("register_new")
                if any(m["name"] == p[1] for m in self.model.values()) or \
                        any(sp.name == p[1] for sp in self.snapshot.values()):
                    self._stat("register_new_version_of_existing_name")
                if r[0] == "exc":
                    fails.append(("register.accepts", f"fresh well-formed id refused ({type(r[1]).__name__})",
                                  f"register({s!r}) raised {r[1]!r}; registered: {sorted(self.model)}"))
                else:
                    self.model[canon] = {"entry": entry, "kwargs": copy.deepcopy(kw) if kw is not None else {},
                                         "name": p[1], "n": p[2]}
        return fails + self.check_registry(outcome)

    def _make(self, op):
        s, args, kw = op["id"], list(op.get("args", [])), dict(op.get("kwargs", {}))
        p = o_parse(s)
        canon = o_canon(p[1], p[2]) if p[0] == "valid" else None
        if canon is not None and canon in self.snapshot:
            self._stat("make_shipped_skipped")   # real environments are exercised by the 'shipped' items
            return []
        r = _call(self.j.make, s, *copy.deepcopy(args), **_live(kw))
        fails = []
        if p[0] != "valid":
            outcome = "make of a malformed id"
            self._stat("make_malformed")
            if r[0] == "ret":
                fails.append(("make.rejects", "malformed id accepted by make", f"make({s!r}) returned {r[1]!r}"))
            elif not isinstance(r[1], ValueError):
                fails.append(("make.rejects", f"malformed id raises {type(r[1]).__name__} instead of ValueError",
                              f"make({s!r}) raised {r[1]!r}"))
        elif canon not in self.model:
            outcome = "make of an unknown id"
            self._stat("make_unknown")
            if r[0] == "ret":
                fails.append(("make.unknown", "unknown id did not raise", f"make({s!r}) returned {r[1]!r}"))
            else:
                text = str(r[1])
                toks = set()
                for t in text.split():
                    toks.add(t)
                    toks.add(t.rstrip(".,;:)'\""))
                missing = [k for k in sorted(set(self.snapshot) | set(self.model)) if k not in toks]
                if missing:
                    fails.append(("make.unknown", "error message does not list every registered id",
                                  f"make({s!r}): missing {missing} in message {text!r}"[:900]))
        else:
            m = self.model[canon]
            outcome = "make"
            self._stat("make_registered")
            if s != canon:
                self._stat("make_noncanonical_spelling")
            if kw:
                self.flag_override = True
                self._stat("make_with_caller_kwargs")
                if any(k in m["kwargs"] and not _same(m["kwargs"][k], v) for k, v in kw.items()):
                    self._stat("make_caller_overrides_registered_value")
            import importlib

            cls = getattr(importlib.import_module(m["entry"].split(":")[0]), m["entry"].split(":")[1])
            want = dict(m["kwargs"])
            want.update(kw)
            # reference: the registered class called with the caller's positional arguments and registered | caller kwargs
            ref = _call(cls, *copy.deepcopy(args), **_live(want))
            if args:
                self._stat("make_with_positional_args")
            if ref[0] == "exc":
                self._stat("make_constructor_rejects")
                if r[0] == "ret":
                    fails.append(("make.builds", "make succeeded although the constructor rejects these arguments",
                                  f"make({s!r}, *{args!r}, **{kw!r}) returned kwargs={getattr(r[1], 'kwargs', None)!r}; "
                                  f"{cls.__name__}(*{args!r}, **{want!r}) raises {ref[1]!r}"))
                elif type(r[1]) is not type(ref[1]):
                    fails.append(("make.builds", f"make raised {type(r[1]).__name__} instead of the constructor's {type(ref[1]).__name__}",
                                  f"make({s!r}, *{args!r}, **{kw!r}) raised {r[1]!r}"))
            elif r[0] == "exc":
                fails.append(("make.builds", f"make of a registered id raised {type(r[1]).__name__}",
                              f"make({s!r}, *{args!r}, **{kw!r}) raised {r[1]!r}"))
            else:
                inst = r[1]
                args, want = list(ref[1].args), dict(ref[1].kwargs)   # as bound by the constructor itself
                if type(inst) is not cls:
                    fails.append(("make.builds", "instance is not of the registered class",
                                  f"make({s!r}) built {type(inst).__name__}; registered {m['entry']}"))
                else:
                    if not _same(list(inst.args), args):
                        fails.append(("make.builds", "positional arguments not passed through",
                                      f"make({s!r}, *{args!r}): constructor got args={inst.args!r}"))
                    got = inst.kwargs
                    if not _same(got, want):
                        why = "constructor kwargs differ from registered | caller"
                        for k in sorted(set(got) | set(want)):
                            if k in kw and (k not in got or not _same(got[k], kw[k])):
                                why = "caller keyword argument does not override the registered value"
                                break
                            if k in got and k not in want:
                                why = "constructor received an argument that is neither registered nor passed"
                                break
                            if k in want and k not in got:
                                why = "registered argument missing"
                                break
                            if k in got and not _same(got[k], want[k]):
                                why = "registered value altered"
                                break
                        fails.append(("make.kwargs", why,
                                      f"make({s!r}, **{kw!r}): registered {m['kwargs']!r}; constructor got {got!r}; expected {want!r}"))
        return fails + self.check_registry(outcome)


def run_ops(ops):
    """Replay a concrete operation list; -> (fails, interp)."""
    it = Interp()
    fails = []
    try:
        for op in ops:
            fails.extend(it.apply(op))
    finally:
        it.close()
    return fails, it


def build_machine(ctx: Ctx, max_args: int = 2):
    from hypothesis.stateful import RuleBasedStateMachine, rule

    entry = st.sampled_from(["Recorder", "Recorder", "Recorder2", "vf.dummy2:Recorder", "Named", "Named"])
    style = st.sampled_from(["kw", "pos"])
    args = st.lists(st.sampled_from([0, 1, "p", None]), max_size=max_args)

    class RegistryMachine(RuleBasedStateMachine):
        def __init__(self):
            super().__init__()
            self.it = Interp()
            self.ops = []

        def _do(self, op):
            self.ops.append(op)
            fails = self.it.apply(op)
            ctx.evals()
            for o, sig, msg in fails:
                ctx.fail(o, ENV_MACHINE, sig, msg, {"kind": "machine", "ops": list(self.ops)}, size=len(self.ops))

        @rule(id=_m_id(), entry=entry, kwargs=st.one_of(st.none(), _m_kwargs()), style=style)
        def a_register(self, id, entry, kwargs, style):
            self._do({"op": "register", "id": id, "entry": entry, "kwargs": kwargs, "style": style})

        @rule(id=_m_id(), args=args, kwargs=_m_kwargs())
        def b_make(self, id, args, kwargs):
            self._do({"op": "make", "id": id, "args": args, "kwargs": kwargs})

        @rule(data=st.data(), args=args, kw1=_m_kwargs(), kw2=_m_kwargs())
        def c_make_twice_registered(self, data, args, kw1, kw2):
            """Two makes in a row of an id known to be registered, with different overrides."""
            if not self.it.model:
                return
            k = data.draw(st.sampled_from(sorted(self.it.model)))
            self._do({"op": "make", "id": k, "args": args, "kwargs": kw1})
            self._do({"op": "make", "id": k, "args": [], "kwargs": kw2})

        @rule(data=st.data(), entry=entry, kwargs=st.one_of(st.none(), _m_kwargs()),
              zeros=st.sampled_from(["", "0", "00"]))
        def d_register_again(self, data, entry, kwargs, zeros):
            """Re-register an id of the model (possibly a shipped one), possibly spelled with leading zeros."""
            pool = sorted(self.it.model) + ["Snake-v1", "Sudoku-very-easy-v0"]
            k = data.draw(st.sampled_from(pool))
            p = o_parse(k)
            self._do({"op": "register", "id": p[1] + "-v" + zeros + o_dec(p[2]), "entry": entry,
                      "kwargs": kwargs, "style": "kw"})

        @rule(data=st.data(), prefix=st.sampled_from(["os", "json", "os.path", "jumanji", "jumanji.environments", "vf.dummy",
                                                     "x", "a.b"]),
              sep=st.sampled_from([":", ".", "-"]))
        def f_make_relative_of_registered(self, data, prefix, sep):
            """An id that is *not* registered but contains a registered one (a module-like or dotted prefix glued to
            it with one of the allowed name characters): unknown ids must raise, whatever they resemble."""
            pool = sorted(self.it.model) + ["Snake-v1", "Game2048-v1", "Sudoku-very-easy-v0"]
            k = data.draw(st.sampled_from(pool))
            self._do({"op": "make", "id": prefix + sep + k, "args": [], "kwargs": {}})

        @rule()
        def e_list_ids(self):
            self._do({"op": "list"})

        def teardown(self):
            self.it.close()
            ctx.count("machine_runs")
            for k, v in self.it.stats.items():
                ctx.count("machine_" + k, v)
            if self.it.flag_dup or self.it.flag_override:
                ctx.nontrivial("machine", self.ops)
                ctx.count("machine_runs_nontrivial")
                ctx.sample({"kind": "machine", "ops": self.ops[:12]})

    return RegistryMachine


# ==================================================================================== C. shipped
def _gen(e):
    for a in ("generator", "_generator"):
        if hasattr(e, a):
            return getattr(e, a)
    raise AttributeError("environment has no generator attribute")


def _cls(o):
    return type(o).__name__


def _obs(e, *path):
    s = e.observation_spec
    for p in path:
        s = s[p]
    return s


def _sudoku_file(which):
    import os

    from jumanji.environments.logic.sudoku import data as sd

    return np.load(os.path.join(os.path.dirname(sd.__file__), sd.DATABASES[which]))


# id -> (class name, registered kwargs keys, [(what the comment documents, reader, expected)])
DOC = {
    "Game2048-v1": ("Game2048", [], [
        ("board size 4", lambda e: e.board_size, 4),
        ("board 4x4 (observation spec)", lambda e: _obs(e, "board").shape, [4, 4])]),
    "GraphColoring-v0": ("GraphColoring", [], [
        ("20 nodes", lambda e: e.num_nodes, 20),
        ("edge probability 0.8", lambda e: _gen(e).edge_probability, 0.8),
        ("20x20 adjacency (observation spec)", lambda e: _obs(e, "adj_matrix").shape, [20, 20])]),
    "Minesweeper-v0": ("Minesweeper", [], [
        ("10 rows", lambda e: e.num_rows, 10), ("10 columns", lambda e: e.num_cols, 10),
        ("10 mines", lambda e: e.num_mines, 10),
        ("board 10x10 (observation spec)", lambda e: _obs(e, "board").shape, [10, 10])]),
    "RubiksCube-v0": ("RubiksCube", [], [
        ("faces 3x3 (observation spec)", lambda e: _obs(e, "cube").shape, [6, 3, 3]),
        ("cube size 3", lambda e: _gen(e).cube_size, 3)]),
    "RubiksCube-partly-scrambled-v0": ("RubiksCube", ["generator", "time_limit"], [
        ("time limit 20", lambda e: e.time_limit, 20),
        ("7 scrambles at reset", lambda e: _gen(e).num_scrambles_on_reset, 7),
        ("cube size 3", lambda e: _gen(e).cube_size, 3),
        ("faces 3x3 (observation spec)", lambda e: _obs(e, "cube").shape, [6, 3, 3])]),
    "Sudoku-v0": ("Sudoku", [], [
        ("grid 9x9 (observation spec)", lambda e: _obs(e, "board").shape, [9, 9]),
        ("10000 puzzles", lambda e: _gen(e)._boards.shape, [10000, 9, 9]),
        ("the mixed database", lambda e: bool(np.array_equal(np.asarray(_gen(e)._boards), _sudoku_file("mixed"))), True)]),
    "Sudoku-very-easy-v0": ("Sudoku", ["generator"], [
        ("grid 9x9 (observation spec)", lambda e: _obs(e, "board").shape, [9, 9]),
        ("1000 puzzles", lambda e: _gen(e)._boards.shape, [1000, 9, 9]),
        ("the very-easy database", lambda e: bool(np.array_equal(np.asarray(_gen(e)._boards), _sudoku_file("very-easy"))), True),
        ("every puzzle has >= 46 clues", lambda e: bool((np.asarray(_gen(e)._boards) != 0).reshape(1000, -1).sum(1).min() >= 46), True)]),
    "BinPack-v2": ("BinPack", [], [
        ("40 EMSs in the observation", lambda e: e.obs_num_ems, 40),
        ("40 EMSs (observation spec)", lambda e: _obs(e, "ems", "x1").shape, [40]),
        ("20 items maximum (observation spec)", lambda e: _obs(e, "items", "x_len").shape, [20]),
        ("action space 40 x 20", lambda e: np.asarray(e.action_spec.num_values), [40, 20])]),
    "FlatPack-v0": ("FlatPack", [], [
        ("25 blocks", lambda e: e.num_blocks, 25), ("11 rows", lambda e: e.num_rows, 11),
        ("11 columns", lambda e: e.num_cols, 11),
        ("random grid generator", lambda e: _cls(_gen(e)), "RandomFlatPackGenerator"),
        ("grid 11x11 (observation spec)", lambda e: _obs(e, "grid").shape, [11, 11])]),
    "JobShop-v0": ("JobShop", [], [
        ("20 jobs", lambda e: e.num_jobs, 20), ("10 machines", lambda e: e.num_machines, 10),
        ("at most 8 operations per job", lambda e: e.max_num_ops, 8),
        ("max operation duration 6", lambda e: e.max_op_duration, 6)]),
    "Knapsack-v1": ("Knapsack", [], [
        ("50 items", lambda e: e.num_items, 50), ("total budget 12.5", lambda e: e.total_budget, 12.5),
        ("dense reward", lambda e: _cls(e.reward_fn), "DenseReward")]),
    "Tetris-v0": ("Tetris", [], [
        ("10 rows", lambda e: e.num_rows, 10), ("10 columns", lambda e: e.num_cols, 10),
        ("time limit 400", lambda e: e.time_limit, 400)]),
    "Cleaner-v0": ("Cleaner", [], [
        ("10 rows", lambda e: e.num_rows, 10), ("10 columns", lambda e: e.num_cols, 10),
        ("3 agents", lambda e: e.num_agents, 3), ("time limit 100", lambda e: e.time_limit, 100),
        ("random maze generator", lambda e: _cls(_gen(e)), "RandomGenerator")]),
    "Connector-v2": ("Connector", [], [
        ("grid size 10", lambda e: e.grid_size, 10), ("10 agents", lambda e: e.num_agents, 10)]),
    "MMST-v0": ("MMST", [], [
        ("3 agents", lambda e: e.num_agents, 3), ("36 nodes", lambda e: e.num_nodes, 36),
        ("72 edges", lambda e: _gen(e)._num_edges, 72),
        ("4 nodes to connect per agent", lambda e: e.num_nodes_per_agent, 4),
        ("time limit 70", lambda e: e.time_limit, 70)]),
    "CVRP-v1": ("CVRP", [], [
        ("20 nodes", lambda e: e.num_nodes, 20), ("maximum capacity 30", lambda e: e.max_capacity, 30),
        ("maximum demand 10", lambda e: e.max_demand, 10),
        ("dense reward", lambda e: _cls(e.reward_fn), "DenseReward")]),
    "MultiCVRP-v0": ("MultiCVRP", [], [
        ("20 nodes", lambda e: e._num_customers, 20), ("maximum capacity 60", lambda e: e._max_capacity, 60),
        ("2 vehicles", lambda e: e._num_vehicles, 2),
        ("maximum demand 10", lambda e: e._customer_demand_max, 10),
        ("dense reward", lambda e: _cls(e._reward_fn), "DenseReward"),
        ("2 vehicles (observation spec)", lambda e: _obs(e, "vehicles", "coordinates").shape, [2, 2])]),
    "Maze-v0": ("Maze", [], [
        ("10 rows", lambda e: e.num_rows, 10), ("10 columns", lambda e: e.num_cols, 10),
        ("time limit 100", lambda e: e.time_limit, 100),
        ("random maze generator", lambda e: _cls(_gen(e)), "RandomGenerator")]),
    "RobotWarehouse-v0": ("RobotWarehouse", [], [
        ("2 shelf rows", lambda e: _gen(e)._shelf_rows, 2), ("3 shelf columns", lambda e: _gen(e)._shelf_columns, 3),
        ("column height 8", lambda e: _gen(e)._column_height, 8), ("4 agents", lambda e: e.num_agents, 4),
        ("sensor range 1", lambda e: e.sensor_range, 1),
        ("request queue of size 8", lambda e: e.request_queue_size, 8),
        ("random generator", lambda e: _cls(_gen(e)), "RandomGenerator")]),
    "Snake-v1": ("Snake", [], [
        ("12 rows", lambda e: e.num_rows, 12), ("12 columns", lambda e: e.num_cols, 12),
        ("time limit 4000", lambda e: e.time_limit, 4000)]),
    "TSP-v1": ("TSP", [], [
        ("20 cities", lambda e: e.num_cities, 20), ("dense reward", lambda e: _cls(e.reward_fn), "DenseReward")]),
    "Sokoban-v0": ("Sokoban", [], []),
    "PacMan-v1": ("PacMan", [], []),
    "SlidingTilePuzzle-v0": ("SlidingTilePuzzle", [], [
        ("grid 5x5 (observation spec)", lambda e: _obs(e, "puzzle").shape, [5, 5])]),
    "LevelBasedForaging-v0": ("LevelBasedForaging", [], [
        ("grid size 8", lambda e: e.grid_size, 8), ("2 agents", lambda e: e.num_agents, 2),
        ("2 food items", lambda e: e.num_food, 2),
        ("maximum agent level 2", lambda e: _gen(e).max_agent_level, 2),
        ("random generator", lambda e: _cls(_gen(e)), "RandomGenerator")]),
}

# groups of 3-4 ids per work item, heavy compiles spread out
GROUPS = [
    ["BinPack-v2", "Game2048-v1", "Snake-v1"],
    ["MMST-v0", "Minesweeper-v0", "Maze-v0"],
    ["RobotWarehouse-v0", "TSP-v1", "RubiksCube-v0"],
    ["MultiCVRP-v0", "Knapsack-v1", "Sudoku-v0"],
    ["JobShop-v0", "Connector-v2", "Sudoku-very-easy-v0"],
    ["FlatPack-v0", "Cleaner-v0", "RubiksCube-partly-scrambled-v0"],
    ["PacMan-v1", "CVRP-v1", "SlidingTilePuzzle-v0"],
    ["LevelBasedForaging-v0", "Tetris-v0", "GraphColoring-v0", "Sokoban-v0"],
]


def _norm(v):
    if isinstance(v, (str, bool, int, float)) or v is None:
        return v
    if isinstance(v, tuple):
        return [_norm(x) for x in v]
    a = np.asarray(v)
    return a.item() if a.ndim == 0 else a.tolist()


def _overrides(env_id):
    if env_id.startswith("Sokoban-"):
        from jumanji.environments.routing.sokoban.generator import ToyGenerator

        return {"generator": ToyGenerator()}
    return {}


_PAIRS: dict = {}


def _pair(env_id):
    """Two independent make(id) results + jitted entry points (cached per process)."""
    if env_id not in _PAIRS:
        import jax
        import jumanji

        from vf import envs

        _restore()
        ov1, ov2 = _overrides(env_id), _overrides(env_id)
        e1 = jumanji.make(env_id, **ov1)
        e2 = jumanji.make(env_id, **ov2)
        name = type(e1).__name__
        b = None
        if name in envs.QUICK:
            b = envs.Bundle(name, envs.quick_entries(name)[0], env=e1)
        _PAIRS[env_id] = {"e1": e1, "e2": e2, "ov1": ov1, "ov2": ov2, "bundle": b,
                          "reset2": jax.jit(e2.reset), "step2": jax.jit(e2.step)}
    return _PAIRS[env_id]


# -- independent spec walker
def spec_diff(a, b, path="") -> list:
    from jumanji import specs

    if type(a) is not type(b):
        return [f"{path}: class {type(a).__name__} vs {type(b).__name__}"]
    out = []
    if isinstance(a, specs.Array):
        if tuple(a.shape) != tuple(b.shape):
            out.append(f"{path}: shape {a.shape} vs {b.shape}")
        if np.dtype(a.dtype) != np.dtype(b.dtype):
            out.append(f"{path}: dtype {a.dtype} vs {b.dtype}")
        if a.name != b.name:
            out.append(f"{path}: name {a.name!r} vs {b.name!r}")
        if isinstance(a, specs.BoundedArray):
            for nm in ("minimum", "maximum"):
                x, y = np.asarray(getattr(a, nm)), np.asarray(getattr(b, nm))
                if x.shape != y.shape or x.dtype != y.dtype or not np.array_equal(x, y):
                    out.append(f"{path}: {nm} differs")
        if isinstance(a, (specs.DiscreteArray, specs.MultiDiscreteArray)):
            if not np.array_equal(np.asarray(a.num_values), np.asarray(b.num_values)):
                out.append(f"{path}: num_values {a.num_values} vs {b.num_values}")
        return out
    if not isinstance(a, specs.Spec):
        return [f"{path}: not a spec ({type(a).__name__})"]
    if a.name != b.name:
        out.append(f"{path}: name {a.name!r} vs {b.name!r}")
    ka, kb = list(a._specs), list(b._specs)
    if ka != kb:
        out.append(f"{path}: fields {ka} vs {kb}")
    for k in ka:
        if k in b._specs:
            out.extend(spec_diff(a._specs[k], b._specs[k], f"{path}.{k}"))
    return out


def spec_leaves(s, path=""):
    from jumanji import specs

    if isinstance(s, specs.Array) or not isinstance(s, specs.Spec):
        return [(path, s)]
    out = []
    for k, v in s._specs.items():
        out.extend(spec_leaves(v, f"{path}.{k}"))
    return out


def _eq_operator(env_id, nm, s1, s2):
    """The specs' own `==`; -> fails."""
    from jumanji import specs

    r = _call(lambda: s1 == s2)
    if r[0] == "ret":
        if r[1] is True or (isinstance(r[1], (bool, np.bool_)) and bool(r[1])):
            return []
        try:
            truth = bool(r[1])
        except Exception:  # noqa: BLE001
            truth = None
        if truth:
            return []
        return [("spec.eq_operator", f"`==` of the {nm}s of two make() results is {r[1]!r:.40}",
                 f"{env_id}: env1.{nm} == env2.{nm} -> {r[1]!r}")]
    exc = r[1]
    if classify_exception(exc) != "repo":
        raise exc
    # pinpoint the leaf
    culprit = []
    for (p, l1), (_, l2) in zip(spec_leaves(s1, nm), spec_leaves(s2, nm)):
        rr = _call(lambda: l1 == l2)
        if rr[0] == "exc":
            culprit.append((p, l1))
    sig = f"`==` raises {exc_sig(exc)}"
    if culprit and all(isinstance(l, specs.BoundedArray) and
                       max(np.asarray(l.minimum).size, np.asarray(l.maximum).size) > 1 for _, l in culprit):
        sig = f"BoundedArray.__eq__ raises {type(exc).__name__} for array-valued bounds of size > 1"
    where = ", ".join(f"{p} (minimum shape {np.asarray(l.minimum).shape}, maximum shape {np.asarray(l.maximum).shape})"
                      if isinstance(l, specs.BoundedArray) else p for p, l in culprit[:4])
    return [("spec.eq_operator", sig,
             f"{env_id}: env1.{nm} == env2.{nm} raised {type(exc).__name__}: {exc}; offending leaves: {where}")]


def eval_static(case):
    """Instantiate a shipped id twice; class, documented configuration, equal specs.
    -> (fails, n_checks)"""
    import jumanji.environments as E
    import jumanji.registration as reg

    env_id = case["id"]
    fails, n = [], 0
    pr = _pair(env_id)
    e1, e2 = pr["e1"], pr["e2"]
    doc = DOC.get(env_id)
    if doc is not None:
        cname, kwkeys, checks = doc
        n += 1
        if type(e1) is not getattr(E, cname) or type(e2) is not type(e1):
            fails.append(("shipped.class", "make builds a different class than documented",
                          f"{env_id}: {type(e1).__name__}; documented {cname}"))
        sp = reg._REGISTRY.get(env_id)
        n += 1
        if sp is None or sp.entry_point != f"jumanji.environments:{cname}" or sorted(sp.kwargs) != sorted(kwkeys):
            fails.append(("shipped.spec", "registered entry point / argument names differ from jumanji/__init__.py as documented",
                          f"{env_id}: {sp!r}"[:600]))
        for what, reader, want in checks:
            got = _norm(reader(e1))
            got2 = _norm(reader(e2))
            n += 1
            if not (_same(got, want) or got == want):
                fails.append(("shipped.config", f"documented configuration not met: {what}",
                              f"{env_id}: {what}: read {got!r}, documented {want!r}"))
            elif not _same(got, got2):
                fails.append(("shipped.config", f"two make() calls disagree on: {what}",
                              f"{env_id}: {got!r} vs {got2!r}"))
    # caller kwargs override (Sokoban is the shipped id that needs it)
    for k, v in pr["ov1"].items():
        n += 1
        cur = getattr(e1, k, None)
        if cur is not v:
            fails.append(("shipped.override", "caller keyword argument not handed to the constructor",
                          f"{env_id}: make(..., {k}=<{type(v).__name__}>) but env.{k} is {cur!r}"))
    for nm in ("observation_spec", "action_spec", "reward_spec", "discount_spec"):
        s1, s2 = getattr(e1, nm), getattr(e2, nm)
        n += 2
        d = spec_diff(s1, s2, nm)
        if d:
            fails.append(("spec.walker", f"{nm}s of two make() results differ", f"{env_id}: " + "; ".join(d[:6])))
        fails.extend(_eq_operator(env_id, nm, s1, s2))
    return fails, n


def _tree_diff(a, b) -> str:
    """'' if the two pytrees are bitwise identical (structure, dtype, shape, bytes)."""
    import jax

    la, ta = jax.tree_util.tree_flatten(a)
    lb, tb = jax.tree_util.tree_flatten(b)
    if ta != tb:
        return "tree structure differs"
    for i, (x, y) in enumerate(zip(la, lb)):
        x, y = np.asarray(x), np.asarray(y)
        if x.dtype != y.dtype or x.shape != y.shape:
            return f"leaf {i}: {x.dtype}{x.shape} vs {y.dtype}{y.shape}"
        if x.tobytes() != y.tobytes():
            return f"leaf {i} ({x.dtype}{x.shape}) differs in {int((x != y).sum())} element(s)"
    return ""


def eval_run(case):
    """Same key, same actions on the two environments of one id -> (fails, steps, concrete actions)."""
    from vf import envs

    env_id = case["id"]
    pr = _pair(env_id)
    b = pr["bundle"]
    key = envs.make_key(case["key"])
    fails = []
    s1, t1 = b.reset(key)
    s2, t2 = pr["reset2"](key)
    d = _tree_diff((s1, t1), (s2, t2))
    if d:
        fails.append(("twin.reset", "reset of two make() results differs on the same key", f"{env_id} key={case['key']}: {d}"))
        return fails, 0, []
    played = []
    for i, r in enumerate(case["actions"]):
        if int(t1.step_type) == 2:
            break
        a = b.pick_action(s1, t1, "legal", int(r))
        played.append(np.asarray(a).tolist())
        s1, t1 = b.step(s1, a)
        s2, t2 = pr["step2"](s2, a)
        d = _tree_diff((s1, t1), (s2, t2))
        if d:
            fails.append(("twin.step", "step of two make() results differs on the same state and action",
                          f"{env_id} key={case['key']} step {i} action {played[-1]}: {d}"))
            break
    return fails, len(played), played


def _run_case(env_id, max_steps):
    return st.fixed_dictionaries({
        "kind": st.just("shipped_run"), "id": st.just(env_id),
        "key": st.tuples(st.integers(0, 2**32 - 1), st.integers(0, 2**32 - 1)).map(list),
        "actions": st.lists(st.integers(0, 10**6), min_size=1, max_size=max_steps),
    })


# ===================================================================================== plumbing
def work_items(tier, flt):
    scale = flt.get("scale", 1.0)
    quick = tier == "quick"
    sel = flt.get("env")
    items = []
    # case counts are fixed per tier; ids / machine shards are started first in the thorough tier
    # (they are the long ones there), the shipped groups first in the quick tier (compiles dominate)
    if not sel or "ids" in sel:
        shards, n = (4, int(10000 * scale)) if quick else (6, int(60000 * scale))
        for sh in range(shards):
            items.append({"kind": "ids", "shard": sh, "n": n, "cost": 3 if quick else 20})
    if not sel or "machine" in sel:
        shards, runs, steps = (4, int(500 * scale), 30) if quick else (6, int(3000 * scale), 50)
        for sh in range(shards):
            items.append({"kind": "machine", "shard": sh, "n": runs, "steps": steps, "cost": 3 if quick else 20})
    for gi, g in enumerate(GROUPS):
        ids = [i for i in g if not sel or "shipped" in sel or i in sel]
        if ids:
            items.append({"kind": "shipped", "group": gi, "ids": ids, "n": max(1, int((30 if quick else 600) * scale)),
                          "steps": 12 if quick else 30, "extras": gi == 0 and (not sel or "shipped" in sel),
                          "cost": 10})
    return items


def _id_nontrivial(info) -> bool:
    return any(f in info["features"] for f in
               ("version_suffix", "non_ascii", "leading_zero", "multi_dash_v", "disallowed_char"))


def run_item(item, seed, tier):
    ctx = Ctx(PROPERTY, item)
    if item["kind"] == "ids":
        def one(case):
            fails, info = eval_id(case)
            ctx.evals()
            ctx.count("ids_class_" + info["class"])
            ctx.count("ids_how_" + case["how"])
            for f in info["features"]:
                ctx.count("ids_feature_" + f)
            if _id_nontrivial(info):
                ctx.nontrivial("id", case["id"].encode("utf-8", "surrogatepass"))
            if info["class"] == "valid" and len(info["features"]) >= 3:
                ctx.sample(case)
            for o, sig, msg in fails:
                ctx.fail(o, ENV_IDS, sig, msg, case, size=len(case["id"]))

        hyp.drive({"case": id_case()}, one, seed, item["n"])
    elif item["kind"] == "machine":
        try:
            hyp.run_machine(build_machine(ctx), seed, item["n"], item["steps"])
        finally:
            _restore()
    else:
        _run_shipped(ctx, item, seed)
    return ctx.result()


def _run_shipped(ctx, item, seed):
    import jumanji

    _restore()
    if item.get("extras"):
        reg_ids = set(jumanji.registered_environments())
        ctx.evals()
        if reg_ids != set(DOC):
            ctx.fail("shipped.id_set", "jumanji", "registered ids differ from the 25 documented in jumanji/__init__.py",
                     f"extra={sorted(reg_ids - set(DOC))} missing={sorted(set(DOC) - reg_ids)}",
                     {"kind": "shipped_ids"}, 0)
    ids = list(item["ids"])
    if item.get("extras"):
        ids += sorted(set(jumanji.registered_environments()) - set(DOC))
    for k, env_id in enumerate(ids):
        case = {"kind": "shipped_static", "id": env_id}
        ok = False
        with ctx.guard(env_id, case):
            fails, n = eval_static(case)
            ctx.evals(n)
            ctx.count("shipped_ids_instantiated")
            ctx.count("shipped_config_checks", n)
            ctx.nontrivial("shipped_static", env_id)
            for o, sig, msg in fails:
                ctx.fail(o, env_id, sig, msg, case, 0)
            ok = True
        if not ok or _PAIRS[env_id]["bundle"] is None:
            continue

        def one(case, env_id=env_id):
            with ctx.guard(env_id, case, size=len(case["actions"])):
                fails, steps, played = eval_run(case)
                ctx.evals(1 + steps)
                ctx.count("twin_runs")
                ctx.count("twin_steps", steps)
                if steps >= 1:
                    ctx.nontrivial("twin", env_id, case["key"], played)
                ctx.sample({"id": env_id, "key": case["key"], "played": played[:6]})
                for o, sig, msg in fails:
                    ctx.fail(o, env_id, sig, msg, case, size=len(case["actions"]))

        hyp.drive({"case": _run_case(env_id, item["steps"])}, one, seed + 7919 * (k + 1), item["n"])
        # free compiled executables of this id before the next one
        _PAIRS.pop(env_id, None)


def _eval_any(case):
    """-> list[(env, oracle, sig, msg)] for one concrete case."""
    kind = case.get("kind")
    if kind == "id":
        return [(ENV_IDS, o, s, m) for o, s, m in eval_id(case)[0]]
    if kind == "machine":
        return [(ENV_MACHINE, o, s, m) for o, s, m in run_ops(case["ops"])[0]]
    if kind == "shipped_static":
        return [(case["id"], o, s, m) for o, s, m in eval_static(case)[0]]
    if kind == "shipped_run":
        return [(case["id"], o, s, m) for o, s, m in eval_run(case)[0]]
    if kind == "shipped_ids":
        import jumanji

        _restore()
        reg_ids = set(jumanji.registered_environments())
        if reg_ids != set(DOC):
            return [("jumanji", "shipped.id_set", "registered ids differ from the 25 documented in jumanji/__init__.py",
                     f"extra={sorted(reg_ids - set(DOC))} missing={sorted(set(DOC) - reg_ids)}")]
        return []
    raise ValueError(f"unknown case kind {kind!r}")


def replay(case):
    return [{"env": e, "oracle": o, "sig": s, "msg": m} for e, o, s, m in _eval_any(case)]


def shrink(fl):
    """Greedy deterministic minimisation: delete / simplify characters of an id, delete operations of
    a machine run, truncate the action list of a twin run - keeping the same (oracle, sig)."""
    case = fl["case"]
    kind = case.get("kind")

    def hits(c):
        try:
            return [m for _, o, s, m in _eval_any(c) if o == fl["oracle"] and s == fl["sig"]]
        except Exception:  # noqa: BLE001
            return []

    best = case
    if kind == "id":
        s = case["id"]
        changed = True
        while changed:
            changed = False
            for i in range(len(s)):
                t = s[:i] + s[i + 1:]
                if hits(dict(case, id=t)):
                    s, changed = t, True
                    break
            else:
                for i, c in enumerate(s):
                    rep = "0" if c.isdecimal() else "a"
                    if c in "a0-v:." or c == rep:
                        continue
                    t = s[:i] + rep + s[i + 1:]
                    if hits(dict(case, id=t)):
                        s, changed = t, True
                        break
        best = dict(case, id=s)
    elif kind == "machine":
        ops = list(case["ops"])
        changed = True
        while changed:
            changed = False
            for i in range(len(ops) - 1, -1, -1):
                t = ops[:i] + ops[i + 1:]
                if t and hits(dict(case, ops=t)):
                    ops, changed = t, True
        for i, op in enumerate(ops):      # simplify arguments
            for fld, simple in (("args", []), ("style", "kw"), ("entry", "Recorder")):
                if fld in op and op[fld] != simple:
                    t = ops[:i] + [dict(op, **{fld: simple})] + ops[i + 1:]
                    if hits(dict(case, ops=t)):
                        ops = t
                        op = ops[i]
            kw = op.get("kwargs") or {}
            for k in list(kw):
                kw2 = {a: b for a, b in kw.items() if a != k}
                t = ops[:i] + [dict(op, kwargs=kw2)] + ops[i + 1:]
                if hits(dict(case, ops=t)):
                    ops, kw = t, kw2
                    op = ops[i]
        best = dict(case, ops=ops)
    elif kind == "shipped_run":
        acts = list(case["actions"])
        for k in range(0, len(acts)):
            if hits(dict(case, actions=acts[:k])):
                acts = acts[:k]
                break
        best = dict(case, actions=acts)
    msgs = hits(best)
    if msgs:
        fl = dict(fl, case=best, msg=msgs[0])
    return fl

"""C04 - the action mask is exactly the set of legal moves."""
from vf import modelprops as mp

PROPERTY = "C04"
TECHNIQUE = ("Hypothesis-generated keys x plans; per state the whole action space is enumerated (one vmapped step); "
             "oracles: independent NumPy statement of the rules, and the environment's own reaction to each action")
RULE = ("cases = (env, entry, key, plan) with legality for 'legal' moves taken from the independent rule model; at every "
        "non-terminal state the mask is compared entry by entry with the rules and every action (all of them when the "
        "space has <= 1024 actions, a stratified 1024-sample otherwise; per agent/machine component for joint action "
        "spaces) is stepped and the env's reaction (invalid / valid) compared with the mask; non-trivial = states whose "
        "mask has both True and False entries, distinct by state digest")
ASSUMPTIONS = [
    "rule models are in vf/models/<env>.py, written from docs/environments/*.md and class docstrings",
    "entries the documentation does not define (model.mask_guard) are reported but not asserted",
]
_P = mp.HistoryProp(PROPERTY, "legal", mp.C04Mon, n_quick=14, n_thorough=150, max_len=40,
                    styles=("legalish", "legal", "chaos", "survive", "solveish", "crowded"), use_model_legality=True)
_P.export(globals())

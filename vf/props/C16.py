"""C16 - specs form a consistent algebra: generate, validate, replace, equality, pickling, conversions.

Generated domain: JSON-able *descriptions* of specs (`Array`, `BoundedArray` with scalar / per-element
bounds, `DiscreteArray`, `MultiDiscreteArray`, nested `Spec` trees built on namedtuple / chex-dataclass
constructors) and fully concrete *descriptions* of values (dtype, shape, flat element list, how the
value is handed over: jax array / numpy array / Python scalars and lists).  Real objects are built
from the descriptions inside the check, so a replay file is just the description.

The oracle is an independent membership predicate `member(spec_description, value_description)`
written from the statement of the property (structure matches; every leaf, once converted to a JAX
array, has the declared shape and dtype and lies within the inclusive bounds).  It never calls
`spec.validate`, never uses jumanji's equality helpers and does the numeric comparisons in float64
NumPy on the host.  The JAX conversion is modelled by a small table (`_canon`): 64-bit NumPy dtypes
and Python scalars canonicalise to 32 bit, an empty Python list is float32.
"""
from __future__ import annotations

import collections
import functools
import pickle
import sys

import numpy as np

from vf import hyp
from vf.hyp import st
from vf.runner import Ctx

PROPERTY = "C16"
TECHNIQUE = ("Hypothesis-generated spec / value descriptions; independent membership predicate; "
             "relational oracles between spec methods (generate->validate, replace->attributes, "
             "==, pickle, gym / dm_env conversions, gym action samples)")
RULE = ("cases are Hypothesis-drawn spec descriptions (Array / BoundedArray scalar+per-element bounds / "
        "DiscreteArray / MultiDiscreteArray / nested Spec depth <= 3; rank 0-3 incl. size 0; dtypes bool, "
        "int8, int16, int32, uint8, float16, float32) with concrete values, plus the observation / action / "
        "reward / discount specs of the 23 environments; a spec is non-trivial when its rank >= 1 or its "
        "nesting >= 1 (counted by digest of the description), a value evaluation is non-trivial when the "
        "value lies at, one ulp/unit inside or one ulp/unit outside a declared bound (counted by digest of "
        "spec and value descriptions)")
ASSUMPTIONS = [
    "JAX default 32-bit mode: float64/int64 NumPy values and Python scalars canonicalise to float32/int32 "
    "when converted to JAX arrays; membership is decided after that conversion, as the statement says",
    "NaN values and NaN bounds are outside the generated domain",
    "subnormal floats are outside the generated domain (XLA:CPU flushes them to zero in comparisons); the "
    "value 'one ulp' beyond a zero bound is the smallest normal number",
    "equality is exercised between specs of the same kind and, for nested specs, the same structure; "
    "bounds that differ only in representation (scalar vs. broadcast array) or only on size-0 shapes carry "
    "no expectation; the name of a *nested* spec is never varied (the statement ties nested equality to "
    "the children only)",
    "values handed to gym / dm_env conversions are the canonical form (NumPy view of the JAX array)",
    "gym.spaces.Discrete cannot carry a dtype: its samples are checked against a DiscreteArray modulo the "
    "integer dtype (range and shape only) unless the declared dtype is int32; the same holds for a "
    "MultiDiscreteArray one of whose num_values equals iinfo(dtype).max + 1 (gym stores nvec in the space's dtype)",
    "a gym sample that lies outside its own gym space (gymnasium's integer Box sampler clips to dtype "
    "min+2 / max-2) is not held against the conversion",
    "structure mismatches are limited to unambiguous ones (renamed / extra / missing field, a bare array "
    "for a nested value); a dict handed over where an array is expected counts as a member exactly when "
    "jnp.asarray turns it into an array of the declared shape, dtype and range (JAX maps a dict of bool "
    "arrays to the scalar True)",
    "child names of nested specs avoid attribute names of Spec itself (name, validate, replace, ...)",
    "constructor arguments stay inside what the docstrings allow (bounds representable in dtype, "
    "min <= max, positive num_values that fit the dtype)",
]

DTYPES = ["bool", "int8", "int16", "int32", "uint8", "float16", "float32"]
DTYPES_W = DTYPES + ["float32", "float32", "float16", "int32"]  # generation weights
INT_DTYPES = ["int8", "int16", "int32", "uint8"]
FLOAT_DTYPES = ["float16", "float32"]
IRANGE = {"int8": (-128, 127), "int16": (-32768, 32767), "int32": (-2**31, 2**31 - 1), "uint8": (0, 255),
          "bool": (0, 1), "int64": (-2**63, 2**63 - 1)}
INF = float("inf")
F16_MENU = [-INF, -65504.0, -100.0, -2.5, -1.0, 0.0, 0.5, 1.0, 3.0, 100.0, 65504.0, INF]
F32_EXTRA = [-3.4028234663852886e38, -1e10, float(np.float32(0.1)), 1e10, 3.4028234663852886e38]
F32_MENU = sorted(F16_MENU + F32_EXTRA)
TINY = {"float16": float(np.finfo(np.float16).tiny), "float32": float(np.finfo(np.float32).tiny),
        "float64": float(np.finfo(np.float32).tiny)}
NAMES = ["", "x", "obs", "action_mask", "a b", "ü"]
FIELDS = ["a", "b", "c", "grid", "action_mask", "x1", "pos"]
_CANON = {"float64": "float32", "int64": "int32", "uint64": "uint32"}
KIND_TYPE = {"array": "Array", "bounded": "BoundedArray", "discrete": "DiscreteArray",
             "multi": "MultiDiscreteArray", "nested": "Spec"}


def _is_float(dt):
    return dt.startswith("float")


def _is_int(dt):
    return dt.startswith("int") or dt.startswith("uint")


def _size(shape):
    n = 1
    for d in shape:
        n *= int(d)
    return n


def _pyval(v, dt):
    if dt == "bool":
        return bool(v)
    if _is_int(dt):
        return int(v)
    return float(v)


def _flat(arr, dt):
    with np.errstate(all="ignore"):
        a = np.asarray(arr).astype(dt)
    return [_pyval(v, dt) for v in a.ravel().tolist()]


# ------------------------------------------------------------------------------------- strategies
_shape = st.sampled_from([0, 1, 1, 2, 2, 3]).flatmap(
    lambda r: st.lists(st.sampled_from([1, 1, 2, 2, 3, 3, 0]), min_size=r, max_size=r))  # shrinks towards 1
_name = st.sampled_from(NAMES)


def _dk_for(dt):
    ks = ["str", "np", "jnp"]
    if dt in ("bool", "int32", "float32"):
        ks += ["py"]
    if dt in ("int32", "float32"):
        ks += ["wide"]
    return st.sampled_from(ks)


def _bound_shape(draw, shape):
    """A shape that broadcasts to `shape`: drop leading dims, replace dims by 1."""
    mode = draw(st.sampled_from(["scalar", "scalar", "scalar", "full", "partial"]))
    if mode == "scalar" or not shape:
        return []
    if mode == "full":
        return list(shape)
    keep = draw(st.integers(1, len(shape)))
    tail = list(shape[len(shape) - keep:])
    ones = draw(st.lists(st.booleans(), min_size=keep, max_size=keep))
    return [1 if o else d for d, o in zip(tail, ones)]


def _bound_as(draw, bshape):
    if not bshape:
        return draw(st.sampled_from(["py", "py", "np", "jnp"]))
    if _size(bshape) == 0:
        return draw(st.sampled_from(["np", "jnp"]))
    return draw(st.sampled_from(["list", "np", "jnp"]))


def _draw_bounds(draw, shape, dt):
    """min / max descriptions with min <= max element-wise after broadcasting (by construction:
    every minimum lies at or below a pivot, every maximum at or above it)."""
    smin, smax = _bound_shape(draw, shape), _bound_shape(draw, shape)
    nmin, nmax = _size(smin), _size(smax)
    if dt == "bool":
        p = draw(st.integers(0, 1))
        lo = [bool(draw(st.integers(0, p))) for _ in range(nmin)]
        hi = [bool(draw(st.integers(p, 1))) for _ in range(nmax)]
    elif _is_int(dt):
        a, b = IRANGE[dt]
        p = draw(st.one_of(st.integers(max(a, -4), min(b, 4)), st.sampled_from([a, a + 1, b - 1, b]),
                           st.integers(a, b)))
        off = st.one_of(st.integers(0, 3), st.just(0), st.integers(0, b - a))
        lo = [max(a, p - draw(off)) for _ in range(nmin)]
        hi = [min(b, p + draw(off)) for _ in range(nmax)]
    else:
        menu = F16_MENU if dt == "float16" else F32_MENU
        pi = draw(st.integers(0, len(menu) - 1))
        lo = [menu[draw(st.integers(0, pi))] for _ in range(nmin)]
        hi = [menu[draw(st.integers(pi, len(menu) - 1))] for _ in range(nmax)]
    return ({"shape": smin, "flat": lo, "as": _bound_as(draw, smin)},
            {"shape": smax, "flat": hi, "as": _bound_as(draw, smax)})


@st.composite
def leaf_spec(draw, kinds=("array", "bounded", "bounded", "bounded", "discrete", "multi")):
    k = draw(st.sampled_from(list(kinds)))
    name = draw(_name)
    if k == "array":
        dt = draw(st.sampled_from(DTYPES_W))
        return {"k": k, "shape": draw(_shape), "dtype": dt, "name": name, "dk": draw(_dk_for(dt)),
                "sk": draw(st.sampled_from(["tuple", "list"]))}
    if k == "bounded":
        dt = draw(st.sampled_from(DTYPES_W))
        shape = draw(_shape)
        mn, mx = _draw_bounds(draw, shape, dt)
        return {"k": k, "shape": shape, "dtype": dt, "name": name, "min": mn, "max": mx,
                "dk": draw(_dk_for(dt)), "sk": draw(st.sampled_from(["tuple", "list"]))}
    dt = draw(st.sampled_from(INT_DTYPES + ["int32", "int32"]))
    top = IRANGE[dt][1] + 1 if dt != "int32" else 2**31 - 1
    nv = st.one_of(st.integers(1, 5), st.integers(1, 5), st.sampled_from([1, 2, top - 1, top]),
                   st.integers(1, top))
    if k == "discrete":
        return {"k": k, "n": draw(nv), "dtype": dt, "name": name, "dk": draw(_dk_for(dt)),
                "nk": draw(st.sampled_from(["int", "int", "np"]))}
    shape = draw(_shape)
    return {"k": k, "nv": {"shape": shape, "flat": [draw(nv) for _ in range(_size(shape))]},
            "dtype": dt, "name": name, "dk": draw(_dk_for(dt)), "nk": draw(st.sampled_from(["jnp", "np"]))}


def _nested_spec(max_leaves=6):
    def extend(children):
        return st.builds(
            lambda c, ctor, name: {"k": "nested", "ctor": ctor, "name": name, "c": c},
            st.dictionaries(st.sampled_from(FIELDS), children, min_size=1, max_size=3),
            st.sampled_from(["nt", "dc"]), _name)

    # the top level is always a nested spec; below it st.recursive decides (depth <= 3 enforced below)
    return extend(st.recursive(leaf_spec(), extend, max_leaves=max_leaves)).map(_cap_depth)


def _cap_depth(d, depth=1):
    """Nesting deeper than 3 is flattened away (construction, not rejection)."""
    if d["k"] != "nested":
        return d
    c = {}
    for f, ch in d["c"].items():
        if ch["k"] == "nested" and depth >= 3:
            ch = next(iter(leaf_descs(ch)))[1]
        c[f] = _cap_depth(ch, depth + 1)
    return dict(d, c=c)


def leaf_descs(d, path=()):
    if d["k"] != "nested":
        yield path, d
    else:
        for f in sorted(d["c"]):
            yield from leaf_descs(d["c"][f], path + (f,))


def nesting(d):
    return 0 if d["k"] != "nested" else 1 + max(nesting(c) for c in d["c"].values())


def _get(d, path):
    for f in path:
        d = d["c"][f]
    return d


def _set(d, path, new):
    if not path:
        return new
    c = dict(d["c"])
    c[path[0]] = _set(c[path[0]], path[1:], new)
    return dict(d, c=c)


# ---- declared bounds of a leaf description, broadcast, as float64 (ints <= 2**31 are exact)
def leaf_shape(d):
    if d["k"] == "discrete":
        return []
    if d["k"] == "multi":
        return list(d["nv"]["shape"])
    return list(d["shape"])


def _b2a(b):
    return np.asarray([float(v) for v in b["flat"]], dtype=np.float64).reshape(b["shape"])


def leaf_bounds(d):
    """(lo, hi) float64 arrays broadcast to the declared shape; dtype extremes for plain Array."""
    shape, dt = leaf_shape(d), d["dtype"]
    if d["k"] == "array":
        lo, hi = (-INF, INF) if _is_float(dt) else IRANGE[dt]
        return np.full(shape, float(lo)), np.full(shape, float(hi))
    if d["k"] == "bounded":
        return np.broadcast_to(_b2a(d["min"]), shape), np.broadcast_to(_b2a(d["max"]), shape)
    if d["k"] == "discrete":
        return np.zeros(()), np.full((), float(d["n"] - 1))
    nv = _b2a(d["nv"])
    return np.zeros(shape), nv - 1.0


def _step(v, dt, direction):
    """Next representable value of dtype `dt` from `v` in `direction` (+1/-1), or None."""
    if dt == "bool" or _is_int(dt):
        a, b = IRANGE[dt]
        nv = int(v) + direction
        return _pyval(nv, dt) if a <= nv <= b else None
    if v == direction * INF:
        return None
    t = np.dtype(dt).type
    with np.errstate(all="ignore"):
        nv = float(np.nextafter(t(v), t(direction * INF)))
    if nv != 0.0 and abs(nv) < TINY[dt]:  # skip the subnormal range (XLA:CPU flushes it)
        nv = direction * TINY[dt] if v == 0.0 else 0.0
    return nv


def _members(rs, lo, hi, dt):
    """Deterministic member values from a handful of drawn integers `rs` (float64 domain -> flat)."""
    lo, hi = lo.ravel(), hi.ravel()
    out = []
    offs = [0.0, 1.0, 0.5, 100.0, INF, 3.0]
    fr = [0.0, 0.25, 0.5, 0.75, 1.0]
    menu = F16_MENU if dt == "float16" else F32_MENU
    for i in range(lo.size):
        r = rs[i % len(rs)] + 7919 * i
        a, b = float(lo[i]), float(hi[i])
        if not _is_float(dt):
            ia, ib = int(a), int(b)
            span, sel, q = ib - ia + 1, r % 4, r // 4
            if span <= 64:
                v = ia + r % span
            elif sel == 0:
                v = ia + q % 50
            elif sel == 1:
                v = ib - q % 50
            elif sel == 2:
                v = min(ib, max(ia, q % 201 - 100))
            else:
                v = ia + (q * 2654435761) % span
        elif a == b:
            v = a
        elif a == -INF and b == INF:
            v = menu[r % len(menu)]
        elif a == -INF:
            v = b - offs[r % len(offs)]
        elif b == INF:
            v = a + offs[r % len(offs)]
        else:
            v = a + fr[r % len(fr)] * (b - a)
        if _is_float(dt):
            with np.errstate(all="ignore"):
                v = float(np.clip(np.dtype(dt).type(v), np.dtype(dt).type(a), np.dtype(dt).type(b)))
            if v != 0.0 and abs(v) < TINY[dt]:
                v = 0.0 if a <= 0.0 <= b else a
        out.append(_pyval(v, dt))
    return out


LEAF_CLASSES = ["rand", "rand", "all_min", "all_max", "at_min", "at_max", "in_min", "in_max",
                "out_min", "out_min", "out_max", "out_max", "shape", "shape", "dtype", "dtype",
                "py", "wide", "f64_in", "f64_out"]


def _reshape_options(shape):
    opts = [("prepend1", [1] + shape), ("append1", shape + [1])]
    if 1 in shape:
        i = shape.index(1)
        opts.append(("squeeze", shape[:i] + shape[i + 1:]))
    if shape:
        opts.append(("grow", shape[:-1] + [shape[-1] + 1]))
        if shape[-1] >= 1:
            opts.append(("shrink", shape[:-1] + [shape[-1] - 1]))
    if len(shape) >= 2:
        opts.append(("flatten", [_size(shape)]))
        if shape[-1] != shape[-2]:
            opts.append(("transpose", shape[:-2] + [shape[-1], shape[-2]]))
    return opts


def make_leaf_value(d, cls, rs, pos, alt, how):
    """Concrete value description of class `cls` for leaf description `d`.  `rs`: drawn integers,
    `pos`: drawn position, `alt`: drawn selector, `how`: 'np' | 'jnp'.  Pure function of its
    arguments, so strategy and replay agree."""
    shape, dt = leaf_shape(d), d["dtype"]
    lo, hi = leaf_bounds(d)
    n = _size(shape)
    vals = _members(rs, lo, hi, dt)
    out = {"k": "leaf", "cls": cls, "dtype": dt, "shape": shape, "flat": vals, "as": how, "adj": False}
    flo, fhi = lo.ravel(), hi.ravel()
    p = pos % n if n else 0
    bounded = d["k"] != "array" or not _is_float(dt)
    if cls in ("all_min", "all_max"):
        src = flo if cls == "all_min" else fhi
        out["flat"] = [_pyval(v, dt) for v in src.tolist()]
        out["adj"] = bool(n) and bounded
    elif cls in ("at_min", "at_max", "in_min", "in_max", "out_min", "out_max") and n:
        side, which = cls.split("_")
        b = float(flo[p] if which == "min" else fhi[p])
        direction = {"at": 0, "in": 1, "out": -1}[side] * (1 if which == "min" else -1)
        v = _pyval(b, dt) if direction == 0 else _step(b, dt, direction)
        if v is None:
            out["cls"] = cls + "_unrepresentable"
            v = _pyval(b, dt)
        vals = list(vals)
        vals[p] = v
        out["flat"] = vals
        out["adj"] = True
    elif cls == "shape":
        opts = _reshape_options(shape)
        tag, ns = opts[alt % len(opts)]
        src = np.asarray(vals if n else [_pyval(0, dt)], dtype=dt)
        out.update(cls="shape_" + tag, shape=ns, flat=_flat(np.resize(src, ns), dt))
    elif cls == "dtype":
        others = [x for x in DTYPES + ["int64", "float64"] if _CANON.get(x, x) != dt]
        nd = others[alt % len(others)]
        out.update(cls="dtype_other", dtype=nd, flat=_flat(np.asarray(vals, dtype=np.float64), nd))
    elif cls == "py":
        out["as"] = "py"
    elif cls == "wide":
        nd = "float64" if _is_float(dt) else ("int64" if _is_int(dt) else "bool")
        out.update(dtype=nd, **{"as": "np"})
    elif cls in ("f64_in", "f64_out") and n and dt == "float32" and abs(float(fhi[p])) < 1e38 \
            and (fhi[p] == 0.0 or abs(float(fhi[p])) >= 1e-30):
        # a float64 value strictly above a float32 maximum that rounds onto it / onto its successor
        b = float(fhi[p])
        nxt = _step(b, "float32", +1)
        frac = 0.25 if cls == "f64_in" else 0.75
        vals = list(vals)
        vals[p] = b + frac * (nxt - b) if b != 0.0 else (0.0 if cls == "f64_in" else nxt)
        out.update(dtype="float64", flat=vals, adj=True, **{"as": "np"})
    else:
        out["cls"] = "rand"
    return out


_R27, _R60 = list(range(27)), list(range(60))
STRUCT_CLASSES = ["renamed", "extra", "missing", "array", "leaf_is_nested", "nested_is_leaf"]


@st.composite
def _leaf_value(draw, d, cls=None):
    cls = cls or draw(st.sampled_from(LEAF_CLASSES))
    rs = draw(st.lists(st.integers(0, 2**20), min_size=4, max_size=4))
    pos = draw(st.one_of(st.sampled_from(_R27), st.integers(0, 10**6)))
    return make_leaf_value(d, cls, rs, pos, draw(st.sampled_from(_R60)), draw(st.sampled_from(["np", "jnp"])))


def _plain_value(draw, d):
    """A member value description for a whole (possibly nested) description."""
    if d["k"] != "nested":
        return draw(_leaf_value(d, "rand"))
    return {"k": "nested", "struct": "ok", "c": {f: _plain_value(draw, d["c"][f]) for f in sorted(d["c"])}}


@st.composite
def value_for(draw, d):
    """Value description for description `d`: for nested specs a member tree with exactly one
    perturbed leaf or one structural defect."""
    if d["k"] != "nested":
        return draw(_leaf_value(d))
    v = _plain_value(draw, d)
    lps = [p for p, _ in leaf_descs(d)]
    sc = draw(st.sampled_from(["leaf"] * 8 + STRUCT_CLASSES))
    if sc == "leaf":
        path = lps[draw(st.integers(0, len(lps) - 1))]
        return _vset(v, path, draw(_leaf_value(_get(d, path))))
    nodes = [p for p in _nested_paths(d)]
    path = nodes[draw(st.integers(0, len(nodes) - 1))]
    node, vnode = _get(d, path), _vget(v, path)
    fields = sorted(node["c"])
    spare = [f for f in FIELDS + ["zz"] if f not in fields]
    f = fields[draw(st.integers(0, len(fields) - 1))]
    if sc == "missing" and len(fields) < 2:
        sc = "renamed"
    if sc == "nested_is_leaf" and not path:
        sc = "array"
    if sc == "renamed":
        c = {(spare[0] if k == f else k): x for k, x in vnode["c"].items()}
        new = dict(vnode, struct="renamed", c=c)
    elif sc == "extra":
        new = dict(vnode, struct="extra", c=dict(vnode["c"], **{spare[0]: vnode["c"][f]}))
    elif sc == "missing":
        new = dict(vnode, struct="missing", c={k: x for k, x in vnode["c"].items() if k != f})
    elif sc in ("array", "nested_is_leaf"):
        new = {"k": "leaf", "cls": "struct_" + sc, "struct": sc, "dtype": "float32", "shape": [2],
               "flat": [0.0, 1.0], "as": "jnp", "adj": False}
    else:  # leaf_is_nested: a dict of arrays where an array is expected
        lp = lps[draw(st.integers(0, len(lps) - 1))]
        inner = draw(_leaf_value(_get(d, lp), "rand"))
        return _vset(v, lp, {"k": "nested", "struct": "leaf_is_nested", "c": {"a": inner}})
    return _vset(v, path, new)


def _nested_paths(d, path=()):
    if d["k"] == "nested":
        yield path
        for f in sorted(d["c"]):
            yield from _nested_paths(d["c"][f], path + (f,))


def _vget(v, path):
    for f in path:
        v = v["c"][f]
    return v


def _vset(v, path, new):
    if not path:
        return new
    c = dict(v["c"])
    c[path[0]] = _vset(c[path[0]], path[1:], new)
    return dict(v, c=c)


# ---- mutations of a leaf description (used for ==, replace)
def _dtype_candidates(d):
    dt = d["dtype"]
    if d["k"] == "array":
        return [x for x in DTYPES if x != dt]
    if d["k"] == "bounded":
        if dt == "bool":
            return []
        vals = d["min"]["flat"] + d["max"]["flat"]
        if _is_float(dt):
            ok16 = all(float(np.float16(v)) == v for v in vals) if vals else True
            return [x for x in FLOAT_DTYPES if x != dt and (x == "float32" or ok16)]
        return [x for x in INT_DTYPES if x != dt and all(IRANGE[x][0] <= v <= IRANGE[x][1] for v in vals)]
    top = d["n"] if d["k"] == "discrete" else max(d["nv"]["flat"] + [1])
    return [x for x in INT_DTYPES if x != dt and top - 1 <= IRANGE[x][1]]


def mutate(d, attr, r):
    """Description differing from leaf description `d` in exactly attribute `attr` (None if that is
    impossible inside the valid domain).  `r` is a drawn integer."""
    k, dt = d["k"], d["dtype"]
    if attr == "name":
        others = [x for x in NAMES if x != d["name"]]
        return dict(d, name=others[r % len(others)])
    if attr == "dtype":
        c = _dtype_candidates(d)
        if not c:
            return None
        nd = c[r % len(c)]
        return dict(d, dtype=nd, dk=["str", "np", "jnp"][r % 3])
    if attr == "shape":
        if k == "discrete":
            return None
        if k == "multi":
            shape, flat = list(d["nv"]["shape"]), d["nv"]["flat"]
            if len(shape) >= 3:
                return None
            if r % 3 == 0:
                return dict(d, nv={"shape": [1] + shape, "flat": list(flat)})
            if r % 3 == 1:
                return dict(d, nv={"shape": [2] + shape, "flat": list(flat) * 2})
            return dict(d, nv={"shape": shape + [2], "flat": [v for v in flat for _ in range(2)]})
        return dict(d, shape=[[1], [2]][r % 2] + list(d["shape"]))
    if attr in ("min", "max") and k == "bounded":
        b = d[attr]
        if not b["flat"]:
            return None
        lo, hi = leaf_bounds(d)
        other = np.broadcast_to(_b2a(d["max" if attr == "min" else "min"]), leaf_shape(d))
        i = r % len(b["flat"])
        v = b["flat"][i]
        away = -1 if attr == "min" else 1
        nv = _step(v, dt, away)  # widening never violates min <= max
        if nv is None or (_is_float(dt) and abs(nv) == INF and r % 3):
            # narrowing: allowed while the bound stays on its side of every opposite bound
            nv = _step(v, dt, -away)
            if nv is None or other.size == 0:
                return None
            lim = float(other.min()) if attr == "min" else float(other.max())
            if (attr == "min" and nv > lim) or (attr == "max" and nv < lim):
                return None
        flat = list(b["flat"])
        flat[i] = nv
        return dict(d, **{attr: dict(b, flat=flat)})
    if attr == "num_values" and k == "discrete":
        top = IRANGE[dt][1] + 1 if dt != "int32" else 2**31 - 1
        n = d["n"] + 1 if d["n"] + 1 <= top else d["n"] - 1
        return dict(d, n=n) if n >= 1 and n != d["n"] else None
    if attr == "num_values" and k == "multi":
        flat = list(d["nv"]["flat"])
        if not flat:
            return None
        top = IRANGE[dt][1] + 1 if dt != "int32" else 2**31 - 1
        i = r % len(flat)
        n = flat[i] + 1 if flat[i] + 1 <= top else flat[i] - 1
        if n < 1:
            return None
        flat[i] = n
        return dict(d, nv=dict(d["nv"], flat=flat))
    return None


ATTRS = {"array": ["name", "dtype", "shape"], "bounded": ["name", "dtype", "shape", "min", "max", "min", "max"],
         "discrete": ["name", "dtype", "num_values"], "multi": ["name", "dtype", "num_values", "shape", "shape"]}


def _draw_mutant(draw, d, allow_same=True):
    """-> (description, attr or 'same')"""
    opts = (["same"] if allow_same else []) + ATTRS[d["k"]]
    a = draw(st.sampled_from(opts))
    if a == "same":
        return d, "same"
    m = mutate(d, a, draw(st.sampled_from(_R60)))
    if m is None:
        return mutate(d, "name", draw(st.sampled_from(_R60))), "name"
    return m, a


@st.composite
def leaf_case(draw):
    d = draw(leaf_spec())
    values = [draw(value_for(d)) for _ in range(draw(st.integers(4, 7)))]
    b, ab = _draw_mutant(draw, d)
    src = draw(st.sampled_from(["a", "b", "a_mut"]))
    if src == "a_mut":
        c, ac = _draw_mutant(draw, d, allow_same=False)
    else:
        c, ac = (d, "same") if src == "a" else (b, ab)
    # replace: one to three attributes changed one after the other
    rep, target = [], d
    for _ in range(draw(st.integers(1, 3))):
        a = draw(st.sampled_from(ATTRS[d["k"]]))
        m = mutate(target, a, draw(st.sampled_from(_R60)))
        if m is not None and a not in rep:
            rep.append(a)
            target = m
    return {"spec": d, "values": values, "b": b, "c": c, "replace": rep, "target": target,
            "gym_seed": draw(st.integers(0, 2**31 - 1))}


@st.composite
def nested_case(draw):
    d = draw(_nested_spec())
    values = [draw(value_for(d)) for _ in range(draw(st.integers(4, 7)))]
    lps = [p for p, _ in leaf_descs(d)]

    def mutant(base, allow_same=True):
        if allow_same and draw(st.integers(0, 2)) == 0:
            return base
        p = lps[draw(st.integers(0, len(lps) - 1))]
        m, _ = _draw_mutant(draw, _get(base, p), allow_same=False)
        return _set(base, p, m)

    b = mutant(d)
    src = draw(st.sampled_from(["a", "b", "a_mut"]))
    c = d if src == "a" else (b if src == "b" else mutant(d, False))
    fields = sorted(d["c"])
    rep = {}
    for _ in range(draw(st.integers(1, 2))):
        rep[fields[draw(st.integers(0, len(fields) - 1))]] = draw(leaf_spec())
    return {"spec": d, "values": values, "b": b, "c": c, "replace": rep,
            "gym_seed": draw(st.integers(0, 2**31 - 1))}


# ------------------------------------------------------------------------------------- builders
_CTORS: dict = {}


def ctor(kind, fields):
    """namedtuple / chex-dataclass class with the given field names, importable from this module
    (so that nested specs built on it can be pickled by reference)."""
    key = (kind, tuple(fields))
    if key not in _CTORS:
        name = ("NT_" if kind == "nt" else "DC_") + "_".join(fields)
        if kind == "nt":
            cls = collections.namedtuple(name, list(fields), module=__name__)
        else:
            import chex

            cls = chex.dataclass(type(name, (), {"__annotations__": {f: object for f in fields},
                                                 "__module__": __name__, "__qualname__": name}))
        setattr(sys.modules[__name__], name, cls)
        _CTORS[key] = cls
    return _CTORS[key]


def _dtype_arg(dt, dk):
    import jax.numpy as jnp

    if dk == "np":
        return np.dtype(dt)
    if dk == "jnp":
        return getattr(jnp, dt) if dt != "bool" else jnp.bool_
    if dk == "py":
        return {"bool": bool, "int32": int, "float32": float}[dt]
    if dk == "wide":
        return {"int32": np.int64, "float32": np.float64}[dt]
    return dt


def _bound_arg(b, dt):
    import jax.numpy as jnp

    if b["as"] == "py" and not b["shape"]:
        return _pyval(b["flat"][0], dt)
    a = np.asarray([_pyval(v, dt) for v in b["flat"]], dtype=dt).reshape(b["shape"])
    if b["as"] == "list":
        return a.tolist()
    return jnp.asarray(a) if b["as"] == "jnp" else a


def _nv_arg(d):
    import jax.numpy as jnp

    a = np.asarray(d["nv"]["flat"], dtype=np.int32).reshape(d["nv"]["shape"])
    return jnp.asarray(a) if d.get("nk", "jnp") == "jnp" else a


def _shape_arg(d):
    return tuple(d["shape"]) if d.get("sk", "tuple") == "tuple" else list(d["shape"])


def build_spec(d, order=0):
    """order: in which keyword order the children of a nested spec are handed to the constructor (0 sorted by name,
    1 reversed, 2 rotated by one) - children are identified by name, so the order must not matter to anything."""
    from jumanji import specs

    k = d["k"]
    if k == "nested":
        fields = sorted(d["c"])
        given = fields if order == 0 else (fields[::-1] if order == 1 else fields[1:] + fields[:1])
        return specs.Spec(ctor(d["ctor"], fields), d["name"], **{f: build_spec(d["c"][f], order) for f in given})
    dt = _dtype_arg(d["dtype"], d.get("dk", "str"))
    if k == "array":
        return specs.Array(_shape_arg(d), dt, d["name"])
    if k == "bounded":
        return specs.BoundedArray(_shape_arg(d), dt, _bound_arg(d["min"], d["dtype"]),
                                  _bound_arg(d["max"], d["dtype"]), d["name"])
    if k == "discrete":
        n = d["n"] if d.get("nk", "int") == "int" else np.int32(d["n"])
        return specs.DiscreteArray(n, dt, d["name"])
    return specs.MultiDiscreteArray(_nv_arg(d), dt, d["name"])


def replace_kwargs(d, target, attrs):
    kw = {}
    for a in attrs:
        if a == "name":
            kw["name"] = target["name"]
        elif a == "dtype":
            kw["dtype"] = _dtype_arg(target["dtype"], target.get("dk", "str"))
        elif a == "shape" and d["k"] == "multi":
            kw["num_values"] = _nv_arg(target)
        elif a == "shape":
            kw["shape"] = _shape_arg(target)
        elif a == "min":
            kw["minimum"] = _bound_arg(target["min"], target["dtype"])
        elif a == "max":
            kw["maximum"] = _bound_arg(target["max"], target["dtype"])
        elif a == "num_values":
            kw["num_values"] = target["n"] if d["k"] == "discrete" else _nv_arg(target)
    return kw


def _np_leaf(v):
    """The value as NumPy data exactly as described (before any JAX conversion)."""
    return np.asarray([_pyval(x, v["dtype"]) for x in v["flat"]], dtype=v["dtype"]).reshape(v["shape"])


def build_value(v, d=None, real=None):
    """Real value from a value description.  `real` is the real Spec when the constructor is the
    environment's own class."""
    import jax.numpy as jnp

    if v["k"] == "leaf":
        a = _np_leaf(v)
        if v["as"] == "py":
            return a.tolist()
        return jnp.asarray(a) if v["as"] == "jnp" else a
    fields = list(v["c"])
    sub_d = (d or {}).get("c", {}) if d is not None and d.get("k") == "nested" else {}
    kids = {}
    for f in fields:
        r = None
        if real is not None and hasattr(real, "_specs") and f in getattr(real, "_specs", {}):
            r = real._specs[f]
        kids[f] = build_value(v["c"][f], sub_d.get(f), r)
    if v["struct"] == "ok" and d is not None and d.get("k") == "nested":
        cls = real._constructor if d["ctor"] == "real" else ctor(d["ctor"], sorted(d["c"]))
        return cls(**kids)
    if v["struct"] == "leaf_is_nested":
        # a dict can never be converted to an array (a chex dataclass is a Mapping with __len__ and
        # *can* come out of jnp.asarray as an array of its keys' length - seen with one field, shape (1,))
        return dict(kids)
    kind = d["ctor"] if d is not None and d.get("ctor") in ("nt", "dc") else "nt"
    return ctor(kind, sorted(fields))(**kids)


# ------------------------------------------------------------------------------------- the oracle
def canon_dtype(v):
    """dtype of the value once converted to a JAX array (32-bit mode)."""
    if v["as"] == "py":
        if not v["flat"]:
            return "float32"
        return {"bool": "bool"}.get(v["dtype"], "int32" if _is_int(v["dtype"]) else "float32")
    return _CANON.get(v["dtype"], v["dtype"])


def eff_shape(v):
    """Shape of the value once converted: a Python list only conveys the dimensions up to the first
    empty one ([[], []] is (2, 0) but a (0, 2) array becomes [] i.e. (0,))."""
    if v["as"] == "py" and 0 in v["shape"]:
        return list(v["shape"][:list(v["shape"]).index(0) + 1])
    return list(v["shape"])


def member(d, v):
    """Independent membership predicate -> (bool, reason)."""
    if d["k"] == "nested":
        if v["k"] != "nested" or v.get("struct") != "ok":
            return False, "structure"
        if sorted(v["c"]) != sorted(d["c"]):
            return False, "structure"
        for f in sorted(d["c"]):
            ok, why = member(d["c"][f], v["c"][f])
            if not ok:
                return False, f"{f}/{why}"
        return True, ""
    if v["k"] == "nested" and v.get("struct") == "leaf_is_nested":
        # a container where an array is expected: the statement decides on "once converted to a JAX
        # array", and JAX does convert some containers (a dict of bool arrays becomes the scalar
        # True); so ask JAX (not jumanji) whether and to what this object converts
        import jax.numpy as jnp

        try:
            a = np.asarray(jnp.asarray(build_value(v)))
        except Exception:  # noqa: BLE001
            return False, "structure"
        dt = str(a.dtype)
        if dt not in DTYPES:
            return False, "dtype"
        return member(d, {"k": "leaf", "dtype": dt, "shape": list(a.shape), "as": "np",
                          "flat": [_pyval(t, dt) for t in a.ravel().tolist()]})
    if v["k"] != "leaf" or "struct" in v:
        return False, "structure"
    if eff_shape(v) != leaf_shape(d):
        return False, "shape"
    cd = canon_dtype(v)
    if cd != d["dtype"]:
        return False, "dtype"
    if d["k"] == "array":
        return True, ""
    with np.errstate(all="ignore"):
        x = _np_leaf(v).astype(cd).astype(np.float64)
    lo, hi = leaf_bounds(d)
    if x.size and (bool((x < lo).any()) or bool((x > hi).any())):
        return False, "bounds"
    return True, ""


def describe_value(x, d, real=None):
    """Value description of a real value produced by the code under test (generate_value, samples)."""
    if d["k"] == "nested":
        cls = real._constructor if d["ctor"] == "real" else ctor(d["ctor"], sorted(d["c"]))
        if isinstance(cls, type) and not isinstance(x, cls):
            return {"k": "leaf", "cls": "generated", "struct": "wrong_type:" + type(x).__name__,
                    "dtype": "float32", "shape": [], "flat": [0.0], "as": "np", "adj": False}
        fields = x._asdict() if hasattr(x, "_asdict") else dict(x.__dict__)
        return {"k": "nested", "struct": "ok",
                "c": {f: describe_value(fields[f], d["c"][f], real._specs[f] if real is not None else None)
                      if f in d["c"] else {"k": "leaf", "struct": "extra"} for f in fields}}
    a = np.asarray(x)
    dt = str(a.dtype)
    return {"k": "leaf", "cls": "generated", "dtype": dt, "shape": list(a.shape),
            "flat": [_pyval(t, dt) if dt in DTYPES + ["int64", "float64"] else t for t in a.ravel().tolist()],
            "as": "np", "adj": False}


def expected_attrs(d):
    """What the accessors of a spec built from leaf description `d` must return."""
    k = d["k"]
    out = {"type": KIND_TYPE[k], "shape": tuple(leaf_shape(d)), "dtype": d["dtype"], "name": d["name"]}
    if k == "bounded":
        out["min"] = (tuple(d["min"]["shape"]), [float(v) for v in d["min"]["flat"]])
        out["max"] = (tuple(d["max"]["shape"]), [float(v) for v in d["max"]["flat"]])
    elif k == "discrete":
        out["min"], out["max"], out["num_values"] = ((), [0.0]), ((), [float(d["n"] - 1)]), ((), [float(d["n"])])
    elif k == "multi":
        sh, fl = tuple(d["nv"]["shape"]), [float(v) for v in d["nv"]["flat"]]
        out["min"], out["max"], out["num_values"] = (sh, [0.0] * len(fl)), (sh, [v - 1 for v in fl]), (sh, fl)
    return out


def actual_attrs(s):
    if not hasattr(s, "shape") or not hasattr(s, "dtype"):  # a nested Spec (or something else entirely)
        return {"type": type(s).__name__, "name": getattr(s, "name", None),
                "children": sorted(getattr(s, "_specs", {}))}
    out = {"type": type(s).__name__, "shape": tuple(s.shape), "dtype": str(np.dtype(s.dtype)), "name": s.name}
    for key, attr in (("min", "minimum"), ("max", "maximum"), ("num_values", "num_values")):
        if hasattr(s, attr):
            a = np.asarray(getattr(s, attr))
            out[key] = (tuple(a.shape), [float(t) for t in a.ravel().tolist()])
    return out


def diff_attrs(x, y):
    """Attributes in which two same-kind leaf descriptions differ; None when the difference is of a
    kind the statement does not speak about (representation only / size-0 bounds)."""
    if x["k"] != y["k"]:
        return None
    out = set()
    if x["name"] != y["name"]:
        out.add("name")
    if x["dtype"] != y["dtype"]:
        out.add("dtype")
    if leaf_shape(x) != leaf_shape(y):
        out.add("shape")
    if x["k"] == "bounded" and "shape" not in out:
        (lx, hx), (ly, hy) = leaf_bounds(x), leaf_bounds(y)
        if bool((lx != ly).any()):
            out.add("min")
        if bool((hx != hy).any()):
            out.add("max")
        if not ({"min", "max"} & out) and (x["min"]["shape"] != y["min"]["shape"]
                                           or x["max"]["shape"] != y["max"]["shape"]
                                           or x["min"]["flat"] != y["min"]["flat"]
                                           or x["max"]["flat"] != y["max"]["flat"]):
            return None
    if x["k"] == "discrete" and x["n"] != y["n"]:
        out.add("num_values")
    if x["k"] == "multi" and "shape" not in out and x["nv"]["flat"] != y["nv"]["flat"]:
        out.add("num_values")
    return out


def tree_diff(x, y):
    """-> set of 'path:attr' differences between two same-structure descriptions, or None."""
    if x["k"] != "nested":
        return diff_attrs(x, y)
    out = set()
    for f in sorted(x["c"]):
        dd = tree_diff(x["c"][f], y["c"][f])
        if dd is None:
            return None
        out |= {f"{f}/{a}" for a in dd}
    return out


def _norm(msg):
    return "".join("#" if ch.isdigit() else ch for ch in str(msg))[:70]


def _exc_reason(e):
    m = str(e)
    if "ambiguous" in m:
        return f"{type(e).__name__}:ambiguous-truth-value(array-valued bounds)"
    if "ncompatible shapes" in m or "could not be broadcast" in m:
        # jax raises TypeError or ValueError, numpy ValueError, depending on how num_values was given
        return "raises:shapes-not-broadcastable"
    return f"{type(e).__name__}:{_norm(m)}"


class Eval:
    """Collects oracle outcomes of one case: failures, counters, evaluation count, digests."""

    def __init__(self):
        self.fails, self.counts, self.n, self.nontrivial = [], collections.Counter(), 0, []

    def fail(self, oracle, sig, msg):
        self.fails.append((oracle, sig, msg))

    def ev(self, name):
        self.n += 1
        self.counts["eval_" + name] += 1

    def safe_eq(self, a, b, what):
        """-> True / False, or None when `==` (or its truth value) raised - reported once per case
        under oracle 'eq.defined'."""
        try:
            return bool(a == b)
        except Exception as e:  # noqa: BLE001
            sig = _exc_reason(e)
            if not any(o == "eq.defined" and s == sig for o, s, _ in self.fails):
                self.fail("eq.defined", sig, f"`==` between same-kind specs raised during {what}: "
                                             f"{type(e).__name__}: {str(e)[:200]}\n  lhs={a!r}\n  rhs={b!r}"[:1400])
            self.counts["eq_raised"] += 1
            return None


def _to_np_tree(v, d):
    """Canonical NumPy form of a *member* value (what np.asarray(jax array) gives), nested -> dict."""
    if d["k"] == "nested":
        return {f: _to_np_tree(v["c"][f], d["c"][f]) for f in sorted(d["c"])}
    if v["k"] != "leaf":  # a container that JAX converts to an array of the declared shape and dtype
        import jax.numpy as jnp

        return np.asarray(jnp.asarray(build_value(v)))
    with np.errstate(all="ignore"):
        return _np_leaf(v).astype(canon_dtype(v))


def _dm_validate(dm, x):
    if isinstance(dm, dict):
        if sorted(dm) != sorted(x):
            raise ValueError(f"dm_env spec keys {sorted(dm)} != value keys {sorted(x)}")
        for f in dm:
            _dm_validate(dm[f], x[f])
    else:
        dm.validate(x)


def _attr_mismatch(got, want):
    return [f"{k}: got {got.get(k)!r} want {want.get(k)!r}" for k in sorted(set(got) | set(want))
            if got.get(k) != want.get(k)]


def check_values(E, s, d, values, real=None, tag=""):
    """validate accepts <=> member; members belong to the converted gym space / dm_env spec."""
    from jumanji import specs

    gym_space = dm_spec = None
    try:
        E.ev("convert")
        gym_space = specs.jumanji_specs_to_gym_spaces(s)
    except Exception as e:  # noqa: BLE001
        E.fail("convert.gym", f"raises:{type(e).__name__}:{_norm(e)}",
               f"jumanji_specs_to_gym_spaces({s!r}) raised {type(e).__name__}: {e}"[:1200])
    try:
        dm_spec = specs.jumanji_specs_to_dm_env_specs(s)
    except Exception as e:  # noqa: BLE001
        E.fail("convert.dm_env", f"raises:{type(e).__name__}:{_norm(e)}",
               f"jumanji_specs_to_dm_env_specs({s!r}) raised {type(e).__name__}: {e}"[:1200])
    kind = d["k"]
    for v in values:
        ok, why = member(d, v)
        cls = _value_class(v)
        x = build_value(v, d, real)
        E.ev("validate")
        try:
            s.validate(x)
            accepted, err = True, None
        except Exception as e:  # noqa: BLE001 - "raises otherwise": any exception is a rejection
            accepted, err = False, e
        E.counts[f"value_{cls}"] += 1
        E.counts["values_member" if ok else "values_nonmember_" + why.split("/")[-1]] += 1
        E.counts["validate_accepted" if accepted else "validate_rejected"] += 1
        if _is_adjacent(v):
            E.nontrivial.append(("value", d, v))
            E.counts["value_bound_adjacent"] += 1
        if ok and not accepted:
            E.fail("validate.accepts_members", f"{kind}:{_family(cls)}",
                   f"{tag}value is a member (shape, dtype, bounds all fine) but validate raised "
                   f"{type(err).__name__}: {str(err)[:300]}\n  spec={s!r}\n  value={_short(v)}")
        if not ok and accepted:
            E.fail("validate.rejects_nonmembers", f"{kind}:{why.split('/')[-1]}:{_family(cls)}",
                   f"{tag}value is not a member ({why}) but validate accepted it\n  spec={s!r}\n  value={_short(v)}")
        if not ok:
            continue
        xt = _to_np_tree(v, d)
        if gym_space is not None:
            E.ev("gym_contains")
            try:
                inside = bool(gym_space.contains(xt))
            except Exception as e:  # noqa: BLE001
                inside = f"raised {type(e).__name__}: {e}"
            if inside is not True:
                E.fail("convert.gym", f"member_not_contained:{kind}:{_family(cls)}",
                       f"{tag}member value not in converted gym space {gym_space!r} (contains -> {inside})\n"
                       f"  spec={s!r}\n  value={_short(v)}")
        if dm_spec is not None:
            E.ev("dm_validate")
            try:
                _dm_validate(dm_spec, xt)
            except Exception as e:  # noqa: BLE001
                E.fail("convert.dm_env", f"member_rejected:{kind}:{_family(cls)}",
                       f"{tag}member value rejected by converted dm_env spec {dm_spec!r}: {type(e).__name__}: "
                       f"{str(e)[:300]}\n  spec={s!r}\n  value={_short(v)}")
    return gym_space


def _value_class(v):
    """Perturbation class of a value description (for nested: of its odd leaf / structural defect)."""
    if v["k"] == "leaf":
        return v.get("cls", "?")
    if v.get("struct") != "ok":
        return "struct_" + v["struct"]
    best = "rand"
    for f in sorted(v["c"]):
        c = _value_class(v["c"][f])
        if c != "rand":
            best = c
    return best


def _family(cls):
    """Coarse family of a value class, used in failure signatures (the exact class is in the message)."""
    for key in ("out_min", "out_max", "f64_out"):
        if cls.startswith(key):
            return "beyond_max" if key != "out_min" else "beyond_min"
    if cls in ("all_max", "at_max", "in_max", "f64_in") or cls.startswith("in_max"):
        return "at_or_near_max"
    if cls in ("all_min", "at_min", "in_min") or cls.startswith("in_min"):
        return "at_or_near_min"
    if cls.startswith("shape"):
        return "shape"
    if cls.startswith("struct"):
        return "structure"
    if cls in ("dtype_other", "wide", "py"):
        return "dtype_or_container"
    return "interior"


def _is_adjacent(v):
    if v["k"] == "leaf":
        return bool(v.get("adj"))
    return any(_is_adjacent(c) for c in v["c"].values())


def _short(v):
    s = repr(v)
    return s if len(s) < 700 else s[:700] + "..."


def check_generate(E, s, d, real=None, tag=""):
    E.ev("generate")
    g = s.generate_value()
    gv = describe_value(g, d, real)
    ok, why = member(d, gv)
    if not ok:
        E.fail("generate_value.member", f"{d['k']}:{why.split('/')[-1]}",
               f"{tag}generate_value() is not a member ({why})\n  spec={s!r}\n  value={_short(gv)}")
    try:
        s.validate(g)
    except Exception as e:  # noqa: BLE001
        E.fail("generate_value.validate", f"{d['k']}:{type(e).__name__}",
               f"{tag}validate(generate_value()) raised {type(e).__name__}: {str(e)[:300]}\n  spec={s!r}")
    E.counts["generated_member" if ok else "generated_nonmember"] += 1


def _leaf_specs(s, d, path=()):
    if d["k"] != "nested":
        yield path, s, d
    else:
        for f in sorted(d["c"]):
            yield from _leaf_specs(s._specs[f], d["c"][f], path + (f,))


def check_same_attrs(E, oracle, what, r, s, d, tag=""):
    """`r` must carry exactly the attributes of `s` (leaf by leaf) - used by replace() and pickle."""
    try:
        pairs = list(zip(_leaf_specs(r, d), _leaf_specs(s, d)))
    except Exception as e:  # noqa: BLE001
        E.fail(oracle, f"{d['k']}:structure", f"{tag}{what}: structure changed ({type(e).__name__}: {e})")
        return
    for (p, rl, dl), (_, sl, _) in pairs:
        bad = _attr_mismatch(actual_attrs(rl), actual_attrs(sl))
        if bad:
            E.fail(oracle, f"{dl['k']}:{bad[0].split(':')[0]}",
                   f"{tag}{what}: leaf {'/'.join(p) or '.'} changed: {'; '.join(bad)}\n  before={sl!r}\n  after={rl!r}")


def check_self(E, s, d, tag=""):
    """Oracles on a single spec: == reflexive, replace() == self, pickle round trip."""
    E.ev("eq_reflexive")
    r = E.safe_eq(s, s, "s == s")
    if r is False:
        E.fail("eq.reflexive", d["k"], f"{tag}s == s is False\n  s={s!r}")
    E.ev("replace_noargs")
    try:
        rep = s.replace()
    except Exception as e:  # noqa: BLE001
        E.fail("replace.noargs", f"{d['k']}:raises:{type(e).__name__}", f"{tag}replace() raised {type(e).__name__}: {e}\n  s={s!r}")
        rep = None
    if rep is not None:
        if type(rep) is not type(s):
            E.fail("replace.noargs", f"{d['k']}:type", f"{tag}replace() changed the type: {type(rep).__name__}")
        else:
            check_same_attrs(E, "replace.noargs", "replace()", rep, s, d, tag)
            r = E.safe_eq(rep, s, "s.replace() == s")
            if r is False:
                E.fail("replace.noargs", f"{d['k']}:not_equal", f"{tag}s.replace() == s is False\n  s={s!r}\n  r={rep!r}")
    E.ev("pickle")
    try:
        back = pickle.loads(pickle.dumps(s))
    except Exception as e:  # noqa: BLE001
        E.fail("pickle.roundtrip", f"{d['k']}:raises:{type(e).__name__}",
               f"{tag}pickle round trip raised {type(e).__name__}: {str(e)[:300]}\n  s={s!r}")
        return
    if type(back) is not type(s):
        E.fail("pickle.roundtrip", f"{d['k']}:type", f"{tag}unpickled type {type(back).__name__} != {type(s).__name__}")
        return
    check_same_attrs(E, "pickle.roundtrip", "pickle.loads(pickle.dumps(s))", back, s, d, tag)
    r = E.safe_eq(back, s, "pickle.loads(pickle.dumps(s)) == s")
    if r is False:
        E.fail("pickle.roundtrip", f"{d['k']}:not_equal", f"{tag}unpickled spec != original\n  s={s!r}\n  back={back!r}")
    r = E.safe_eq(s, back, "s == pickle.loads(pickle.dumps(s))")
    if r is False:
        E.fail("pickle.roundtrip", f"{d['k']}:not_equal", f"{tag}original != unpickled spec\n  s={s!r}\n  back={back!r}")


def check_samples(E, s, d, gym_space, seed, n=3, tag=""):
    """Samples of converted action spaces (Discrete / MultiDiscrete / integer Box) are valid."""
    if gym_space is None or d["k"] == "nested" or not _is_int(d["dtype"]):
        return
    try:
        gym_space.seed(int(seed))
        xs = [gym_space.sample() for _ in range(n)]
    except Exception as e:  # noqa: BLE001
        E.fail("sample.valid", f"{d['k']}:sample_raises:{type(e).__name__}",
               f"{tag}sampling the converted space {gym_space!r} raised {type(e).__name__}: {e}\n  spec={s!r}")
        return
    for x in xs:
        E.ev("sample")
        v = describe_value(x, d)
        relaxed = d["k"] == "discrete" and d["dtype"] != "int32"
        if d["k"] == "multi" and d["dtype"] != "int32" and max(d["nv"]["flat"] + [1]) > IRANGE[d["dtype"]][1]:
            relaxed = True  # nvec itself does not fit the dtype, gym cannot carry it either
        if relaxed:  # gym.spaces.Discrete has no dtype to carry (see ASSUMPTIONS)
            E.counts["guard_%s_sample_dtype" % d["k"]] += 1
            v = dict(v, dtype=d["dtype"])
        ok, why = member(d, v)
        if not ok:
            try:  # a sample outside its *own* space is a defect of gym's sampler, not of the conversion
                own = bool(gym_space.contains(x))
            except Exception:  # noqa: BLE001
                own = True
            if not own:
                E.counts["guard_gym_sample_outside_own_space"] += 1
                continue
        E.counts["sample_member" if ok else "sample_nonmember"] += 1
        if not ok:
            E.fail("sample.valid", f"{d['k']}:{why}",
                   f"{tag}sample {x!r} (dtype {np.asarray(x).dtype}) of the converted space {gym_space!r} is not a "
                   f"member of the original spec ({why}; as a JAX array its dtype is {canon_dtype(v)})\n  spec={s!r}")
            continue
        if not relaxed:
            try:
                s.validate(x)
            except Exception as e:  # noqa: BLE001
                E.fail("sample.valid", f"{d['k']}:validate_raises",
                       f"{tag}sample {x!r} of {gym_space!r} rejected by validate: {type(e).__name__}: {str(e)[:300]}")


def check_eq_matrix(E, descs, specs_):
    """Equivalence-relation laws + agreement with the descriptions on up to three same-kind specs."""
    n = len(specs_)
    M = [[None] * n for _ in range(n)]
    for i in range(n):
        for j in range(n):
            E.ev("eq")
            M[i][j] = E.safe_eq(specs_[i], specs_[j], f"spec[{i}] == spec[{j}]")
    kind = descs[0]["k"]
    for i in range(n):
        if M[i][i] is False:
            E.fail("eq.reflexive", kind, f"s == s is False\n  s={specs_[i]!r}")
        for j in range(n):
            if i < j and None not in (M[i][j], M[j][i]) and M[i][j] != M[j][i]:
                E.fail("eq.symmetric", kind, f"(a == b) = {M[i][j]} but (b == a) = {M[j][i]}\n  a={specs_[i]!r}\n  b={specs_[j]!r}")
            if i == j:
                continue
            dd = tree_diff(descs[i], descs[j])
            if dd is None or M[i][j] is None:
                E.counts["eq_no_expectation"] += 1
                continue
            if not dd:
                E.counts["eq_expected_true"] += 1
                if M[i][j] is False:
                    E.fail("eq.copy" if kind != "nested" else "eq.nested_iff_children", f"{kind}:equal_parts_unequal",
                           f"two specs built from the same description compare unequal\n  a={specs_[i]!r}\n  b={specs_[j]!r}")
            else:
                E.counts["eq_expected_false"] += 1
                for a in dd:
                    E.counts["eq_diff_" + a.split("/")[-1]] += 1
                if M[i][j] is True:
                    first = sorted(dd)[0]
                    attr = first.split("/")[-1]
                    leafk = kind
                    if kind == "nested":
                        leafk = "nested:" + _get(descs[i], tuple(first.split("/")[:-1]))["k"]
                    E.fail("eq.distinguishes" if kind != "nested" else "eq.nested_iff_children", f"{leafk}:{attr}",
                           f"specs differ in {sorted(dd)} but compare equal\n  a={specs_[i]!r}\n  b={specs_[j]!r}")
    for i in range(n):
        for j in range(n):
            for k_ in range(n):
                if len({i, j, k_}) == 3 and M[i][j] is True and M[j][k_] is True:
                    E.counts["eq_transitive_premise_true"] += 1
                    if M[i][k_] is False:
                        E.fail("eq.transitive", kind, f"a == b and b == c but a != c\n  a={specs_[i]!r}\n  b={specs_[j]!r}\n  c={specs_[k_]!r}")
    if all(M[i][j] is True for i in range(n) for j in range(n)) and n >= 3:
        E.counts["eq_chain_all_equal"] += 1


def check_replace_leaf(E, s, d, attrs, target):
    if not attrs:
        return
    E.ev("replace_kwargs")
    kw = replace_kwargs(d, target, attrs)
    before = actual_attrs(s)
    try:
        r = s.replace(**kw)
    except Exception as e:  # noqa: BLE001
        E.fail("replace.kwargs", f"{d['k']}:raises:{type(e).__name__}",
               f"replace({', '.join(sorted(kw))}) raised {type(e).__name__}: {str(e)[:300]}\n  s={s!r}\n  kwargs={kw!r}")
        return
    for a in attrs:
        E.counts["replace_" + a] += 1
    want = expected_attrs(target)
    got = actual_attrs(r)
    bad = _attr_mismatch(got, want)
    if bad:
        named = {"min": "min", "max": "max", "num_values": "num_values"}
        first = bad[0].split(":")[0]
        E.fail("replace.kwargs", f"{d['k']}:{'+'.join(sorted(attrs))}:{named.get(first, first)}",
               f"replace({', '.join(sorted(kw))}) must change exactly the named attributes: {'; '.join(bad)}\n"
               f"  s={s!r}\n  kwargs={kw!r}\n  result={r!r}")
    if actual_attrs(s) != before:
        E.fail("replace.kwargs", f"{d['k']}:mutates_self", f"replace(...) modified the original spec\n  s={s!r}")


def check_replace_nested(E, s, d, rep):
    E.ev("replace_kwargs")
    new = {f: build_spec(nd) for f, nd in rep.items()}
    before = [(p_, actual_attrs(ls)) for p_, ls, _ in _leaf_specs(s, d)]
    try:
        r = s.replace(**new)
    except Exception as e:  # noqa: BLE001
        E.fail("replace.kwargs", f"nested:raises:{type(e).__name__}", f"replace({sorted(new)}) raised {type(e).__name__}: {e}")
        return
    E.counts["replace_child"] += 1
    try:
        after = [(p_, actual_attrs(ls)) for p_, ls, _ in _leaf_specs(s, d)]
    except Exception:  # noqa: BLE001
        after = None
    if after != before:
        E.fail("replace.kwargs", "nested:mutates_self", f"replace({sorted(new)}) modified the original spec\n  s={s!r}")
    try:
        kids = dict(r._specs)
    except Exception as e:  # noqa: BLE001
        E.fail("replace.kwargs", "nested:structure", f"result of replace has no children: {e}")
        return
    if sorted(kids) != sorted(d["c"]):
        E.fail("replace.kwargs", "nested:fields", f"children changed from {sorted(d['c'])} to {sorted(kids)}")
        return
    if r.name != s.name:
        E.fail("replace.kwargs", "nested:name", f"name changed from {s.name!r} to {r.name!r}")
    for f in sorted(d["c"]):
        if f in rep:
            bad = _attr_mismatch(actual_attrs(kids[f]), expected_attrs(rep[f]))
            try:
                attr_ok = not _attr_mismatch(actual_attrs(getattr(r, f)), expected_attrs(rep[f]))
            except Exception:  # noqa: BLE001
                attr_ok = False
            if bad or not attr_ok:
                E.fail("replace.kwargs", "nested:named_child_not_replaced",
                       f"replace({f}=...) did not install the new child: {'; '.join(bad)} attribute_updated={attr_ok}\n"
                       f"  new={new[f]!r}\n  got={kids[f]!r}")
        else:
            check_same_attrs(E, "replace.kwargs", f"replace({sorted(rep)}) [unnamed child {f}]",
                             kids[f], s._specs[f], d["c"][f])


def eval_case(case):
    d = case["spec"]
    E = Eval()
    s = build_spec(d)
    nested = d["k"] == "nested"
    E.counts["spec_" + d["k"]] += 1
    for _, ld in leaf_descs(d):
        E.counts["leafkind_" + ld["k"]] += 1
        E.counts["leafdtype_" + ld["dtype"]] += 1
        sh = leaf_shape(ld)
        E.counts[f"leafrank_{len(sh)}"] += 1
        if _size(sh) == 0:
            E.counts["leaf_size0"] += 1
        if ld["k"] == "bounded":
            per = _size(ld["min"]["shape"]) > 1 or _size(ld["max"]["shape"]) > 1
            E.counts["bounds_per_element_gt1" if per else
                     ("bounds_array_size1" if ld["min"]["shape"] or ld["max"]["shape"] else "bounds_scalar")] += 1
    if nested:
        E.counts[f"nesting_{nesting(d)}"] += 1
        E.counts["ctor_" + d["ctor"]] += 1
    if nested or len(leaf_shape(d)) >= 1:
        E.nontrivial.append(("spec", d))
    # attributes of the constructed spec are the declared ones
    for p, ls, ld in _leaf_specs(s, d):
        E.ev("construct")
        bad = _attr_mismatch(actual_attrs(ls), expected_attrs(ld))
        if bad:
            E.fail("construct.attrs", f"{ld['k']}:{bad[0].split(':')[0]}",
                   f"accessors of a freshly built spec disagree with the constructor arguments: {'; '.join(bad)}\n  spec={ls!r}")
    check_generate(E, s, d)
    gym_space = check_values(E, s, d, case["values"])
    check_self(E, s, d)
    check_samples(E, s, d, gym_space, case["gym_seed"])
    descs = [d, case["b"], case["c"]]
    specs_ = [s, build_spec(case["b"], 1), build_spec(case["c"], 2)]
    check_eq_matrix(E, descs, specs_)
    if nested:
        check_replace_nested(E, s, d, case["replace"])
    else:
        check_replace_leaf(E, s, d, case["replace"], case["target"])
    return E


# ------------------------------------------------------------------------------------- real envs
WHICH = ["observation_spec", "action_spec", "reward_spec", "discount_spec"]


def desc_of(spec):
    """Description of a real spec, read from its public accessors (the declaration under test)."""
    from jumanji import specs

    if isinstance(spec, specs.DiscreteArray):
        return {"k": "discrete", "n": int(spec.num_values), "dtype": str(np.dtype(spec.dtype)), "name": spec.name}
    if isinstance(spec, specs.MultiDiscreteArray):
        nv = np.asarray(spec.num_values)
        return {"k": "multi", "nv": {"shape": list(nv.shape), "flat": [int(t) for t in nv.ravel().tolist()]},
                "dtype": str(np.dtype(spec.dtype)), "name": spec.name}
    if isinstance(spec, specs.BoundedArray):
        dt = str(np.dtype(spec.dtype))
        mn, mx = np.asarray(spec.minimum), np.asarray(spec.maximum)
        return {"k": "bounded", "shape": list(spec.shape), "dtype": dt, "name": spec.name,
                "min": {"shape": list(mn.shape), "flat": [_pyval(t, dt) for t in mn.ravel().tolist()], "as": "np"},
                "max": {"shape": list(mx.shape), "flat": [_pyval(t, dt) for t in mx.ravel().tolist()], "as": "np"}}
    if isinstance(spec, specs.Array):
        return {"k": "array", "shape": list(spec.shape), "dtype": str(np.dtype(spec.dtype)), "name": spec.name}
    return {"k": "nested", "ctor": "real", "name": spec.name, "c": {f: desc_of(c) for f, c in spec._specs.items()}}


@functools.lru_cache(maxsize=4)
def _env(env, entry):
    from vf import envs

    return envs.make_env(env, entry)


@functools.lru_cache(maxsize=16)
def _env_spec(env, entry, which):
    s = getattr(_env(env, entry), which)
    return s, desc_of(s)


def eval_env(case):
    s, d = _env_spec(case["env"], case["entry"], case["which"])
    E = Eval()
    tag = f"[{case['env']}/{case['entry']}.{case['which']}] "
    E.counts["envspec_" + d["k"]] += 1
    for _, ld in leaf_descs(d):
        E.counts["envleaf_" + ld["k"]] += 1
    if d["k"] == "nested" or len(leaf_shape(d)) >= 1:
        E.nontrivial.append(("envspec", case["env"], case["entry"], case["which"]))
    gym_space = check_values(E, s, d, case["values"], real=s, tag=tag)
    if case.get("first", True):
        check_generate(E, s, d, real=s, tag=tag)
        check_self(E, s, d, tag=tag)
    if case["which"] == "action_spec":
        check_samples(E, s, d, gym_space, case["gym_seed"], n=4, tag=tag)
    return E


def _env_case_strategy(env, entry, which, first=False):
    _, d = _env_spec(env, entry, which)

    @st.composite
    def strat(draw):
        return {"env": env, "entry": entry, "which": which, "first": first,
                "values": [draw(value_for(d)) for _ in range(draw(st.integers(2, 4)))],
                "gym_seed": draw(st.integers(0, 2**31 - 1))}

    return strat()


# ------------------------------------------------------------------------------------- plumbing
def work_items(tier, flt):
    from vf import envs

    scale = flt.get("scale", 1.0)
    quick = tier == "quick"
    # quick: 8 x 300 leaf + 4 x 150 nested = 3 000 specs in 16 items (one wave on 16 workers);
    # thorough: 16 x 3 000 + 8 x 1 500 = 60 000 specs
    n_leaf = int((300 if quick else 3000) * scale)
    n_nest = int((150 if quick else 1500) * scale)
    items = []
    if not flt.get("env"):
        for sh in range(8 if quick else 16):
            items.append({"kind": "leaf", "shard": sh, "n": n_leaf, "cost": 4})
        for sh in range(4 if quick else 8):
            items.append({"kind": "nested", "shard": sh, "n": n_nest, "cost": 6})
        items.append({"kind": "wide", "shard": 0, "n": int((200 if quick else 1500) * scale), "cost": 2})
    names = envs.select_envs(envs.ENV_NAMES, flt)
    ngroups = 4 if quick else 8
    groups = [names[i::ngroups] for i in range(ngroups)]
    for gi, g in enumerate(groups):
        if g:
            items.append({"kind": "env", "envs": g, "shard": gi, "tier": tier,
                          "entry_filter": flt.get("entry"), "n": int((6 if quick else 40) * scale), "cost": 2})
    return items


def _record(ctx, item, case, E, env, seed):
    ctx.evals(E.n)
    for k, v in E.counts.items():
        ctx.count(k, v)
    for nt in E.nontrivial:
        ctx.nontrivial(*nt)
    size = len(repr(case))
    for oracle, sig, msg in E.fails:
        ctx.fail(oracle, env, sig, msg, {"kind": item["kind"], "args": case, "seed": seed}, size=size)


def run_item(item, seed, tier):
    ctx = Ctx(PROPERTY, item)
    kind = item["kind"]
    if kind == "wide":
        def one_w(case):
            with ctx.guard("specs", {"kind": "wide", "args": case, "seed": seed}, size=len(repr(case))):
                E = eval_wide(case)
                ctx.count("cases_wide")
                _record(ctx, item, case, E, "specs", seed)

        hyp.drive({"case": wide_case()}, one_w, seed, item["n"])
        return ctx.result()
    if kind in ("leaf", "nested"):
        strat = leaf_case() if kind == "leaf" else nested_case()

        def one(case):
            with ctx.guard("specs", {"kind": kind, "args": case, "seed": seed}, size=len(repr(case))):
                E = eval_case(case)
                ctx.count("cases_" + kind)
                ctx.sample({"kind": kind, "spec": case["spec"], "value0": case["values"][0]})
                _record(ctx, item, case, E, "specs", seed)

        hyp.drive({"case": strat}, one, seed, item["n"])
        return ctx.result()

    from vf import envs

    sub = 0
    for env in item["envs"]:
        es = envs.tier_entries(env, item.get("tier", tier), {"entry": item.get("entry_filter")})
        for entry in es:
            for which in WHICH:
                def one(case, env=env):
                    with ctx.guard(env, {"kind": "env", "args": case, "seed": seed}, size=len(repr(case))):
                        E = eval_env(case)
                        ctx.count("cases_env")
                        ctx.count("cases_env_" + case["which"])
                        if case["first"]:
                            ctx.sample({"kind": "env", "env": env, "entry": case["entry"], "which": case["which"]})
                        _record(ctx, item, case, E, env, seed)

                n = item["n"] if which in ("observation_spec", "action_spec") else max(2, item["n"] // 3)
                sub += 1
                # the single-spec oracles once, on a fixed case; then value perturbations
                one({"env": env, "entry": entry, "which": which, "first": True, "values": [], "gym_seed": sub})
                hyp.drive({"case": _env_case_strategy(env, entry, which)}, one, seed + 7919 * sub, n)
    return ctx.result()


WIDE_DTYPES = ["uint64", "int64", "float64", "uint32", "uint16"]
Box_ = collections.namedtuple("Box_", ["w"])     # module level: nested specs must survive pickling


@st.composite
def wide_case(draw):
    """Specs declared with dtypes JAX narrows when x64 is off (uint64 / int64 / float64, as string, NumPy or jnp
    objects or the Python types) and the unsigned types missing from the main menu; small shapes and bounds."""
    dt = draw(st.sampled_from(WIDE_DTYPES))
    dk = draw(st.sampled_from(["str", "np", "jnp"] + (["py"] if dt in ("int64", "float64") else [])))
    cls = draw(st.sampled_from(["array", "bounded", "discrete", "multi"] if not dt.startswith("float") else ["array", "bounded"]))
    shape = draw(st.lists(st.integers(0, 3), max_size=2))
    lo = draw(st.integers(0, 5))
    return {"dtype": dt, "dk": dk, "cls": cls, "shape": shape, "lo": lo, "hi": lo + draw(st.integers(0, 9)),
            "n": draw(st.integers(1, 9)), "nest": draw(st.booleans())}


def eval_wide(c):
    """generate -> validate, bounds members, replace and pickle round trip for one wide-dtype spec (optionally as the
    only field of a nested Spec).  The oracle uses nothing but the spec's own dtype attribute: whatever dtype the spec
    says it has, the value it generates must carry it and be accepted."""
    import pickle

    import jax.numpy as jnp

    from jumanji import specs

    E = Eval()
    dt = {"str": c["dtype"], "np": np.dtype(c["dtype"]), "jnp": getattr(jnp, c["dtype"]),
          "py": {"int64": int, "float64": float}.get(c["dtype"])}[c["dk"]]
    shape = tuple(c["shape"])
    if c["cls"] == "array":
        sp = specs.Array(shape, dt, "w")
    elif c["cls"] == "bounded":
        sp = specs.BoundedArray(shape, dt, c["lo"], c["hi"], "w")
    elif c["cls"] == "discrete":
        sp = specs.DiscreteArray(c["n"], dt, "w")
    else:
        sp = specs.MultiDiscreteArray(jnp.full(shape or (1,), c["n"], jnp.int32), dt, "w")
    leaf = sp
    if c["nest"]:
        sp = specs.Spec(Box_, "BoxSpec", w=leaf)
    for tag, s2 in (("spec", sp), ("pickle", pickle.loads(pickle.dumps(sp))), ("replace", leaf.replace(name="w2"))):
        E.ev("wide_" + tag)
        try:
            v = s2.generate_value()
            s2.validate(v)
        except Exception as e:  # noqa: BLE001
            E.fail("generate_value.validate", f"wide:{type(e).__name__}",
                   f"{tag}: validate(generate_value()) raised for a spec declared with dtype {c['dtype']} ({c['dk']}): "
                   f"{type(e).__name__}: {str(e)[:200]}")
            continue
        lv = v.w if (c["nest"] and tag != "replace") else v
        want = np.dtype(leaf.dtype)
        if np.asarray(lv).dtype != want:
            E.fail("generate_value.member", "wide:dtype", f"{tag}: generate_value() has dtype {np.asarray(lv).dtype}, the spec says {want}")
        if c["cls"] == "bounded" and tag == "spec" and not c["nest"]:
            for b in (c["lo"], c["hi"]):
                E.ev("wide_member")
                try:
                    leaf.validate(jnp.full(shape, b).astype(leaf.dtype))
                except Exception as e:  # noqa: BLE001
                    E.fail("validate.accepts_members", f"wide:{type(e).__name__}",
                           f"a value at the bound {b} with the spec's own dtype {leaf.dtype} is rejected: {str(e)[:200]}")
    E.nontrivial.append(("wide", c["dtype"], c["dk"], c["cls"], c["nest"]))
    return E


def _eval_any(kind, args):
    if kind == "wide":
        return eval_wide(args)
    return eval_env(args) if kind == "env" else eval_case(args)


def replay(case):
    kind, args = case["kind"], case["args"]
    env = args.get("env", "specs") if kind == "env" else "specs"
    E = _eval_any(kind, args)
    return [{"env": env, "oracle": o, "sig": s, "msg": m} for o, s, m in E.fails]


MAX_SHRINKS = 6
_shrinks = {"n": 0}


def shrink(fl):
    # a defect can surface in many buckets; only the first few (in the runner's sorted order) are
    # minimised, the others keep the smallest case seen during the campaign
    _shrinks["n"] += 1
    if _shrinks["n"] > MAX_SHRINKS:
        return fl
    case = fl["case"]
    kind, args = case["kind"], case["args"]
    if kind == "env" and not args.get("values"):
        return fl  # the fixed single-spec case of an environment is already minimal
    if kind == "env":
        strat = _env_case_strategy(args["env"], args["entry"], args["which"], args.get("first", True))
    elif kind == "wide":
        strat = wide_case()
    else:
        strat = leaf_case() if kind == "leaf" else nested_case()

    def pred(case):
        try:
            return any(o == fl["oracle"] and s == fl["sig"] for o, s, _ in _eval_any(kind, case).fails)
        except Exception:  # noqa: BLE001
            return False

    best = hyp.minimise({"case": strat}, pred, case.get("seed", 1), 300)
    if best is not None:
        msgs = [m for o, s, m in _eval_any(kind, best["case"]).fails if o == fl["oracle"] and s == fl["sig"]]
        fl = dict(fl, case={"kind": kind, "args": best["case"], "seed": case.get("seed", 1)},
                  msg=msgs[0] if msgs else fl["msg"])
    return fl

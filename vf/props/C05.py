"""C05 - illegal actions have only their documented effect."""
from vf import modelprops as mp

PROPERTY = "C05"
TECHNIQUE = ("Hypothesis-generated keys x legal plans; at each reached state every rule-illegal action is enumerated "
             "and stepped (one vmapped step); oracle: documented invalid-move effect per environment")
RULE = ("cases = (state reached by a rule-legal plan, action the independent rule model forbids), all illegal actions "
        "enumerated (<= 512 per state, stride-sampled beyond); oracle = documented effect (terminate-on-invalid: LAST + "
        "documented reward (+ untouched problem state where promised); ignore-invalid: episode continues and the acting "
        "entity keeps position/holdings, nothing moved/placed/merged/eaten/spawned); non-trivial = pairs at depth >= 1, "
        "distinct by (state digest, action)")
ASSUMPTIONS = ["illegality is judged by the independent rule model (vf/models), not by the environment's mask"]
_P = mp.HistoryProp(PROPERTY, "check_illegal", mp.C05Mon, n_quick=12, n_thorough=120, max_len=40,
                    styles=("legal", "survive", "solve", "legal", "solveish"), use_model_legality=True)
_P.export(globals())


# bounded exhaustive exploration of small deterministic environments (see modelprops.BFS_ENVS)
_hist_work_items, _hist_run_item = work_items, run_item  # noqa: F821


def work_items(tier, flt):  # noqa: F811
    return _hist_work_items(tier, flt) + mp.bfs_work_items(PROPERTY, "check_illegal", tier, flt)


def run_item(item, seed, tier):  # noqa: F811
    if item.get("kind") == "bfs":
        return mp.bfs_run_item(PROPERTY, item, seed, mp.C05Mon, "check_illegal")
    return _hist_run_item(item, seed, tier)

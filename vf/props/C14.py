"""C14 - batched wrappers equal per-instance execution; VmapAutoReset = Vmap(AutoReset)."""
from __future__ import annotations

import numpy as np

from vf import envs, episodes, hyp, treecmp
from vf.hyp import st
from vf.props.C13 import QUICK_ENVS, SHORT_ENTRY, stacked_bundle
from vf.runner import Ctx

PROPERTY = "C14"
TECHNIQUE = ("differential oracles on Hypothesis-generated batches: VmapWrapper slice i vs unwrapped call on element i; "
             "VmapAutoResetWrapper vs VmapWrapper(AutoResetWrapper) step by step with staggered terminations; render of "
             "both wrappers with an identity render")
RULE = ("cases = (env, short-episode entry, next_obs flag, batch size 1..6 plus a few batches of 129-257, per-element keys, per-element 18-step plans with "
        "illegal/raw actions so that none/some/all elements end on a step - histogram in evidence); oracles: per-index "
        "equality with unwrapped execution, step-by-step equality of the two auto-reset compositions, render returns "
        "element 0; non-trivial = steps on which a strict non-empty subset of the batch resets, distinct by "
        "(env, entry, flag, keys, step)")
ASSUMPTIONS = ["float leaves compared with rtol 1e-5 across differently batched programs, everything else bitwise"]
N_STEPS = 18


class Rig:
    def __init__(self, b, flag):
        import jax

        from jumanji.wrappers import AutoResetWrapper, VmapAutoResetWrapper, VmapWrapper

        self.b, self.flag = b, flag
        self.V = VmapWrapper(b.env)
        self.VA = VmapAutoResetWrapper(b.env, next_obs_in_extras=flag)
        self.VW = VmapWrapper(AutoResetWrapper(b.env, next_obs_in_extras=flag))
        self.j = {n: (jax.jit(w.reset), jax.jit(w.step)) for n, w in (("V", self.V), ("VA", self.VA), ("VW", self.VW))}
        # plain-Python (un-jitted) calls of the batched auto-reset wrapper are rationed: one step on which nobody ends
        # and one on which somebody does, for the cheap environments
        self.eager_left = {"quiet": 1, "ending": 1} if b.name in ("Snake", "Knapsack", "Game2048", "Maze", "TSP") else {}


def sl(tree, i):
    import jax

    return jax.tree_util.tree_map(lambda x: x[i], tree)


def run_case(ctx, rig, key_words, plans=None, actions=None, fail=None, typed=False):
    """key_words: list of B key pairs; plans: list of B plans (each N_STEPS long) or actions[t][i].
    typed: the batch is made of new-style typed keys (jax.random.key) instead of raw uint32 pairs."""
    import jax
    import jax.numpy as jnp

    b = rig.b
    B = len(key_words)
    keys = jnp.stack([envs.make_key(k) for k in key_words], 0)
    if typed:
        keys = jax.random.wrap_key_data(keys)
    # ---- 1. VmapWrapper vs unwrapped
    vs, vts = rig.j["V"][0](keys)
    hvs, hvts = episodes.host((vs, vts))
    singles = []
    for i in range(B):
        s_i, ts_i = b.reset(keys[i])
        singles.append((s_i, ts_i))
        d = treecmp.diff((sl(hvs, i), sl(hvts, i)), episodes.host((s_i, ts_i)), exact=False)
        ctx.evals()
        if d:
            fail("vmap.reset", "VmapWrapper.reset slice != unwrapped reset", f"index {i}: {d}")
    # ---- 2. VA vs VW (drives the action choice), V alongside on the same actions
    sa, tsa = rig.j["VA"][0](keys)
    sw, tsw = rig.j["VW"][0](keys)
    d = treecmp.diff(episodes.host((sa, tsa)), episodes.host((sw, tsw)), exact=False)
    if d:
        fail("autoreset.reset", "VmapAutoResetWrapper.reset != VmapWrapper(AutoResetWrapper).reset", d)
    # both compositions carry extras['next_obs'] exactly when asked to (whatever other wrapper instances exist in the
    # process: the rigs of one worker are built with both settings)
    for name, ts_ in (("VmapAutoResetWrapper", tsa), ("VmapWrapper(AutoResetWrapper)", tsw)):
        has = isinstance(ts_.extras, dict) and "next_obs" in ts_.extras
        if has != bool(rig.flag):
            fail("autoreset.extras", f"{name}: extras['next_obs'] present={has} with next_obs_in_extras={bool(rig.flag)}",
                 f"extras keys {sorted(ts_.extras) if isinstance(ts_.extras, dict) else type(ts_.extras).__name__}")
    played = []
    n = N_STEPS if actions is None else len(actions)
    for t in range(n):
        hsa, htsa = episodes.host((sa, tsa))
        if actions is None:
            acts = []
            for i in range(B):
                mode, r = plans[i]["steps"][t]
                if mode == "survive":
                    mode = "legal"
                acts.append(np.asarray(b.pick_action(sl(hsa, i), sl(htsa, i), mode, r)))
            acts = np.stack(acts, 0)
        else:
            acts = np.stack([b.to_action(a) for a in actions[t]], 0)
        played.append(acts)
        # plain vmap vs singles (continue on whatever state each element is in; no auto reset)
        vs2, vts2 = rig.j["V"][1](vs, acts)
        hv = episodes.host((vs2, vts2))
        for i in range(B):
            s_i, ts_i = b.step(singles[i][0], acts[i])
            singles[i] = (s_i, ts_i)
            d = treecmp.diff(sl(hv, i), episodes.host((s_i, ts_i)), exact=False)
            ctx.evals()
            if d:
                fail("vmap.step", "VmapWrapper.step slice != unwrapped step", f"step {t} index {i}: {d}")
        vs, vts = vs2, vts2
        # the two auto-reset compositions
        sa2, tsa2 = rig.j["VA"][1](sa, acts)
        sw2, tsw2 = rig.j["VW"][1](sw, acts)
        ha, hw = episodes.host((sa2, tsa2)), episodes.host((sw2, tsw2))
        ctx.evals()
        d = treecmp.diff(ha, hw, exact=False)
        if d:
            fail("autoreset.step", "VmapAutoResetWrapper.step != VmapWrapper(AutoResetWrapper).step", f"step {t}: {d}")
        lasts = np.asarray(ha[1].step_type) == episodes.LAST
        k = int(lasts.sum())
        kind = "quiet" if k == 0 else "ending"
        if rig.eager_left.get(kind, 0) > 0:
            rig.eager_left[kind] -= 1
            he = episodes.host(rig.VA.step(sa, acts))      # the same call without jit
            ctx.evals()
            ctx.count(f"eager_wrapper_steps_{kind}")
            d = treecmp.diff(he, ha, exact=False)
            if d:
                fail("autoreset.eager", "un-jitted VmapAutoResetWrapper.step differs from the jitted call",
                     f"step {t} ({k} of {B} elements ended): {d}")
        ctx.count("steps_none_end" if k == 0 else ("steps_all_end" if k == B else "steps_some_end"))
        if 0 < k < B:
            ctx.nontrivial(b.name, b.entry, rig.flag, key_words, t)
        sa, tsa, sw, tsw = sa2, tsa2, sw2, tsw2
    # ---- 3. render returns element 0 (inner render replaced by the identity)
    inner = b.env
    had = "render" in vars(inner)
    old = vars(inner).get("render")
    inner.render = lambda state: state
    try:
        hs = episodes.host(sa)
        for name, w in (("VmapWrapper", rig.V), ("VmapAutoResetWrapper", rig.VA)):
            out = w.render(sa)
            ctx.evals()
            d = treecmp.diff(episodes.host(out), sl(hs, 0))
            if d:
                fail("render", f"{name}.render does not render element 0 of the batch", d)
    finally:
        if had:
            inner.render = old
        else:
            del inner.render
    return played


@st.composite
def batch_cases(draw, B):
    """Per-element keys and plans.  Large batches (Hypothesis cannot draw hundreds of plans in one example) expand 6
    drawn prototypes deterministically: element i gets prototype i % 6 with its key and every r shifted by i."""
    nb = min(B, 6)
    keys = draw(st.lists(episodes.keys(), min_size=nb, max_size=nb))
    plans = [draw(episodes.plans(max_len=N_STEPS, min_len=N_STEPS,
                                 styles=("legalish", "chaos", "late_illegal", "legal"))) for _ in range(nb)]
    if B > nb:
        keys = [((keys[i % nb][0] + i) % 2**32, keys[i % nb][1]) for i in range(B)]
        plans = [dict(plans[i % nb], steps=[(m, r + 7919 * (i // nb)) for m, r in plans[i % nb]["steps"]]) for i in range(B)]
    return {"keys": keys, "plans": plans}


def work_items(tier, flt):
    scale = (flt or {}).get("scale", 1.0)
    names = QUICK_ENVS[:8] if tier == "quick" else envs.ENV_NAMES
    items = []
    for n_i, env in enumerate(envs.select_envs(names, flt)):
        entry = SHORT_ENTRY[env]
        if flt and flt.get("entry"):
            entry = flt["entry"][0]
        sizes = [1 + (n_i % 2), 3 + (n_i % 3)] if tier == "quick" else [1, 2, 3, 4, 5, 6]
        for B in sizes:
            for flag in (False, True):
                if tier == "quick" and flag != ((n_i + B) % 2 == 0) and B != sizes[-1]:
                    continue
                items.append({"env": env, "entry": entry, "flag": flag, "B": B,
                              "n": max(2, int((8 if tier == "quick" else 30) * scale)),
                              "cost": {"BinPack": 9, "MMST": 9, "PacMan": 5, "Connector": 3}.get(env, 1) * (1 + B / 6)})
    # "batch sizes 1..N": a few large batches as well (size-dependent code paths, e.g. a sparse-reset fast path)
    big = [("Snake", 130, True), ("Knapsack", 257, False)] if tier == "quick" else \
        [("Snake", 130, True), ("Knapsack", 257, False), ("Game2048", 200, True), ("Maze", 160, False), ("Tetris", 129, False)]
    for env, B, flag in big:
        if envs.select_envs([env], flt):
            items.append({"env": env, "entry": SHORT_ENTRY[env], "flag": flag, "B": B, "n": 2, "cost": 6})
    # configurations whose states have size-1 dimensions besides the batch (one agent, one food, one shelf column):
    # per-index slicing and rendering must not confuse them with the batch dimension
    ones = [("Cleaner", "r3c7a1t7", 2, True), ("LevelBasedForaging", "g5a1f1v5l2nVNp0t7", 1, False)]
    if tier != "quick":
        ones += [("RobotWarehouse", "s1x3h2a1r1q1t7", 2, True), ("Connector", "g4a1t3uni", 3, False),
                 ("Cleaner", "r3c7a1t7", 1, False), ("LevelBasedForaging", "g5a1f1v5l2nVNp0t7", 3, True)]
    for env, entry, B, flag in ones:
        if envs.select_envs([env], flt) and not (flt and flt.get("entry")):
            items.append({"env": env, "entry": entry, "flag": flag, "B": B,
                          "n": max(2, int((4 if tier == "quick" else 15) * scale)), "cost": 2})
    # the batched wrappers over another Wrapper (harness-side Wrapper subclasses, jumanji's MultiToSingleWrapper)
    stacks = [("Snake", 3, False, "tag"), ("Knapsack", 2, True, "zeromid")]
    if tier != "quick":
        stacks += [("Game2048", 4, True, "tag"), ("Maze", 3, False, "zeromid"), ("Connector", 3, True, "m2smin"),
                   ("Snake", 130, False, "tag")]
    # batches of new-style typed keys
    for env, B, flag in ([("Snake", 3, True), ("Game2048", 1, False)] if tier == "quick" else
                         [("Snake", 3, True), ("Game2048", 1, False), ("Knapsack", 4, True), ("Maze", 2, False),
                          ("Connector", 2, True), ("Tetris", 5, False)]):
        if envs.select_envs([env], flt):
            items.append({"env": env, "entry": SHORT_ENTRY[env], "flag": flag, "B": B, "typed": True,
                          "n": max(2, int((4 if tier == "quick" else 15) * scale)), "cost": 2})
    for env, B, flag, kind in stacks:
        if envs.select_envs([env], flt):
            entry = "g6a3t50rw" if (env == "Connector" and kind == "m2smin") else SHORT_ENTRY[env]
            items.append({"env": env, "entry": entry, "flag": flag, "B": B, "stack": kind,
                          "n": max(2, int((6 if tier == "quick" else 20) * scale)), "cost": 2})
    return items


def run_item(item, seed, tier):
    ctx = Ctx(PROPERTY, item)
    env, entry, flag, B = item["env"], item["entry"], item["flag"], item["B"]
    with ctx.guard(env, {"env": env, "entry": entry, "flag": flag, "B": B, "stage": "construct"}):
        b = envs.bundle(env, entry)
        if item.get("stack"):
            b = stacked_bundle(b, item["stack"])
        rig = Rig(b, flag)

        def one(case_in):
            case = {"env": env, "entry": entry, "flag": flag, "keys": [list(k) for k in case_in["keys"]], "actions": [],
                    "stack": item.get("stack", False), "typed": bool(item.get("typed"))}

            def fail(oracle, sig, msg):
                ctx.fail(oracle, env, sig, f"{msg} [entry={entry} flag={flag} B={B} keys={case['keys']}]", case,
                         size=B * N_STEPS)

            with ctx.guard(env, case, size=10**6):
                played = run_case(ctx, rig, case["keys"], plans=case_in["plans"], fail=fail, typed=case["typed"])
                case["actions"] = [a.tolist() for a in played]
                ctx.count(f"batches_B{B}")
                if len(ctx.samples) < 2:
                    ctx.sample({"env": env, "entry": entry, "flag": flag, "keys": case["keys"],
                                "first_actions": case["actions"][:3]})

        hyp.drive({"case_in": batch_cases(B)}, one, seed, item["n"])
    return ctx.result()


def replay(case):
    ctx = Ctx(PROPERTY, {})
    env = case["env"]
    with ctx.guard(env, case):
        b = envs.bundle(env, case["entry"])
        if case.get("stack"):
            b = stacked_bundle(b, case["stack"])
        rig = Rig(b, case["flag"])
        if case.get("stage") == "construct":
            return []

        def fail(oracle, sig, msg):
            ctx.fail(oracle, env, sig, msg, case)

        run_case(ctx, rig, case["keys"], actions=case["actions"], fail=fail, typed=bool(case.get("typed")))
    return list(ctx.failures.values())

"""History generation shared by the environment-level properties.

An *episode plan* is a Hypothesis-drawn list of (mode, r) pairs interpreted against the current
state (see DESIGN 2.3); what is recorded - and written to replay files - is the list of *concrete*
actions that was played, so a replay needs neither Hypothesis nor the plan interpreter.
"""
from __future__ import annotations

import numpy as np

from vf import envs
from vf.hyp import st

FIRST, MID, LAST = 0, 1, 2

STYLES = {
    "legalish": ["legal"] * 8 + ["raw", "illegal"],
    "survive": ["survive"] * 9 + ["raw"],
    "chaos": ["raw"] * 5 + ["legal"] * 3 + ["illegal"] * 2,
    "legal": ["legal"],
    "late_illegal": ["legal"] * 12 + ["illegal"],
    # 'solve' asks the reference model for a constructive move (model.solve_action); it falls back to
    # 'legal' for environments whose model has no solver
    "survive_only": ["survive"],
    # multi-agent conflict bias (same value chosen by several agents in one step); = legal for single-agent envs
    "crowded": ["crowd"] * 5 + ["legal"] * 4 + ["raw"],
    "crowd_only": ["crowd", "crowd", "legal"],
    "solve": ["solve"],
    "solveish": ["solve"] * 8 + ["legal", "raw"],
}


def keys():
    word = st.one_of(st.integers(0, 64), st.integers(0, 2**32 - 1))
    return st.tuples(word, word)


@st.composite
def plans(draw, max_len=60, styles=("legalish", "survive", "chaos", "legal", "late_illegal", "solveish", "crowded", "solve"),
          min_len=1):
    style = draw(st.sampled_from(list(styles)))
    pool = STYLES[style]
    n = draw(st.integers(min_len, max_len))
    raw = draw(st.lists(st.tuples(st.integers(0, 2**16 - 1), st.integers(0, 2**20)), min_size=n, max_size=n))
    return {"style": style, "styles": list(styles), "u": [u for u, _ in raw],
            "steps": [(pool[u % len(pool)], r) for u, r in raw]}


# styles that end a terminate-on-invalid episode at once are replaced there by their legal-only counterparts
_TERMINATING_SUBST = {"chaos": "late_illegal", "solveish": "solve", "crowded": "crowd_only", "survive": "survive_only"}


_LONG_STYLES = ("solve", "survive_only")


def restyle(plan: dict, index: int, env_name: str = None) -> dict:
    """Balanced style assignment: Hypothesis' sampled_from is heavily skewed over a few dozen cases, so the
    style is taken round-robin from the plan's style list by the running case index (deterministic), while the
    per-step mode choices (u) and arguments (r) stay Hypothesis-drawn.  For terminate-on-invalid environments
    every second occurrence of a style with raw/illegal steps is replaced by its legal-only counterpart."""
    styles = plan.get("styles")
    if not styles or "u" not in plan:
        return plan
    style = styles[index % len(styles)]
    if env_name in envs.TERMINATE_ON_INVALID and (index // len(styles)) % 2 == 0:
        style = _TERMINATING_SUBST.get(style, style)
    pool = STYLES[style]
    steps = [(pool[u % len(pool)], r) for u, (_, r) in zip(plan["u"], plan["steps"])]
    if style in _LONG_STYLES and (index // len(styles)) % 2 == 1:
        # every second constructive episode is played six times as long (r shifted per repetition): endings that
        # need a long purposeful episode (a cleared PacMan level, a full Tetris game, all shelves delivered)
        steps = [(m, r + 7919 * c) for c in range(6) for m, r in steps]
    return dict(plan, style=style, steps=steps)


def host(x):
    """Pull a pytree to host.  New-style typed PRNG keys (jax.random.key) are shown as their raw key data."""
    import jax

    def raw(leaf):
        dt = getattr(leaf, "dtype", None)
        if dt is not None and jax.dtypes.issubdtype(dt, jax.dtypes.prng_key):
            return jax.random.key_data(leaf)
        return leaf

    return jax.device_get(jax.tree_util.tree_map(raw, x))


class Recorder:
    """Per-episode context handed to monitors: knows the concrete case so far."""

    def __init__(self, ctx, b: envs.Bundle, key_words, extra=None):
        self.ctx, self.b = ctx, b
        self.key_words = [int(key_words[0]), int(key_words[1])]
        self.actions: list = []
        self.extra = extra or {}
        self.flags: dict = {}

    def case(self) -> dict:
        c = {"env": self.b.name, "entry": self.b.entry, "overrides": dict(self.b.overrides),
             "key": self.key_words, "actions": [np.asarray(a).tolist() for a in self.actions]}
        c.update(self.extra)
        return c

    def fail(self, oracle: str, sig: str, msg: str) -> None:
        self.ctx.fail(oracle, self.b.name, sig,
                      f"{msg} [entry={self.b.entry} key={self.key_words} step={len(self.actions)}]",
                      self.case(), size=len(self.actions))


class Monitor:
    """Base class: a property-specific oracle evaluated along a history."""

    def on_reset(self, rec: Recorder, st_, ts) -> None: ...
    def on_step(self, rec: Recorder, t: int, pst, pts, a, st_, ts, after_last: bool) -> None: ...
    def on_end(self, rec: Recorder) -> None: ...


def solve_fn_for(b: envs.Bundle):
    """model.solve_action of the env's reference model, if it has one."""
    try:
        from vf.models import base

        m = base.get_model(b)
    except Exception:  # noqa: BLE001 - model-free properties must not depend on model modules
        return None
    return getattr(m, "solve_action", None)


def crowd_fn_for(b: envs.Bundle):
    """model.crowd_step(state, episode_seed, r): env-specific conflict policy (agents gather and enter one cell
    in the same step); the generic 'crowd' picker (same action value for several agents) is used otherwise."""
    try:
        from vf.models import base

        m = base.get_model(b)
    except Exception:  # noqa: BLE001
        return None
    return getattr(m, "crowd_step", None)


_FF: dict = {}


def fast_forward(b: envs.Bundle, st_, ts, prefix: dict):
    """Deep start: advance a freshly reset episode by up to prefix['steps'] steps of the named scripted policy
    (a pure JAX function of the state, envs.DEEP_POLICIES) inside one jitted loop, never stepping into a LAST
    timestep.  The result is a real reachable, non-terminal (state, timestep) that the monitors then treat as the
    start of the case; replays re-derive it from (key, policy, steps)."""
    import jax
    import jax.numpy as jnp

    pol = envs.deep_policy(b, prefix["policy"])
    n = int(prefix["steps"])
    salt = int(prefix.get("salt", 0))
    if n <= 0:
        return st_, ts
    k = (id(b), prefix["policy"])
    if k not in _FF:
        env = b.env

        def first(s, t, salt_):
            return env.step(s, pol(env, s, t, 0, salt_))

        def rest(s, t, m, salt_):
            def body(i, c):
                s1, t1 = c
                s2, t2 = env.step(s1, pol(env, s1, t1, i + 1, salt_))
                keep = t2.last()
                return jax.tree_util.tree_map(lambda x, y: jnp.where(keep, x, y), (s1, t1), (s2, t2))

            return jax.lax.fori_loop(0, m, body, (s, t))

        _FF[k] = (b, jax.jit(first), jax.jit(rest))
    _, first, rest = _FF[k]
    s1, t1 = first(st_, ts, salt)
    if int(t1.step_type) == LAST:
        return st_, ts
    return rest(s1, t1, n - 1, salt)


def solved_action(b: envs.Bundle, solve_fn, hst, r):
    if solve_fn is None:
        return None
    a = solve_fn(hst, r)
    return None if a is None else b.to_action(a)


def run_plan(b: envs.Bundle, rec: Recorder, plan: dict, mon: Monitor, after_last: int = 0,
             legal_fn=None, stop_at_last: bool = True, solve_fn=None):
    """Play a plan.  `legal_fn(state_host, ts_host) -> bool mask` replaces the env's own mask as the
    notion of legality when given.  After the first LAST, `after_last` further raw steps are
    issued on the terminal state (C03: stepping after LAST).  Returns summary dict."""
    key = envs.make_key(rec.key_words)
    st_, ts = b.reset(key)
    if plan.get("prefix"):
        rec.extra["prefix"] = dict(plan["prefix"])
        st_, ts = fast_forward(b, st_, ts, plan["prefix"])
    hst, hts = host((st_, ts))
    mon.on_reset(rec, hst, hts)
    t = 0
    ended_at, cause = None, None
    extra = 0
    for mode, r in plan["steps"]:
        is_after = ended_at is not None
        if is_after:
            if extra >= after_last:
                break
            extra += 1
            mode = "raw"
        mask = None
        if legal_fn is not None and not is_after:
            mask = np.asarray(legal_fn(hst, hts)).astype(bool)
        a = solved_action(b, solve_fn, hst, r) if (mode == "solve" and not is_after) else None
        if mode == "crowd" and not is_after:
            if "crowd_fn" not in rec.flags:
                rec.flags["crowd_fn"] = crowd_fn_for(b)
            if rec.flags["crowd_fn"] is not None:
                ca = rec.flags["crowd_fn"](hst, rec.key_words, r)
                a = None if ca is None else b.to_action(ca)
        if a is None:
            a = b.pick_action(st_, ts, mode, r, mask=mask)
        pmask = b.mask(hts) if mask is None else mask
        rec.actions.append(np.asarray(a))
        nst, nts = b.step(st_, a)
        hn, hnt = host((nst, nts))
        mon.on_step(rec, t, hst, hts, np.asarray(a), hn, hnt, is_after)
        t += 1
        if ended_at is None and int(hnt.step_type) == LAST:
            ended_at = t
            cause = classify_end(b, pmask, np.asarray(a), t)
            if stop_at_last and after_last == 0:
                st_, ts, hst, hts = nst, nts, hn, hnt
                break
        st_, ts, hst, hts = nst, nts, hn, hnt
    mon.on_end(rec)
    return {"steps": t, "ended_at": ended_at, "cause": cause, "final": (hst, hts)}


def run_actions(b: envs.Bundle, rec: Recorder, actions, mon: Monitor, first_last_only: bool = False):
    """Replay a concrete action list (no Hypothesis, no plan interpreter)."""
    st_, ts = b.reset(envs.make_key(rec.key_words))
    if rec.extra.get("prefix"):
        st_, ts = fast_forward(b, st_, ts, rec.extra["prefix"])
    hst, hts = host((st_, ts))
    mon.on_reset(rec, hst, hts)
    ended = False
    for t, a in enumerate(actions):
        a = b.to_action(a)
        rec.actions.append(a)
        nst, nts = b.step(st_, a)
        hn, hnt = host((nst, nts))
        mon.on_step(rec, t, hst, hts, a, hn, hnt, ended)
        if int(hnt.step_type) == LAST:
            ended = True
        st_, ts, hst, hts = nst, nts, hn, hnt
    mon.on_end(rec)


def action_is_masked_in(b: envs.Bundle, mask, a) -> bool:
    if mask is None:
        return True
    a = np.asarray(a)
    try:
        if b.layout == "flat":
            return bool(mask[int(a)])
        if b.layout == "nd":
            return bool(mask[tuple(int(x) for x in a)])
        # an agent whose mask row is empty has no legal move at all (e.g. a finished MMST agent, there is no
        # no-op): whatever it submits is ignored and does not make the joint action mask-violating
        return all(bool(mask[i, int(a[i])]) or not mask[i].any() for i in range(mask.shape[0]))
    except IndexError:
        return False


def classify_end(b: envs.Bundle, mask, a, t: int) -> str:
    tl = b.overrides.get("time_limit", b.meta.get("time_limit"))
    if tl is not None and tl != "dflt" and t >= int(tl):
        return "time_limit"
    if not action_is_masked_in(b, mask, a):
        return "invalid"
    return "completion"


def shrink_actions(fl: dict, replay_fn, max_replays: int = 60) -> dict:
    """ddmin-style minimisation of the concrete action list of a history case: greedily drop
    single actions (from the front) while the same (oracle, sig) bucket still fails."""
    case = fl["case"]
    if "actions" not in case:
        return fl
    best = list(case["actions"])
    budget = max_replays

    def fails(actions):
        c = dict(case, actions=actions)
        try:
            return [f for f in replay_fn(c) if f["oracle"] == fl["oracle"] and f["sig"] == fl["sig"]]
        except Exception:  # noqa: BLE001
            return []

    # also try a trivial key
    i = 0
    while i < len(best) and budget > 0:
        cand = best[:i] + best[i + 1:]
        budget -= 1
        if fails(cand):
            best = cand
        else:
            i += 1
    out = dict(fl)
    out["case"] = dict(case, actions=best)
    fs = fails(best)
    if fs:
        out["msg"] = fs[0]["msg"]
    else:
        out["case"] = case
    return out

"""Independent walker over jumanji spec trees (does not call spec.validate)."""
from __future__ import annotations

import numpy as np


def children(spec):
    from jumanji import specs

    return {k: v for k, v in vars(spec).items() if isinstance(v, specs.Spec) and not k.startswith("_")}


def is_leaf(spec) -> bool:
    from jumanji import specs

    return isinstance(spec, specs.Array)


def value_fields(value):
    if hasattr(value, "__dataclass_fields__"):
        return {k: getattr(value, k) for k in value.__dataclass_fields__}
    if isinstance(value, tuple) and hasattr(value, "_fields"):
        return dict(zip(value._fields, value))
    if isinstance(value, dict):
        return dict(value)
    return None


def conforms(spec, value, path="") -> list:
    """List of (path, kind, detail, touching) problems; empty = value conforms to spec.
    kinds: structure / shape / dtype / below_min / above_max / nan."""
    from jumanji import specs

    out = []
    if is_leaf(spec):
        a = np.asarray(value)
        if a.dtype == object:
            return [(path, "structure", f"leaf is not an array: {type(value).__name__}")]
        if tuple(a.shape) != tuple(spec.shape):
            out.append((path, "shape", f"{tuple(a.shape)} != spec {tuple(spec.shape)}"))
            return out
        if a.dtype != np.dtype(spec.dtype):
            out.append((path, "dtype", f"{a.dtype} != spec {np.dtype(spec.dtype)}"))
        if isinstance(spec, specs.BoundedArray):
            lo = np.broadcast_to(np.asarray(spec.minimum), a.shape)
            hi = np.broadcast_to(np.asarray(spec.maximum), a.shape)
            af = a.astype(np.float64) if a.dtype != bool else a.astype(np.int64)
            if a.size and np.issubdtype(a.dtype, np.floating) and np.isnan(a).any():
                out.append((path, "nan", "NaN in bounded leaf"))
            elif a.size and (af < lo.astype(af.dtype)).any():
                i = np.argwhere(af < lo.astype(af.dtype))[0]
                out.append((path, "below_min", f"value {a[tuple(i)]} < min {lo[tuple(i)]} at {tuple(i)}"))
            elif a.size and (af > hi.astype(af.dtype)).any():
                i = np.argwhere(af > hi.astype(af.dtype))[0]
                out.append((path, "above_max", f"value {a[tuple(i)]} > max {hi[tuple(i)]} at {tuple(i)}"))
        return out
    ch = children(spec)
    vf = value_fields(value)
    if vf is None:
        return [(path, "structure", f"value of type {type(value).__name__} has no fields")]
    if set(vf) != set(ch):
        out.append((path, "structure", f"fields {sorted(vf)} != spec children {sorted(ch)}"))
    try:
        want_type = type(spec.generate_value())
        if type(value) is not want_type:
            out.append((path, "structure", f"container {type(value).__name__} != {want_type.__name__}"))
    except Exception:  # noqa: BLE001 - generate_value problems are reported by their own oracle
        pass
    for k in ch:
        if k in vf:
            out.extend(conforms(ch[k], vf[k], f"{path}.{k}" if path else k))
    return out


def touching(spec, value, path="") -> list:
    """Paths of bounded leaves in which some element equals its minimum or maximum."""
    from jumanji import specs

    if is_leaf(spec):
        if isinstance(spec, specs.BoundedArray):
            a = np.asarray(value)
            if a.size and tuple(a.shape) == tuple(spec.shape):
                lo = np.broadcast_to(np.asarray(spec.minimum), a.shape)
                hi = np.broadcast_to(np.asarray(spec.maximum), a.shape)
                t = []
                if (a == lo).any():
                    t.append(path + ":min")
                if (a == hi).any():
                    t.append(path + ":max")
                return t
        return []
    out = []
    vf = value_fields(value) or {}
    for k, c in children(spec).items():
        if k in vf:
            out.extend(touching(c, vf[k], f"{path}.{k}" if path else k))
    return out


def describe(spec, path="") -> list:
    """Flat description [(path, class, shape, dtype, min, max, name, extra)] of a spec tree."""
    from jumanji import specs

    if is_leaf(spec):
        lo = hi = None
        extra = None
        if isinstance(spec, specs.BoundedArray):
            lo, hi = np.asarray(spec.minimum).tolist(), np.asarray(spec.maximum).tolist()
        if isinstance(spec, (specs.DiscreteArray, specs.MultiDiscreteArray)):
            extra = np.asarray(spec.num_values).tolist()
        return [(path, type(spec).__name__, tuple(spec.shape), str(np.dtype(spec.dtype)), lo, hi, spec.name, extra)]
    out = [(path, type(spec).__name__, None, None, None, None, spec.name, sorted(children(spec)))]
    for k, c in sorted(children(spec).items()):
        out.extend(describe(c, f"{path}.{k}" if path else k))
    return out

"""Pytree comparison used by the wrapper / transformation properties."""
from __future__ import annotations

import numpy as np


def flatten(tree):
    import jax

    leaves, treedef = jax.tree_util.tree_flatten_with_path(tree)
    return [(jax.tree_util.keystr(p), np.asarray(v)) for p, v in leaves], treedef


def diff(a, b, exact=True, rtol=1e-5, atol=1e-6):
    """None if equal, else a short description of the first difference.  exact=False: float
    leaves compared with tolerance, everything else exactly."""
    import jax

    fa, da = flatten(a)
    fb, db = flatten(b)
    if da != db:
        return f"tree structure differs: {da} vs {db}"
    for (pa, x), (_, y) in zip(fa, fb):
        if x.shape != y.shape:
            return f"{pa}: shape {x.shape} vs {y.shape}"
        if x.dtype != y.dtype:
            return f"{pa}: dtype {x.dtype} vs {y.dtype}"
        if exact or not np.issubdtype(x.dtype, np.floating):
            if not np.array_equal(x, y, equal_nan=np.issubdtype(x.dtype, np.floating)):
                idx = tuple(np.argwhere(x != y)[0]) if x.ndim else ()
                return f"{pa}{list(idx)}: {x[idx] if x.ndim else x} vs {y[idx] if y.ndim else y}"
        else:
            if not np.allclose(x, y, rtol=rtol, atol=atol, equal_nan=True):
                d = np.abs(x.astype(np.float64) - y.astype(np.float64))
                idx = np.unravel_index(np.argmax(d), d.shape) if x.ndim else ()
                return f"{pa}{list(idx)}: {x[idx] if x.ndim else x} vs {y[idx] if y.ndim else y} (float, tol)"
    del jax
    return None

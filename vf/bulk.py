"""Bulk sweeps: tens of thousands of short random episodes of a small configuration inside one jitted, vmapped scan,
with the bound part of the spec check evaluated on the device.

The per-timestep host oracle (vf/specwalk.py) costs a device-to-host transfer per step, which caps a quick run at a
few hundred episodes per configuration; events with a frequency of 1e-3 .. 1e-4 per episode (the one 2x2 2048 game in
two thousand that builds the largest possible tile) are then out of reach.  The sweep finds candidates only: every
episode it flags is replayed step by step on the host under the property's ordinary monitor, which alone decides
(and produces the replay file).  A flagged episode the host oracle accepts is counted (`sweep_unconfirmed`) and never
reported.
"""
from __future__ import annotations

import numpy as np

from vf import envs, specwalk

# (entry, episodes per batch, steps per episode, quick tier?[, scripted policy])
SWEEPS = {
    "Game2048": [("b2", 32768, 48, True), ("b3", 4096, 200, False), ("b5", 128, 1400, True, "snake")],
    "GraphColoring": [("n5p3", 4096, 8, True)],
    "Minesweeper": [("r3c5m3", 4096, 14, True), ("r4c4m15", 4096, 4, False)],
    "RubiksCube": [("n2s7t200", 2048, 64, False)],
    "SlidingTilePuzzle": [("g3m200t50s", 4096, 52, True)],
    "Sudoku": [("near", 2048, 6, False)],
    "BinPack": [("r5e10s1o6", 512, 12, False)],
    "FlatPack": [("r2c3b", 2048, 8, False)],
    "JobShop": [("j3m2o3d2", 2048, 24, True)],
    "Knapsack": [("t12d", 8192, 14, True), ("n10d", 8192, 12, False)],
    "Tetris": [("r6c5t400", 2048, 100, True)],
    "Cleaner": [("r3c3a2tNone", 2048, 30, True)],
    "Connector": [("g5a2t12rwc20s0", 2048, 14, True)],
    "CVRP": [("n3d", 8192, 8, True), ("zb6d", 4096, 14, False)],
    "LevelBasedForaging": [("g5a3f1v5l2nVNp0t40", 2048, 42, True)],
    "Maze": [("r4c7tNone", 2048, 40, True)],
    "MMST": [("n12e18a3k2t30", 1024, 32, False)],
    "MultiCVRP": [("c6v2d", 2048, 20, True)],
    "PacMan": [("small200", 256, 210, False)],
    "RobotWarehouse": [("s1x3h2a4r1q2t60", 2048, 62, True), ("s1x3h3a2r1q2t40", 1024, 42, False)],
    "Snake": [("r4c4t4000", 4096, 120, True)],
    "Sokoban": [("simplet120", 1024, 124, False)],
    "TSP": [("n5d", 8192, 6, True)],
}


def sweep_items(tier, flt):
    out = []
    for env in envs.select_envs(envs.ENV_NAMES, flt):
        for entry, n_eps, n_steps, quick, *pol in SWEEPS.get(env, []):
            if tier == "quick" and not quick:
                continue
            if flt and flt.get("entry") and entry not in flt["entry"]:
                continue
            out.append({"kind": "sweep", "env": env, "entry": entry, "episodes": n_eps, "steps": n_steps,
                        "policy": pol[0] if pol else "legal_hash",
                        "batches": 1 if tier == "quick" else 4, "cost": 1.0 + n_eps * n_steps / 4e5})
    return out


def _bounded_leaves(spec, value, path):
    from jumanji import specs

    if specwalk.is_leaf(spec):
        if isinstance(spec, specs.BoundedArray):
            yield path, spec, value
        return
    vf = specwalk.value_fields(value) or {}
    for k, c in specwalk.children(spec).items():
        if k in vf:
            yield from _bounded_leaves(c, vf[k], f"{path}.{k}")


def out_of_bounds(spec, value, path):
    """Device-side version of the bound part of specwalk.conforms: (any element outside [min, max] or NaN,
    any element equal to a bound).  Integer leaves are compared as integers, float leaves in their own dtype."""
    import jax.numpy as jnp

    bad = jnp.asarray(False)
    touch = jnp.asarray(False)
    for _, sp, x in _bounded_leaves(spec, value, path):
        x = jnp.asarray(x)
        if tuple(x.shape) != tuple(sp.shape) or x.size == 0:
            continue  # a static matter: reported by the eval_shape oracle
        lo = np.broadcast_to(np.asarray(sp.minimum, np.float64), x.shape)
        hi = np.broadcast_to(np.asarray(sp.maximum, np.float64), x.shape)
        if x.dtype == bool:
            x = x.astype(jnp.int32)
        if jnp.issubdtype(x.dtype, jnp.integer):
            info = np.iinfo(np.dtype(x.dtype))
            check_lo, check_hi = lo > info.min, hi < info.max
            lo_i = np.clip(np.ceil(lo), info.min, info.max).astype(x.dtype)
            hi_i = np.clip(np.floor(hi), info.min, info.max).astype(x.dtype)
            b = (check_lo & (x < lo_i)) | (check_hi & (x > hi_i))
            t = (x == lo_i) | (x == hi_i)
        else:
            lo_f, hi_f = lo.astype(x.dtype), hi.astype(x.dtype)
            b = (x < lo_f) | (x > hi_f) | jnp.isnan(x)
            t = (x == lo_f) | (x == hi_f)
        bad = bad | jnp.any(b)
        touch = touch | jnp.any(t)
    return bad, touch


_SWEEP: dict = {}


def sweep(b: envs.Bundle, base_words, salt: int, n_eps: int, n_steps: int, flag_fn, policy: str = "legal_hash"):
    """Run n_eps episodes of up to n_steps steps; episode e starts from fold_in(key(base_words), e) and plays the
    named scripted policy (envs.deep_policy) with salt (salt + e); every fourth episode replaces one action in six
    by an arbitrary in-spec action.  `flag_fn(state, ts, is_reset, step_number) -> (flag, aux)` is evaluated on every
    timestep up to and including the first LAST (step_number: 0 for the reset timestep, then 1, 2, ...).  Returns host arrays: first flagged step per episode (-1: none; 0 = the reset timestep), number of
    timesteps, number of aux hits, episode key words, actions."""
    import jax
    import jax.numpy as jnp

    k = (id(b), n_steps, id(flag_fn), policy)
    if k not in _SWEEP:
        env = b.env
        pol = envs.deep_policy(b, policy)
        raw = envs._legal_hash_policy(None, b.act_dtype, b.amin, b.amax)

        def one(key0, salt_, e):
            key = jax.random.fold_in(key0, e)
            s, ts = env.reset(key)
            f0, a0 = flag_fn(s, ts, True, 0)
            chaotic = (e % 4) == 3

            def body(c, i):
                s1, t1, done, first, n, aux = c
                a_legal = pol(env, s1, t1, i, salt_ + e)
                a_raw = raw(env, s1, t1, i, salt_ + e + 7)
                use_raw = chaotic & (jax.random.randint(jax.random.fold_in(key, i), (), 0, 6) == 0)
                a = jnp.where(use_raw, a_raw, jnp.asarray(a_legal).astype(b.act_dtype)).astype(b.act_dtype)
                s2, t2 = env.step(s1, a)
                f, ax = flag_fn(s2, t2, False, i + 1)
                first = jnp.where((first < 0) & f & ~done, i + 1, first)
                n = n + (~done).astype(jnp.int32)
                aux = aux + (ax & ~done).astype(jnp.int32)
                s3, t3 = jax.tree_util.tree_map(lambda x, y: jnp.where(done, x, y), (s1, t1), (s2, t2))
                return (s3, t3, done | t2.last(), first, n, aux), a

            init = (s, ts, jnp.asarray(False), jnp.where(f0, 0, -1).astype(jnp.int32), jnp.asarray(1, jnp.int32),
                    a0.astype(jnp.int32))
            (_, _, _, first, n, aux), acts = jax.lax.scan(body, init, jnp.arange(n_steps))
            return first, n, aux, key, acts

        _SWEEP[k] = (b, flag_fn, jax.jit(jax.vmap(one, in_axes=(None, None, 0))))
    fn = _SWEEP[k][2]
    first, n, aux, keys, acts = fn(envs.make_key(base_words), jnp.asarray(salt, jnp.int32), jnp.arange(n_eps))
    return np.asarray(first), np.asarray(n), np.asarray(aux), np.asarray(jax.random.key_data(keys) if jnp.issubdtype(
        keys.dtype, jax.dtypes.prng_key) else keys), np.asarray(acts)


_TWIN: dict = {}


def twin_sweep(long_b: envs.Bundle, short_b: envs.Bundle, T: int, base_words, salt: int, n_eps: int,
               policy: str = "legal_hash", explained=None):
    """C11: env(time_limit=T) and env(T+5) are reset with the same key and stepped with the same actions (chosen by the
    scripted policy from the long twin's observation) for T+5 steps, n_eps episodes in one vmapped scan.  Flags, per
    episode, the first step at which (both still running) the step types differ before step T, the short twin does not
    return LAST on step T, or the long twin does not on step T+5; with `explained` (a jnp predicate of the state: "the
    game is over for a documented reason") also a LAST of the short twin before step T that it does not explain.
    Returns host arrays (first flagged step or -1,
    number of episodes in which both twins were still running on step T, key words, actions)."""
    import jax
    import jax.numpy as jnp

    k = (id(long_b), id(short_b), T, policy, id(explained))
    if k not in _TWIN:
        le, se = long_b.env, short_b.env
        pol = envs.deep_policy(long_b, policy)
        raw = envs._legal_hash_policy(None, long_b.act_dtype, long_b.amin, long_b.amax)

        def one(key0, salt_, e):
            key = jax.random.fold_in(key0, e)
            sl, tl = le.reset(key)
            ss, ts = se.reset(key)
            chaotic = (e % 4) == 3

            def body(c, i):
                sl1, tl1, ss1, ts1, dl, ds, first, reached = c
                a_legal = pol(le, sl1, tl1, i, salt_ + e)
                a_raw = raw(le, sl1, tl1, i, salt_ + e + 7)
                use_raw = chaotic & (jax.random.randint(jax.random.fold_in(key, i), (), 0, 8) == 0)
                a = jnp.where(use_raw, a_raw, jnp.asarray(a_legal).astype(long_b.act_dtype)).astype(long_b.act_dtype)
                sl2, tl2 = le.step(sl1, a)
                ss2, ts2 = se.step(ss1, a)
                step = i + 1
                both = ~dl & ~ds
                bad = both & (step < T) & (tl2.step_type != ts2.step_type)
                bad = bad | (both & (step == T) & ~ts2.last())
                bad = bad | (~dl & (step == T + 5) & ~tl2.last())
                if explained is not None:
                    bad = bad | (~ds & (step < T) & ts2.last() & ~explained(ss2))
                first = jnp.where((first < 0) & bad, step, first)
                reached = reached | (both & (step == T))
                sl3, tl3 = jax.tree_util.tree_map(lambda x, y: jnp.where(dl, x, y), (sl1, tl1), (sl2, tl2))
                ss3, ts3 = jax.tree_util.tree_map(lambda x, y: jnp.where(ds, x, y), (ss1, ts1), (ss2, ts2))
                return (sl3, tl3, ss3, ts3, dl | tl2.last(), ds | ts2.last(), first, reached), a

            init = (sl, tl, ss, ts, jnp.asarray(False), jnp.asarray(False), jnp.asarray(-1, jnp.int32), jnp.asarray(False))
            (_, _, _, _, _, _, first, reached), acts = jax.lax.scan(body, init, jnp.arange(T + 5))
            return first, reached, key, acts

        _TWIN[k] = (long_b, short_b, jax.jit(jax.vmap(one, in_axes=(None, None, 0))))
    fn = _TWIN[k][2]
    first, reached, keys, acts = fn(envs.make_key(base_words), jnp.asarray(salt, jnp.int32), jnp.arange(n_eps))
    return np.asarray(first), np.asarray(reached), np.asarray(keys), np.asarray(acts)


_TRACES: dict = {}


def traces(b: envs.Bundle, base_words, salt: int, n_eps: int, n_steps: int, policy: str = "legal_hash",
           chaos: bool = True):
    """Like sweep(), without a predicate: returns per-episode summaries (host arrays) - number of steps, ended by LAST,
    sum / number of non-zero / largest absolute reward, smallest number of masked-in actions seen, number of steps
    whose action was masked out - plus key words and actions.  Used to pick *rare* episodes out of thousands for the
    host-side reference-model monitors."""
    import jax
    import jax.numpy as jnp

    k = (id(b), n_steps, policy, bool(chaos))
    if k not in _TRACES:
        env = b.env
        pol = envs.deep_policy(b, policy)
        raw = envs._legal_hash_policy(None, b.act_dtype, b.amin, b.amax)
        has_mask = b.layout is not None

        def legal_count(ts):
            return jnp.sum(ts.observation.action_mask.astype(jnp.int32)) if has_mask else jnp.asarray(0, jnp.int32)

        def one(key0, salt_, e):
            key = jax.random.fold_in(key0, e)
            s, ts = env.reset(key)
            chaotic = ((e % 4) == 3) & chaos

            def body(c, i):
                s1, t1, done, n, rsum, rnz, rmax, lmin = c
                a_legal = pol(env, s1, t1, i, salt_ + e)
                a_raw = raw(env, s1, t1, i, salt_ + e + 7)
                use_raw = chaotic & (jax.random.randint(jax.random.fold_in(key, i), (), 0, 6) == 0)
                a = jnp.where(use_raw, a_raw, jnp.asarray(a_legal).astype(b.act_dtype)).astype(b.act_dtype)
                s2, t2 = env.step(s1, a)
                live = ~done
                r = jnp.asarray(t2.reward, jnp.float32).reshape(-1)
                rsum = rsum + jnp.where(live, jnp.sum(r), 0.0)
                rnz = rnz + (live & jnp.any(r != 0)).astype(jnp.int32)
                rmax = jnp.maximum(rmax, jnp.where(live, jnp.max(jnp.abs(r)), 0.0))
                lmin = jnp.minimum(lmin, jnp.where(live & ~t2.last(), legal_count(t2), lmin))
                n = n + live.astype(jnp.int32)
                s3, t3 = jax.tree_util.tree_map(lambda x, y: jnp.where(done, x, y), (s1, t1), (s2, t2))
                return (s3, t3, done | t2.last(), n, rsum, rnz, rmax, lmin), a

            init = (s, ts, jnp.asarray(False), jnp.asarray(0, jnp.int32), jnp.asarray(0.0, jnp.float32),
                    jnp.asarray(0, jnp.int32), jnp.asarray(0.0, jnp.float32), legal_count(ts))
            (_, _, done, n, rsum, rnz, rmax, lmin), acts = jax.lax.scan(body, init, jnp.arange(n_steps))
            return n, done, rsum, rnz, rmax, lmin, key, acts

        _TRACES[k] = (b, jax.jit(jax.vmap(one, in_axes=(None, None, 0))))
    out = _TRACES[k][1](envs.make_key(base_words), jnp.asarray(salt, jnp.int32), jnp.arange(n_eps))
    return [np.asarray(x) for x in out]


def rare_episodes(b, base_words, salt, n_eps, n_steps, take, pick, policy="legal_hash", chaos=True):
    """Group the episodes of one traces() batch by what happened in them - (ended?, length bucket, sign and magnitude of
    the return, number of rewarded steps, largest single reward, fewest legal actions) - and return one episode of each
    of the `take` rarest groups (`pick` selects inside a group): [(signature, group size, key words, actions)]."""
    n, done, rsum, rnz, rmax, lmin, keys, acts = traces(b, base_words, salt, n_eps, n_steps, policy, chaos)

    def lg(x):
        return int(np.round(np.log2(abs(float(x)) + 1.0) * 2))

    groups = {}
    for e in range(len(n)):
        sig = (bool(done[e]), int(n[e]).bit_length(), int(np.sign(rsum[e])), lg(rsum[e]), min(int(rnz[e]), 6), lg(rmax[e]),
               min(int(lmin[e]), 3), e % 4 == 3 and chaos)
        groups.setdefault(sig, []).append(e)
    out = []
    for sig in sorted(groups, key=lambda g: (len(groups[g]), g))[:take]:
        e = groups[sig][pick % len(groups[sig])]
        out.append((sig, len(groups[sig]), [int(keys[e][0]), int(keys[e][1])], [np.asarray(a) for a in acts[e][: int(n[e])]]))
    return out, len(groups)

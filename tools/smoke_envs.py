"""Construct every menu entry, reset, and play 12 plan steps; prints timings (dev tool)."""
import sys, time, traceback
from vf.common import setup_process
setup_process()
from vf import envs
import multiprocessing as mp

def one(name):
    setup_process()
    out = []
    for e in envs.entries(name):
        t0 = time.time()
        try:
            b = envs.Bundle(name, e)
            t1 = time.time()
            st, ts = b.reset(envs.make_key((1, 2)))
            t2 = time.time()
            n_last = 0
            for i in range(12):
                mode = ["legal", "raw", "illegal", "survive"][i % 4]
                a = b.pick_action(st, ts, mode, 17 * i + 3)
                b.spec.validate(a)
                st, ts = b.step(st, a)
                if int(ts.step_type) == 2:
                    n_last += 1
                    st, ts = b.reset(envs.make_key((i, 5)))
            t3 = time.time()
            out.append(f"{name:20s} {e:28s} ctor {t1-t0:5.1f}s reset {t2-t1:5.1f}s steps {t3-t2:5.1f}s lasts={n_last} A={b.num_flat_actions()}")
        except Exception:
            out.append(f"{name:20s} {e:28s} FAILED\n" + traceback.format_exc()[-1200:])
    return "\n".join(out)

if __name__ == "__main__":
    names = sys.argv[1:] or envs.ENV_NAMES
    with mp.get_context("spawn").Pool(min(16, len(names))) as p:
        for r in p.imap_unordered(one, names):
            print(r, flush=True)

#!/venv/bin/python
"""Sensitivity helper: apply a textual mutation to a scratch copy of /repo and run a check on it.

usage: tools/mutrun.py NAME FILE OLD NEW -- <check args...>
       tools/mutrun.py NAME --patch P.diff -- <check args...>
The scratch copy lives under /dev/shm/vf-mut/NAME and is removed afterwards.
"""
import os, shutil, subprocess, sys

def main():
    argv = sys.argv[1:]
    sep = argv.index("--")
    head, check_args = argv[:sep], argv[sep + 1:]
    name = head[0]
    dst = f"/dev/shm/vf-mut/{name}"
    shutil.rmtree(dst, ignore_errors=True)
    os.makedirs(dst)
    subprocess.check_call(["rsync", "-a", "--exclude", ".git", "--exclude", "docs", "--exclude", "examples",
                           "--exclude", "__pycache__", "/repo/", dst + "/"])
    try:
        if head[1] == "--patch":
            subprocess.check_call(["patch", "-p1", "-d", dst, "-i", os.path.abspath(head[2])])
        else:
            i = 1
            while i < len(head):
                f, old, new = head[i:i + 3]
                i += 3
                p = os.path.join(dst, f)
                s = open(p).read()
                if s.count(old) != 1:
                    print(f"MUTATION ERROR: {old!r} occurs {s.count(old)} times in {f}")
                    return 3
                open(p, "w").write(s.replace(old, new))
        env = dict(os.environ, VF_REPO=dst)
        here = os.path.dirname(os.path.dirname(os.path.abspath(__file__)))
        r = subprocess.run([os.path.join(here, "check")] + check_args, env=env, capture_output=True, text=True)
        out = (r.stdout + r.stderr).strip().splitlines()
        keep = [l for l in out if l.startswith(("VIOLATION", "  FAIL", "KNOWN", "[C", "HARNESS"))]
        print("\n".join(keep[:30]) if keep else "\n".join(out[-15:]))
        print(f"mutant {name}: exit={r.returncode}")
        return 0
    finally:
        shutil.rmtree(dst, ignore_errors=True)

if __name__ == "__main__":
    sys.exit(main())

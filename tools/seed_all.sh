#!/bin/sh
# Re-evaluate every stored seeded change against the full quick tier of its property (and of any extra
# property named in seeded/<id>/also).  usage: tools/seed_all.sh [ids...]
cd "$(dirname "$0")/.." || exit 2
ids="$*"; [ -z "$ids" ] && ids=$(ls seeded | grep -v README)
for id in $ids; do
  prop=$(/venv/bin/python -c "import json;print(json.load(open('seeded/$id/meta.json'))['property'])")
  checks="$prop --tier quick"
  extra=""
  [ -f seeded/$id/also ] && for p in $(cat seeded/$id/also); do extra="$extra \"$p --tier quick\""; done
  echo "=== $id ($prop)"
  eval tools/seed_eval.py $id - $prop --reeval --checks "\"$checks\"" $extra 2>&1 | grep -E "^demo|^check|FAIL" | cut -c1-180
done

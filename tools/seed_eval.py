#!/venv/bin/python
"""Evaluate a seeded change produced by an independent sub-agent.

usage: tools/seed_eval.py ID WORKTREE PROP [--tests PATHS...] [--full-tests] [--checks "C04 --env X" ...]
Copies patch.diff / demo.py from the worktree into seeded/ID/, builds a scratch copy of /repo with
the patch applied (under /dev/shm/vf-seed/ID, removed at the end), runs the demo on the clean tree
and on the patched copy, runs the repository tests on the patched copy, runs our check(s) against
the patched copy (VF_REPO) and records everything in seeded/ID/meta.json.
"""
import argparse, json, os, shutil, subprocess, sys, time

ROOT = os.path.dirname(os.path.dirname(os.path.abspath(__file__)))


def sh(cmd, env=None, cwd=None, timeout=7200):
    t0 = time.time()
    r = subprocess.run(cmd, shell=True, capture_output=True, text=True, env=env, cwd=cwd, timeout=timeout)
    return r.returncode, (r.stdout + r.stderr), round(time.time() - t0, 1)


def main():
    ap = argparse.ArgumentParser()
    ap.add_argument("id")
    ap.add_argument("worktree")
    ap.add_argument("prop")
    ap.add_argument("--tests", nargs="*", default=[])
    ap.add_argument("--full-tests", action="store_true")
    ap.add_argument("--checks", nargs="*", default=None, help='each: "Cxx --tier quick --env Y"')
    ap.add_argument("--needs", default="")
    ap.add_argument("--what", default="")
    ap.add_argument("--reeval", action="store_true",
                    help="re-evaluate an already stored seeded change (worktree argument is ignored); keeps what/needs/tests")
    a = ap.parse_args()
    sd = os.path.join(ROOT, "seeded", a.id)
    os.makedirs(sd, exist_ok=True)
    old = {}
    if a.reeval:
        old = json.load(open(os.path.join(sd, "meta.json")))
        a.what, a.needs = old.get("what", a.what), old.get("needs", a.needs)
    else:
        for f in ("patch.diff", "demo.py"):
            shutil.copy(os.path.join(a.worktree, f), os.path.join(sd, f))
    scratch = f"/dev/shm/vf-seed/{a.id}"
    shutil.rmtree(scratch, ignore_errors=True)
    os.makedirs(scratch)
    meta = {"id": a.id, "property": a.prop, "what": a.what, "needs": a.needs, "ran": {}}
    if old.get("ran", {}).get("repo_tests"):
        meta["ran"]["repo_tests"] = old["ran"]["repo_tests"]
    if old.get("history"):
        meta["history"] = old["history"]
    try:
        subprocess.check_call(["rsync", "-a", "--exclude", ".git", "--exclude", "docs", "--exclude", "__pycache__",
                               "/repo/", scratch + "/"])
        rc, out, _ = sh(f"patch -p1 -d {scratch} -i {sd}/patch.diff")
        meta["ran"]["patch_applies"] = rc == 0
        if rc != 0:
            print(out)
            return 2
        base_env = dict(os.environ, JAX_PLATFORMS="cpu", MPLBACKEND="Agg")
        rc0, out0, t0 = sh(f"/venv/bin/python -W ignore {sd}/demo.py", env=dict(base_env, PYTHONPATH="/repo"), cwd="/repo")
        rc1, out1, t1 = sh(f"/venv/bin/python -W ignore {sd}/demo.py", env=dict(base_env, PYTHONPATH=scratch), cwd=scratch)
        meta["ran"]["demo_clean"] = {"exit": rc0, "wall_s": t0, "tail": out0.strip().splitlines()[-3:]}
        meta["ran"]["demo_patched"] = {"exit": rc1, "wall_s": t1, "tail": out1.strip().splitlines()[-6:]}
        print(f"demo clean exit={rc0}  patched exit={rc1}")
        if a.full_tests or a.tests:
            target = "" if a.full_tests else " ".join(a.tests)
            cmd = (f"/venv/bin/python -m pytest -q -p no:cacheprovider -x --timeout=900 -n 6 {target}")
            rc, out, t = sh(cmd, env=dict(base_env, PYTHONPATH=scratch), cwd=scratch)
            tail = [l for l in out.strip().splitlines() if "passed" in l or "failed" in l or "error" in l.lower()][-3:]
            meta["ran"]["repo_tests"] = {"cmd": cmd, "exit": rc, "wall_s": t, "tail": tail}
            print(f"repo tests exit={rc} {tail}")
        checks = a.checks if a.checks is not None else [f"{a.prop} --tier quick"]
        meta["ran"]["checks"] = []
        for c in checks:
            rc, out, t = sh(f"{ROOT}/check {c}", env=dict(os.environ, VF_REPO=scratch), cwd=ROOT)
            lines = [l for l in out.splitlines() if l.startswith(("VIOLATION", "  FAIL", "[C", "HARNESS", "KNOWN"))]
            meta["ran"]["checks"].append({"cmd": f"VF_REPO=<patched copy> ./check {c}", "exit": rc, "wall_s": t,
                                          "lines": lines[:12]})
            print(f"check {c}: exit={rc}")
            for l in lines[:8]:
                print("   ", l[:220])
        meta["detected"] = any(c["exit"] == 1 for c in meta["ran"]["checks"])
        with open(os.path.join(sd, "meta.json"), "w") as f:
            json.dump(meta, f, indent=1)
        return 0
    finally:
        shutil.rmtree(scratch, ignore_errors=True)


if __name__ == "__main__":
    sys.exit(main())

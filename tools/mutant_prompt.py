#!/venv/bin/python
"""Prints the prompt for a fresh mutant-writing sub-agent (property text + worktree path only)."""
import json, sys
pid, wt, focus = sys.argv[1], sys.argv[2], (sys.argv[3] if len(sys.argv) > 3 else "")
rec = next(json.loads(l) for l in open("/verif/properties.jsonl") if json.loads(l)["id"] == pid)
print(f"""You are given a git worktree of the Python/JAX library instadeepai/jumanji at {wt} (a scratch checkout; work ONLY inside it, never touch /repo or /verif, and do not read anything under /verif). Python with all dependencies is /venv/bin/python; run code and tests from the worktree root with `cd {wt} && PYTHONPATH={wt} /venv/bin/python ...` so that `import jumanji` resolves to the worktree (verify once with `python -c "import jumanji; print(jumanji.__file__)"`). There is no network.

Here is a semantic property that users of the library rely on:

  id: {rec['id']}
  title: {rec['title']}
  statement: {rec['statement']}
  quantified over: {rec['quantifier']['text']}
  code it is anchored in: {', '.join(rec['anchors']['files'][:14])}

Your task: write ONE realistic change to the library source (a plausible bug a maintainer could introduce during a refactor, optimisation or feature change - not sabotage that no reviewer would miss, no test edits) that BREAKS this property, while the library still imports, and the repository's existing test suite still passes. {focus}
The change must need something specific to manifest - a particular multi-step sequence of operations, an unusual but documented configuration or input (non-square grid, several agents, a boundary value, a late step of an episode, a rare collision), or two cooperating sites that each look fine alone - i.e. NOT something that ordinary use or the existing tests would expose at once. Keep it small (a few lines). Aim for a defect that even a reasonably thorough randomised test - thousands of random or mask-respecting episodes on the default and a few non-default configurations - would probably still miss, because it needs a deliberately constructed situation.

Deliver, inside the worktree:
 1. the change itself applied to the working tree (leave it uncommitted), and `patch.diff` at the worktree root produced by `git diff > patch.diff` (source files only);
 2. `demo.py` at the worktree root: a small self-contained program that exits 0 on the ORIGINAL code and exits 1 (printing what went wrong) on the CHANGED code - it must demonstrate a violation of the property as stated above (not merely "output differs from before"), using only the public API;
 3. run the existing tests that cover the files you touched (e.g. `cd {wt} && PYTHONPATH={wt} /venv/bin/python -m pytest -q -p no:cacheprovider <test files or dirs>`) and make sure they pass WITH your change; the full suite takes a long time, so run the relevant directories plus `jumanji/wrappers_test.py jumanji/specs_test.py jumanji/registration_test.py jumanji/tree_utils_test.py` where relevant, and tell me exactly what you ran;
 4. verify demo.py yourself both ways (`git apply -R patch.diff` / `git apply patch.diff`; do NOT use `git stash`: the stash is shared between worktrees of other people working in parallel).
Final answer (short): what the change is, why it breaks the property, what exactly it needs in order to manifest, which tests you ran with what result, and the demo output with and without the change.""")

#!/venv/bin/python
"""Regenerates MANIFEST.json from the table below and validates it (and evidence/*.json) against
the schemas in /root/.vp when they are present."""
import json, os, sys, glob
ROOT = os.path.dirname(os.path.dirname(os.path.abspath(__file__)))

CHECKS = {
 # id: (technique, level text, level note, design ref)
 "C19": ("Hypothesis-generated pytree descriptions incl. None / string / scalar leaves and lossy cross-dtype pairs (plus stacked real env states); round-trip, frame and reference-predicate oracles; collect-then-shrink",
         "Generated-input exploration: thousands of random nests (7 dtypes, rank 0-3 incl. size 0, 5 container kinds) and stacked real environment states are pushed through tree_transpose/tree_slice/tree_add_element and the equality helpers and compared with oracles written from the statement (np.stack frame condition, Python-list equality). Pure functions over a small input grammar: sampling at this density is the appropriate level.",
         "Trusts numpy's stack/tolist and JAX array construction; NaN leaves and structurally different pairs are outside the domain.", "3/C19"),
}
CHECKS.update({
 "C01": ("Hypothesis-generated reset keys x mask-relative episode plans (legal/illegal/raw/survive) over finite constructor menus; independent spec-walker oracle cross-checked with spec.validate; jax.eval_shape for shapes/dtypes of all inputs at once; bulk sweeps (10^4 generated episodes per small entry in one vmapped scan, device-side bound predicate, every flagged episode re-judged on the host)",
         "Generated-history exploration of all 23 environments x 2-8 constructor configurations each: every emitted observation/reward/discount from reset to the terminal step (time-limit boundary, invalid move, completion - distribution reported in evidence) is validated against the declared specs by an independent walker; generate_value() membership and acceptance by step are checked per configuration. Shapes and dtypes are decided for all inputs per configuration through abstract evaluation; bounds need search, which is what this level provides.",
         "Finite configuration menus (vf/envs.py); extras and post-LAST values are out of scope; Sokoban uses offline generators.", "3/C01"),
 "C03": ("Hypothesis-generated keys x episode plans continued past LAST; FIRST/MID/LAST protocol monitor over the whole history; coincidence cases (constructive episode replayed with time_limit = its completion step); bulk sweeps (10^3..10^4 generated episodes per small entry in one vmapped scan, device-side protocol predicate, flagged episodes re-judged on the host)",
         "Generated-history exploration: a monitor checks reset (FIRST, zero reward, unit discount, spec shapes) and every step including up to 4 steps issued after the first LAST (type in {MID, LAST}, discount in [0,1], MID not all-zero, LAST all-zero with the documented LBF truncation exception) on all 23 environments; evidence reports how many histories reached LAST per environment and cause.",
         "LBF LAST at step_count >= time_limit may carry discount one; finite menus.", "3/C03"),
 "C11": ("metamorphic twin env(T) vs env(T+5) on identical key and concrete actions, T in {1,2,3,7,default,None}; survive-biased and purposeful (solver) Hypothesis plans up to mid-sized limits; documented-other-reasons predicate for a LAST before the limit; structural-horizon bound from the reset instance for the 10 untimed envs; bulk twin / horizon sweeps (10^3 generated episodes per env in one vmapped scan of both twins, flagged episodes re-judged on the host)",
         "Generated-history exploration with a metamorphic oracle that needs no model of 'other reasons': the same key and actions are played in env(T) and env(T+5); step types must agree before T, env(T) must be LAST exactly at T. Policies are look-ahead 'survive' plans so that most episodes reach T (reported per env). Untimed CO environments are checked against a horizon computed from the instance (items, nodes, cells, operations).",
         "Assumes the time limit affects termination only; documented None defaults (rows*cols, 1000).", "3/C11"),
})
CHECKS.update({
 "C02": ("Hypothesis-generated call histories: stored (args -> result) pairs re-issued on the same object, on a fresh instance in reverse order, eagerly, inside vmap batches and as one lax.scan; argument snapshots (values + field identities); jaxpr effect scan; event-directed eager sampling (jitted pool search, rarest outcome groups re-executed in plain Python); interference round (wrappers / adapters run on the same object in between); process-isolation differential under other string-hash salts",
         "Generated-history exploration of purity and of commutation with jit/vmap/scan on all 23 environments: bitwise determinism under repetition and on fresh instances, arguments untouched (also under rationed eager execution where Python-level mutation is possible), eager vs jit vs vmap vs scan agreement within a measured float tolerance, and a structural scan of the traced programs for effects/callbacks.",
         "Histories, batch sizes and scan lengths are sampled (batch 3, length 10), eager calls rationed to a few per configuration; float tolerance rtol 1e-5.", "3/C02"),
 "C13": ("side-by-side differential oracle against the reference composition (unwrapped step; on LAST reset with split(terminal key)[0]) on Hypothesis-generated multi-episode runs (incl. constructive plans that end episodes by completion, long purposeful runs, stacked wrappers, typed keys); re-run as lax.scan, under vmap and (rationed) in plain Python; key-repeat and cross-run key-collapse oracles; bulk sweeps (10^3 generated 40-step runs per env compared with the reference composition on the device, flagged runs re-judged on the host)",
         "Generated-history exploration over real environments (not the test fake), both next_obs_in_extras settings: every wrapped step is compared leaf by leaf with the reference composition; runs span many episode boundaries (counted in evidence); key freshness and instance variety are checked per run; the same run is repeated as one jitted scan and under vmap.",
         "Reference key derivation split(key)[0] as documented in the wrapper; finite env/config menu.", "3/C13"),
 "C14": ("differential oracles on Hypothesis-generated batches: VmapWrapper slices vs unwrapped execution; VmapAutoResetWrapper vs VmapWrapper(AutoResetWrapper) step by step with staggered terminations (batch sizes 1..6 and 129..257, stacked wrappers, typed keys, rationed plain-Python steps); identity-render probe",
         "Generated-history exploration: batch sizes 1..6, per-element keys and plans so that none/some/all elements terminate on a step (histogram in evidence), 18 consecutive steps per case; both auto-reset compositions must agree at every step and index; render must return element 0.",
         "Float tolerance rtol 1e-5 between differently batched programs; finite env/config menu.", "3/C14"),
 "C15": ("model-based testing of the stateful adapters: Hypothesis-generated operation sequences (reset / reset(seed) / seed() method / step; one-agent configurations included) applied to the adapter and to a native shadow following the documented key schedule; membership in converted spaces",
         "Generated operation sequences over gym, dm_env and MultiToSingle adapters on real environments: observations, rewards, terminated/truncated flags, first-timestep conventions and re-seeding reproducibility are compared with a native shadow after every operation; observations must belong to the converted space/spec and sampled gym actions must validate natively; aggregator pairs drawn from {sum,max,min,mean,prod}.",
         "After LAST the sequence always resets (stepping a finished episode is outside the contract); dm_env re-seed = new adapter object.", "3/C15"),
})
CHECKS.update({
 "C17": ("exhaustive enumeration of finite domains (all 18*floor(n/2) cube moves and all ordered move pairs for n=2..7 against a geometric model built from the documented face conventions; the entire 2x2 and 3x3 sliding-tile state spaces by BFS through the env's own step) plus Hypothesis-generated scrambles, plays and undo sequences",
         "Mixed: complete enumeration where the domain is finite and small (move tables, group identities, action encodings, single-sticker perturbations of solved cubes, 181 440-state 3x3 sliding puzzle: marked exhaustive per sub-check in the evidence) and generated-input exploration elsewhere (scramble keys, random walks on 4x4/5x5, env-level play/undo/solve sequences).",
         "Cube geometry model trusts the documented 'looking directly at the face' conventions; cube sizes above 7 and sliding grids above 5x5 are not explored.", "3/C17"),
 "C18": ("Hypothesis-generated id strings against a hand-written parser of the documented grammar; rule-based state machine over register/make/registered_environments against a model dict; all 25 shipped ids instantiated twice and compared (specs, documented attributes, bitwise-identical behaviour)",
         "Generated-input exploration of the id grammar (valid / version-less / malformed in comparable shares, Unicode word characters and digits, leading zeros, huge versions) and of register/make histories with a recording dummy entry point; the 25 shipped ids are enumerated completely.",
         "Ids with more than 4300 version digits (CPython int conversion limit) are out of domain; Sokoban-v0 is instantiated with a ToyGenerator override because its dataset is not available offline.", "3/C18"),
})
_MODEL_NOTE = "Rule models are independent NumPy code in vf/models/<env>.py written from docs/environments/*.md and class docstrings; finite constructor menus (vf/envs.py); entries the docs leave undefined are guarded per model."
CHECKS.update({
 "C04": ("per reached state the whole action space is enumerated through one vmapped step; two oracles: independent NumPy statement of the rules, and the env's own reaction to every action; states from Hypothesis-generated legal/raw/solve/crowd plans",
         "Generated-history exploration of all 21 masked environments (non-square grids, several agents): at every non-terminal state the mask is compared entry by entry with an independent rule model, and every action (all of them up to 1024, stratified sample beyond; per agent/machine for joint spaces) is stepped to compare the environment's reaction with the mask.", _MODEL_NOTE, "3/C04"),
 "C05": ("every rule-illegal action of each reached state is enumerated and stepped (vmapped); oracle = documented invalid-move effect per environment (LAST + documented reward + untouched state, or ignored move)",
         "Generated-history exploration: states along legal/solve plans x all illegal actions (by the independent rule model, not the env mask); terminate-on-invalid and ignore-invalid environments are checked against their documented effect.", _MODEL_NOTE, "3/C05"),
 "C06": ("mask-following fill orders (first, last, random, solver, conflict-biased) generated by Hypothesis; hard constraints and completeness recomputed from raw state arrays in float64/int64 NumPy after every step",
         "Generated-history exploration of the 11 combinatorial-optimisation environments under play that follows the environment's own mask; feasibility of the partial solution after every step and completeness at legally reached ends.", _MODEL_NOTE + " One recorded known finding (MMST horizon) in known_findings.json.", "3/C06"),
 "C07": ("Hypothesis-generated plans mixing legal, illegal, raw, solver and conflict-biased actions; physical-consistency invariants and conservation laws recomputed in NumPy on every non-terminal state",
         "Generated-history exploration of the 11 grid/game environments (square, non-square, tiny grids; 1-4 agents): positions, uniqueness, table/grid agreement and conserved quantities are checked on every state from which the episode continues.", _MODEL_NOTE, "3/C07"),
 "C08": ("legal plans played to termination; return vs objective recomputed in float64 from raw arrays; metamorphic dense-vs-sparse twin on the identical trajectory",
         "Generated-history exploration: finished all-legal episodes (random legal, look-ahead survive, model solvers incl. late-finishing variants) are scored against the documented objective, and replayed in the twin configuration with the other reward function where both are documented as the same objective.", _MODEL_NOTE + " Tolerance rtol 1e-4.", "3/C08"),
 "C09": ("differential testing of every transition against independent NumPy rule models on generated histories; exhaustive synthetic tables (all 19 600 2048 rows of length 2-5 over exponents 0-6, all 2x2 boards) and generated synthetic states for utility functions",
         "Generated-history exploration with reference models for 18 environments (state fields, reward, termination; stochastic parts by membership) plus complete enumeration of small synthetic domains (marked exhaustive per sub-check) and scripted solver episodes that reach rare rule branches (line clears, pushes, deliveries, collisions).", _MODEL_NOTE, "3/C09"),
 "C10": ("batches of PRNG keys through every shipped generator configuration (incl. dense corners) via vmap(reset); per-instance NumPy validators: BFS connectivity, parity, exact-cover / tiling search, solution replay in the env, counts and ranges; complete scan of the shipped Sudoku databases",
         "Generated-input exploration of instance generators: 100+ generator configurations x batches of keys; solvability is established constructively (solver or replay of the generator's own solution), searches that exhaust their budget count as inconclusive; both Sudoku databases are enumerated completely.", _MODEL_NOTE, "3/C10"),
 "C12": ("each (state, observation) pair returned together on generated histories is compared with an independent NumPy observer (top-k EMS, feature planes, fov windows, sensor vectors, relabelling, copied fields)",
         "Generated-history exploration over configurations covering fov/sensor ranges, obs_num_ems < and = max, normalisation on/off and both LBF observers; solver plans reach deliveries, eaten food and line clears where observations change most.", _MODEL_NOTE, "3/C12"),
})
CHECKS.update({
 "C16": ("Hypothesis-generated spec descriptions (Array / BoundedArray with scalar and per-element bounds / DiscreteArray / MultiDiscreteArray / nested Spec trees) and values at, just inside and just outside every bound; independent membership predicate; equality matrices; pickle / replace round trips; converted gym spaces and dm_env specs; the real specs of all 23 environments",
         "Generated-input exploration of the spec algebra: validate <=> independent membership predicate, generate_value membership, replace / pickle round trips, == as an equivalence that distinguishes every attribute, nested equality iff children equal, membership in converted gym / dm_env spaces and validity of sampled actions - on ~3 000 (quick) / 60 000 (thorough) synthetic specs plus every environment's real specs.",
         "NaN and subnormal floats are outside the domain; equality only between same-kind, same-structure specs; one recorded known finding (MultiDiscrete conversion dtype).", "3/C16"),
})
NOT_APPLICABLE = {}
PENDING_REASON = "check not built yet in this revision of /verif (work in progress); the technique applies and the design is in DESIGN.md section 3"

def main():
    props = [json.loads(l)["id"] for l in open(os.path.join(ROOT, "properties.jsonl"))]
    checks = []
    for pid in props:
        if pid not in CHECKS:
            continue
        tech, text, note, ref = CHECKS[pid]
        checks.append({
            "property_id": pid,
            "quick_cmd": f"./check {pid} --tier quick",
            "thorough_cmd": f"./check {pid} --tier thorough",
            "evidence_file": f"evidence/{pid}.json",
            "replay_cmd_template": f"./check {pid} --replay {{path}}",
            "engine": "vf",
            "level_claimed": {"category": "exploration", "text": text, "design_ref": f"DESIGN.md section {ref}"},
            "level_note": note,
            "technique": tech,
        })
    na = [{"property_id": p, "reason": NOT_APPLICABLE.get(p, PENDING_REASON)} for p in props if p not in CHECKS]
    man = {
        "version": 1,
        "setup_cmd": "/venv/bin/pip install --no-index --find-links /opt/veriftools/wheels hypothesis",
        "hooks": {"guard": "JUMANJI_VERIF", "enable": "no source hooks are needed: every observation point is a public return value; checks import /repo/jumanji (editable install) directly, so they always see the current working tree",
                  "baseline_off_cmd": "cd /repo && env -u JUMANJI_VERIF /venv/bin/python -m pytest -ra -q -p no:cacheprovider --timeout=900 --continue-on-collection-errors",
                  "source_commits": [], "add_only": True},
        "engines": [{"name": "vf", "path": "vf/", "serves_properties": [c["property_id"] for c in checks],
                     "kind_free_text": "Hypothesis-driven property-based testing harness (generated keys, configurations, episode plans and data; independent NumPy oracles; collect-then-shrink; exhaustive enumeration of small finite domains)"}],
        "checks": checks,
        "not_applicable": na,
        "notes": "All checks: exit 0 held / 1 VIOLATION (with replay file) / 2 harness error or inconclusive. known_findings.json lists recorded genuine defects (status known) and repaired ones (status fixed).",
    }
    with open(os.path.join(ROOT, "MANIFEST.json"), "w") as f:
        json.dump(man, f, indent=1)
    try:
        import jsonschema
        jsonschema.validate(man, json.load(open("/root/.vp/MANIFEST.schema.json")))
        es = json.load(open("/root/.vp/EVIDENCE.schema.json"))
        for p in sorted(glob.glob(os.path.join(ROOT, "evidence", "*.json"))):
            jsonschema.validate(json.load(open(p)), es)
            print("evidence ok:", os.path.basename(p))
        print("manifest ok:", len(checks), "checks,", len(na), "not claimed")
    except ImportError:
        print("jsonschema not available; wrote manifest without validation")

if __name__ == "__main__":
    main()

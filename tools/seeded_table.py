#!/venv/bin/python
"""Markdown table of the seeded changes (seeded/*/meta.json) and which checks report them."""
import glob, json, os
ROOT = os.path.dirname(os.path.dirname(os.path.abspath(__file__)))
rows = []
for p in sorted(glob.glob(os.path.join(ROOT, "seeded", "*", "meta.json"))):
    m = json.load(open(p))
    caught = []
    for c in m["ran"].get("checks", []):
        name = c["cmd"].split("./check ")[1]
        if c["exit"] == 1:
            oracles = sorted({l.split("oracle=")[1].split(" ")[0] for l in c["lines"] if "oracle=" in l})
            caught.append(f"`{name}` ({', '.join(oracles[:3])})")
        else:
            caught.append(f"`{name}`: **missed** (exit {c['exit']})")
    rows.append(f"| {m['id']} | {m['property']} | {m['what']} | {m['needs']} | {'; '.join(caught)} |")
print("| id | property | change | needs | reported by |\n|---|---|---|---|---|")
print("\n".join(rows))
